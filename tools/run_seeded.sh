#!/bin/bash
# usage: tools/run_seeded.sh [seed-id ...]   — applies each seeded change to /repo,
# runs the checks named in its meta.json (quick tier), reverts; prints one line per seed.
ROOT="$(cd "$(dirname "$0")/.." && pwd)"
cd "$ROOT"
if [ -n "$(git -C /repo status --porcelain)" ]; then echo "/repo is not clean" >&2; exit 3; fi
seeds=("$@"); [ ${#seeds[@]} -eq 0 ] && seeds=($(ls seeded))
for s in "${seeds[@]}"; do
  d=seeded/$s
  checks=$(python3 -c "import json;print(' '.join(json.load(open('$d/meta.json'))['checks']))")
  git -C /repo apply "$ROOT/$d/patch.diff" || { echo "$s: patch does not apply"; continue; }
  res=""
  for c in $checks; do
    ./check $c > /tmp/seeded_$s_$c.log 2>&1; rc=$?
    res="$res $c:exit=$rc:violations=$(grep -c '^VIOLATION' /tmp/seeded_$s_$c.log)"
    rm -f /tmp/seeded_$s_$c.log
  done
  git -C /repo checkout -- .
  echo "$s:$res"
done
