#!/usr/bin/env python3
"""Regenerates /verif/MANIFEST.json from the table below and validates it."""
import json, sys

CHECKS = {
 "C09": dict(engine="SIM", design="§4 C09", technique="exhaustive enumeration of worker-behaviour assignments x arrival orders x verbs against an unmodified main-process event loop (CommandHub::run) under syscall-level simulation with virtual time",
   text="1056 (quick, W<=2) / 9000+ (thorough, W<=3) executions of an unmodified CommandHub::run() with fake workers on real channels and clients on the real unix command socket: verbs AddCluster / QueryClustersHashes / SoftStop / HardStop x every assignment of 8 behaviours (ok, failure, silent, close, duplicate, late, processing+ok, processing only) x both arrival orders, plus two concurrent clients. Exactly one final answer per request; OK only if every worker acknowledged in time; answered at once or by worker_timeout + one loop turn of virtual time; no panic, no spin; run() returns.",
   note="LoadState, QueryMetrics and Status verbs are not driven yet. A soft stop with a worker that never finishes is not judged (no deadline by design). Seven open known findings: stop and query verbs answer OK whatever the workers said; a soft stop hangs for ever when a worker's channel closes."),
 "C08": dict(engine="SIM", design="§4 C08", technique="exhaustive enumeration of worker request sequences (length <= 2 over a ~107-command alphabet from 4 bootstrap states) against an unmodified worker under syscall-level simulation with virtual time",
   text="4608 (quick) / ~47000 (thorough) request sequences are sent over the real command channel to an unmodified Server::run(): every command of the alphabet from 4 bootstrap states and pairs of commands, each followed by three queries, Status, TCP connection probes and a SoftStop. Exactly one final status per request id; the query view equals a ConfigState fed the accepted commands; listening sockets accept iff the view says active; the SoftStop is acknowledged once and run() returns.",
   note="No traffic is interleaved with the commands (that belongs to C10/C16). Three open known findings, all about slab accounting of listeners that never went through DeactivateListener."),
 "C02": dict(engine="SIM", design="§4 C02", technique="stateless deviation-bounded exhaustive search over environment schedules and exhaustive fault offsets under an unmodified worker event loop with interposed syscalls and virtual time",
   text="343 scenarios through an unmodified worker: each routing outcome (404/401/503), connect refused, backend garbage (502), silent backend (504 after back_timeout of virtual time), client stalling in its head (408), backend closing between keep-alive requests, and the backend closing / resetting after every byte offset j of a 147-byte response, as first and as second request of a connection, each under every schedule with at most 1 deviation: exactly one complete answer with the status matching the cause, or an explicit abort once the response has started - never a complete-looking truncated body, never late, sibling exchange intact.",
   note="HTTP/1.1 to HTTP/1.1 pair only so far. Connect stalls (SYN black hole) cannot be produced on loopback. When the backend dies inside the body before anything was relayed the worker keeps the client waiting for front_timeout and then closes without a byte: accepted by the oracle (not beyond the configured timeouts), noted in DESIGN.md."),
 "C03": dict(engine="ENUM+SIM", design="§4 C03", technique="bounded-exhaustive enumeration of a lattice of request framing / syntax mutations, each executed through an unmodified worker under every explored segmentation and one I/O deviation, with an independent canonical RFC 9112 reader as the backend",
   text="281 HTTP/1.1 client byte strings (request-line, Host, Content-Length, Transfer-Encoding, both framings, chunked-body syntax, field syntax, valid pipelines; every smuggling shape spellable in HTTP/1.1: CL.TE, TE.CL, TE.TE obfuscations, duplicate and signed lengths, integer wrap, obs-fold, bare LF / CR, NUL and control bytes, whitespace before the colon, Connection-nominated framing headers, forbidden trailers), each followed by marker requests, go through an unmodified worker to a backend that is an independent canonical RFC 9112 reader; the client's write is cut at line/colon boundaries (quick) or at every byte (thorough), plus one short or refused read / write. Every backend connection must parse canonically (one simplest-form framing header, one Host, no control bytes / obs-fold / bare LF), every request found there must carry a Sozu-Id sozu generated (a request sozu itself understood), canonical client input must be forwarded with the same method, target, authority and body in the same order, and the response stream must be well formed.",
   note="HTTP/1.1 frontend and backend only: the HTTP/2 halves of C03 (pseudo-header placement, Content-Length vs DATA, connection-specific fields) need the H2 actors. 'Rejected' is not required to be a 400: closing without forwarding is accepted. Chunk extensions and trailers that sozu refuses or drops are a C01/C02 matter, not flagged here."),
 "C13": dict(engine="ENUM+SIM", design="§4 C13", technique="bounded-exhaustive enumeration of header-list x listener-setting x peer-address scenarios, each executed through an unmodified worker under every schedule with at most d I/O deviations, against a reference transformation of the client's field list",
   text="HTTP/1.1 requests and responses through an unmodified worker: 9 listener / cluster settings (X-Real-IP elide / send, custom correlation header, sticky sessions, per-frontend header edits, PROXY-protocol v4 / v6 sources) x 29 request header lists (duplicates, case variants, odd values, cookies with the sticky cookie at every position and look-alikes, spoofed X-Forwarded-For / Forwarded / X-Real-IP / X-Forwarded-Proto / -Port / X-Request-Id / correlation fields, injection attempts in values, metadata in trailers) plus 4 settings x 6 response header lists. After removing sozu's documented additions (each checked against the real or PROXY-announced peer address and the listener) the backend's field list must equal the client's in order and value, cookies other than the sticky cookie intact, exactly one correlation header and one request id, no proxy metadata in trailers; the client's response field list must equal the backend's plus the documented additions.",
   note="HTTP/1.1 on both sides only: H2/H1 conversion (connection-specific fields, pseudo-headers, cookie crumbling) needs the H2 actors. Field values with bytes >= 0x80 are refused by the default (non 'tolerant-http1-parser') build by design and are left out. HSTS is HTTPS-only and not exercised."),
 "C01": dict(engine="SIM", design="§4 C01", technique="stateless deviation-bounded exhaustive search over environment schedules (short/would-block reads and writes, peer segmentation, readiness order) under an unmodified worker event loop with interposed syscalls and virtual time",
   text="An unmodified sozu_lib Server::run() proxies between scripted HTTP/1.1 clients and backends over real loopback sockets while epoll_wait/read/write/clock/getrandom are interposed: for 108 (quick) / 250+ (thorough) scenarios (framing x direction x sizes straddling buffer and frame boundaries x buffer_size x keep-alive) every schedule with at most 1 (quick) / 2 (thorough) deviations is executed; request bodies at the backend and response bodies at the client must equal what was sent, end cleanly, and complete without any timer having fired.",
   note="HTTP/1.1 to HTTP/1.1 pair only so far (H2/TLS pairs need the TLS + H2 actors). The simulated kernel only produces behaviours a Linux kernel may produce; EINTR/ENOBUFS and real TCP timing are not modelled. Six known findings, all on close-delimited responses."),
 "C15": dict(engine="ENUM", design="§4 C15", technique="bounded-exhaustive enumeration of a frame parameter lattice through the real frame_header/frame_body against an RFC 9113 reference decoder",
   text="(a) 1.5 million frames (type x flags x stream id x declared length x payload present x pad length) are decoded by the real mux parser and by a reference decoder: accept/reject class, error code, consumed length (exactly 9 + declared payload on accept) and decoded content must agree; no panic.",
   note="Part (a) only so far: the stateless decoder. Stateful connection behaviour (stream states, floods, GOAWAY classes, other connections keep being served) needs the SIM engine."),
 "C18": dict(engine="ENUM+SIM", design="§4 C18", technique="bounded-exhaustive enumeration of PROXY v2 headers at every truncation through the real parser; deviation-bounded exhaustive schedule exploration (short / would-block reads and writes, readiness order, sender cut positions) of TCP sessions through an unmodified worker",
   text="(a) every PROXY v2 header of the family x command x declared-length lattice (TLV tails, oversized, bad signature/version) at every truncation is parsed by parse_v2_header and compared with a reference (accept / incomplete / reject, consumed length, addresses); every header sozu builds round-trips through into_bytes/parse. (b) TCP sessions through a real worker: plain relay both ways with sizes straddling the buffer boundaries and four endings (both open, backend closes, client closes, client half-closes); send mode (header must carry the true client and listener addresses); expect and relay modes with incoming TCP4 / TCP6 / LOCAL / UNSPEC / UNIX / TLV / 233-byte / 64 KiB / bad signature / bad version / bad length headers, separate from or coalesced with the payload and cut at every byte; every schedule with at most 1 (quick) / 2 (thorough) deviations. Oracle: backend stream = [exactly one well-formed header] + exactly the payload, client stream = exactly the answer, end-of-stream only after all bytes, malformed headers close without forwarding.",
   note="Upgraded WebSocket pipes are not driven yet (they share Pipe with the TCP sessions checked here). splice(2) is off in the harness build (default features), so lib/src/splice.rs is not exercised."),
 "C20": dict(engine="ENUM", design="§4 C20", technique="bounded-exhaustive enumeration of generated TOML files (structure lattice, option toggles, scale family, constraint-violating neighbours) through the real loader and a fresh ConfigState",
   text="610 (quick) / 2300+ (thorough, pairwise options) generated configuration files go through Config::load_from_path, generate_config_messages and ConfigState::dispatch: every accepted file must produce commands a fresh state accepts in full and a state containing exactly the declared listeners/clusters/frontends/backends/certificates with the documented defaults the oracle names; reloading must change nothing; 18 constraint-violating neighbours must be rejected at load; sizes 1..1000 per object kind.",
   note="Defaults not named by the oracle are only covered through reload idempotence. TOML grammar slice: see the generator families in harness/src/checks/c20.rs."),
 "C10": dict(engine="ENUM", design="§4 C10", technique="bounded-exhaustive enumeration of listener sets (count 0..200 x address shape x protocol mix) through the real send_listeners/receive_listeners over a real socket pair",
   text="(a) every listener count 0..=200 x 6 address shapes x 5 protocol distributions is handed over through the real ScmSocket pair; the received (address, fd) lists must equal the sent ones and each received descriptor must be the very socket sent.",
   note="Part (a) only so far. Soft-stop / hand-over timing relative to in-flight requests (part b) needs the SIM engine."),
 "C11": dict(engine="ENUM", design="§4 C11", technique="bounded-exhaustive enumeration of message sequences x every cut (pair) of the byte stream x both production read loops on the real Channel over a socket pair with tiny buffers; malformed-prefix lattice; writer flush schedules",
   text="(a) every sequence of 1-3 messages with frame sizes straddling the initial buffer, its doublings and the maximum, the byte stream cut at every position and every pair of positions, read by the worker's loop and by the main process's real extract_messages: all messages delivered once, in order, intact, capacity never above the ceiling, no stall once all bytes are available; (b) writer: every flush schedule, peer receives exactly the accepted frames; (c) every declared length class x payload class followed by valid messages: error, no panic, never permanently wedged (next messages delivered or HUP/ERROR signalled).",
   note="24/96-byte buffers stand in for 1 MB/2 MB (thresholds are relative). The worker-side read loop is a transcription of Server::read_channel_messages_and_notify (private); the main-side loop is the real function. Short writes inside one syscall belong to the SIM part."),
 "C16": dict(engine="XS", design="§4 C16", technique="explicit-state BFS over accept/close/track/limit-change histories on the real SessionManager against a counting reference",
   text="All histories up to depth 7 (quick) / 9 (thorough) over accept, close, per-(cluster, IP) tracking and runtime limit changes for max_connections 1..3: the admission decision, the connection count, every per-(cluster, IP) slot count, the one-slot-per-connection rule, return to zero after all closes and 'accepting resumes at zero load' are compared with a counting reference at every step.",
   note="Part (a) only so far (SessionManager core). The end-to-end part (every session teardown path returns buffers, slab entries, gauges and slots; accept queue) needs the SIM engine."),
 "C17": dict(engine="XS", design="§4 C17", technique="explicit-state BFS (to closure) over add/remove/replace histories on the real CertificateResolver; each state probed and compared with a set-based reference",
   text="All add/remove/replace histories over 5 real certificates with overlapping exact/wildcard names and expirations, explored until the state space closes (326 states): for 8 server names the lookup that ResolvesServerCert::resolve performs must return a loaded certificate covering the name (exact over wildcard, longest-lived among equals), never a removed one, default only if none covers; failed replacement keeps the old certificate; names_for_sni agrees with the certificate served.",
   note="State identity includes the resolver's private name index (canonicalised from its Debug output). Real TLS handshakes and strict-SNI routing are SIM work."),
 "C19": dict(engine="ENUM", design="§4 C19", technique="exhaustive enumeration of all input histories of fixed length on the real sans-IO UdpManager with injected instants; every output checked against a per-flow reference",
   text="Every one of the 20^6 (quick) / 20^7 (thorough) input histories over client datagrams from 3 colliding sources, backend resolutions (incl. stale/duplicate), backend datagrams, clock advances with handle_timeout, cap changes, affinity-mode/budget reconfiguration, drain, abort and close_all is executed on a fresh UdpManager; every emitted Output is checked: payload unmodified, one transmission per datagram, flow bound to one backend, replies only to the flow's client, admission never above the cap or while draining, each flow closed exactly once, flow_count = created - closed, earliest deadline always armed, idle/exhausted flows reclaimed.",
   note="Manager core only; the UDP shell (sockets, backend selection, PROXY prefix) is not exercised."),
 "C12": dict(engine="XS", design="§4 C12", technique="explicit-state BFS over operation histories on the real BackendMap/BackendList/retry policy with a harness-controlled clock; every selection compared with an eligibility reference",
   text="All histories up to depth 7 (quick) / 9 (thorough) over add/re-add/remove, health and connect failure/success, clock advance past the back-off window, connection open/close, the 6 load-balancing policies and plain/keyed/connecting/sticky selections on 3 backends (2 weighted primaries, 1 backup): every selected backend must be eligible (primaries, else backups, else documented fail-open set), sticky wins iff eligible, HRW/Maglev keys are stable for an unchanged eligible set, connection counts equal the reference.",
   note="Health/retry transitions are injected through the public fields the health checker and mux use; request-level counters and the mux's pairing of inc/dec are covered by SIM checks. Back-off windows are explored as inside/past, not per jitter value."),
 "C04": dict(engine="XS", design="§4 C04", technique="explicit-state BFS over add/remove histories on the real Router; every state compared with a precedence reference and with all other insertion orders of the same frontend set",
   text="All add/remove histories up to depth 5 (quick) / 6 (thorough) over 16 deliberately colliding frontends (pre/tree/post, exact/wildcard/regex hosts, PREFIX/EQUALS/REGEX paths, method, policy) are executed on the real Router and probed with 72 (host, path, method) requests; the result must follow the documented precedence, never come from a removed frontend, and be identical for every insertion order of the same set.",
   note="Bounded alphabet (16 frontends, 72 probes); multiple competing regexes (documented as undefined) are not exercised. Reference model is a 60-line precedence function in the harness."),
 "C05": dict(engine="XS", design="§4 C05", technique="explicit-state BFS over the real ConfigState (command alphabet, depth-bounded) with every reached state pushed through all save/replay encodings",
   text="Every configuration reachable within the depth bound from 3 seed states over a ~90-command colliding alphabet is saved and replayed through the in-memory bootstrap, the JSON state file, the protobuf blob and the JSON upgrade payload, under 3 independently hashed instances; bounded-exhaustive, executed on the real code.",
   note="Bounded: alphabet domains (2 addresses, 2 clusters, few frontends/backends/certificates) and depth 3 (quick) / 4 (thorough). Trusts serde/prost only as used by sozu itself; oracle = structural equality of the flattened object view."),
 "C06": dict(engine="XS", design="§4 C06", technique="explicit-state BFS over the real ConfigState, then exhaustive enumeration of ordered state pairs (A,B) applying the real diff",
   text="All ordered pairs of reachable configurations (depth 2: all; depth 3: first 7000 in BFS order): A.diff(B) must be accepted request by request by a clone of A and yield B; A.diff(A) must be empty.",
   note="Pairs are limited to the stated state set; the alphabet bounds of C05 apply."),
 "C07": dict(engine="XS", design="§4 C07", technique="explicit-state BFS over the real ConfigState; every command (valid and invalid twin) attempted in every reached state with before/after object-level comparison",
   text="For every reachable configuration and every command of the alphabet: a rejected command leaves the state identical (including no orphan bucket); an accepted command changes only the objects it names.",
   note="Part (a) only so far: main-process ConfigState. Worker-side and CommandHub-side parts (SIM) are added when the SIM engine lands."),
}

PLANNED = {
 "C14": "SIM engine not built yet; planned, see DESIGN.md §4 C14",
}

def main():
    checks = []
    for pid in sorted(CHECKS):
        c = CHECKS[pid]
        checks.append({
            "property_id": pid,
            "quick_cmd": f"./check {pid} --tier quick",
            "thorough_cmd": f"./check {pid} --tier thorough",
            "evidence_file": f"/verif/evidence/{pid}.json",
            "replay_cmd_template": f"./check {pid} --replay {{path}}",
            "engine": c["engine"],
            "level_claimed": {"category": "model_checking", "text": c["text"], "design_ref": c["design"]},
            "level_note": c["note"],
            "technique": c["technique"],
        })
    na = [{"property_id": p, "reason": r} for p, r in sorted(PLANNED.items()) if p not in CHECKS]
    hooks_commits = [l.strip() for l in open("/verif/tools/hook_commits.txt")] if __import__("os").path.exists("/verif/tools/hook_commits.txt") else []
    m = {
        "version": 1,
        "setup_cmd": "cd /verif/harness && CARGO_NET_OFFLINE=true cargo build --offline",
        "hooks": {
            "guard": "--cfg sozu_verif",
            "enable": "RUSTFLAGS=--cfg sozu_verif via /verif/harness/.cargo/config.toml (every check builds /repo's crates as path dependencies with it)",
            "baseline_off_cmd": "cd /repo && cargo nextest run --workspace --no-fail-fast --tool-config-file pb:/w/lib/nextest.toml --profile pb --test-threads 8 --offline",
            "source_commits": hooks_commits,
            "add_only": True,
        },
        "engines": [
            {"name": "XS", "path": "/verif/harness/src/xs.rs", "serves_properties": sorted(p for p in CHECKS if CHECKS[p]["engine"].startswith("XS")),
             "kind_free_text": "explicit-state breadth-first search; every transition is a call into the real sozu code; states deduplicated on a canonical digest"},
            {"name": "SIM", "path": "/verif/harness/src/sim", "serves_properties": sorted(p for p in CHECKS if "SIM" in CHECKS[p]["engine"]),
             "kind_free_text": "deterministic syscall-level simulation (libc interposition) under an unmodified sozu event loop + stateless deviation-bounded exhaustive search over environment choices; executions isolated by fork"},
            {"name": "ENUM", "path": "/verif/harness/src/checks", "serves_properties": sorted(p for p in CHECKS if "ENUM" in CHECKS[p]["engine"]),
             "kind_free_text": "bounded-exhaustive enumeration of inputs / input histories executed on the real code against a boring reference"},
        ],
        "checks": checks,
        "not_applicable": na,
        "notes": "All checks are bounded-exhaustive enumeration executed on the implementation (see DESIGN.md). Known findings: /verif/known_findings.jsonl.",
    }
    json.dump(m, open("/verif/MANIFEST.json", "w"), indent=1)
    try:
        import jsonschema
        jsonschema.validate(m, json.load(open("/root/.vp/MANIFEST.schema.json")))
        print("MANIFEST.json valid;", len(checks), "checks,", len(na), "not_applicable")
    except ImportError:
        print("MANIFEST.json written (jsonschema not importable here)")

main()
