//! sozu-verif: bounded-exhaustive model checking of the sozu properties,
//! executed against the real implementation. See /verif/DESIGN.md.

mod cfgspace;
mod checks;
mod common;
mod interpose;
mod sim;
mod xs;

use common::{Args, Coverage, Ctx, load_replay, machinery_error};

fn main() {
    let argv: Vec<String> = std::env::args().skip(1).collect();
    let args = Args::parse(&argv);
    unsafe {
        let lim = libc::rlimit { rlim_cur: 65536, rlim_max: 65536 };
        libc::setrlimit(libc::RLIMIT_NOFILE, &lim);
    }
    if std::env::var("VERIF_SHARD").is_ok() {
        // a shard must not outlive the check that spawned it (it would keep binding the
        // check's loopback addresses and answer the next check's connections)
        unsafe { libc::prctl(libc::PR_SET_PDEATHSIG, libc::SIGKILL) };
    }
    if std::env::var("VERIF_PANIC_TRACE").is_err() {
        common::quiet_panics();
    }
    common::thread_init();
    let ctx = Ctx::new(args.clone());
    let replay_case = args.replay.as_ref().map(load_replay);
    let cov: Coverage = match (args.property.as_str(), &replay_case) {
        ("C04", None) => checks::c04::run(&ctx),
        ("C04", Some(r)) => checks::c04::replay(&ctx, &r["case"]),
        ("C12", None) => checks::c12::run(&ctx),
        ("C12", Some(r)) => checks::c12::replay(&ctx, &r["case"]),
        ("C17", None) => checks::c17::run(&ctx),
        ("C17", Some(r)) => checks::c17::replay(&ctx, &r["case"]),
        ("C19", None) => checks::c19::run(&ctx),
        ("C19", Some(r)) => checks::c19::replay(&ctx, &r["case"]),
        ("C16", None) => checks::c16::run(&ctx),
        ("C16", Some(r)) => checks::c16::replay(&ctx, &r["case"]),
        ("C11", None) => checks::c11::run(&ctx),
        ("C11", Some(r)) => checks::c11::replay(&ctx, &r["case"]),
        ("C10", None) => checks::c10::run(&ctx),
        ("C10", Some(r)) => checks::c10::replay(&ctx, &r["case"]),
        ("C20", None) => checks::c20::run(&ctx),
        ("C20", Some(r)) => checks::c20::replay(&ctx, &r["case"]),
        ("C15", None) => checks::c15::run(&ctx),
        ("C15", Some(r)) => checks::c15::replay(&ctx, &r["case"]),
        ("C18", None) => checks::c18::run(&ctx),
        ("C18", Some(r)) => checks::c18::replay(&ctx, &r["case"]),
        ("C01DBG", _) => {
            checks::c01::debug(&args);
            std::process::exit(0);
        }
        ("SIMSMOKE", _) => {
            checks::simsmoke::run();
            std::process::exit(0);
        }
        ("C01", None) => checks::c01::run(&ctx),
        ("C01", Some(r)) => checks::c01::replay(&ctx, &r["case"]),
        ("C10DBG", _) => {
            checks::c10b::debug(&args);
            std::process::exit(0);
        }
        ("C17DBG", _) => {
            checks::c17b::debug(&args);
            std::process::exit(0);
        }
        ("C16DBG", _) => {
            checks::c16b::debug(&args);
            std::process::exit(0);
        }
        ("C02CDBG", _) => {
            checks::c02c::debug(&args);
            std::process::exit(0);
        }
        ("C16CDBG", _) => {
            checks::c16c::debug(&args);
            std::process::exit(0);
        }
        ("C15DBG", _) => {
            checks::c15b::debug(&args);
            std::process::exit(0);
        }
        ("C14", None) => checks::c14::run(&ctx),
        ("C14", Some(r)) => checks::c14::replay(&ctx, &r["case"]),
        ("C14DBG", _) => {
            checks::c14::debug(&args);
            std::process::exit(0);
        }
        ("C13", None) => checks::c13::run(&ctx),
        ("C13", Some(r)) => checks::c13::replay(&ctx, &r["case"]),
        ("C13DBG", _) => {
            checks::c13::debug(&args);
            std::process::exit(0);
        }
        ("C03", None) => checks::c03::run(&ctx),
        ("C03", Some(r)) => checks::c03::replay(&ctx, &r["case"]),
        ("C03DBG", _) => {
            checks::c03::debug(&args);
            std::process::exit(0);
        }
        ("C02", None) => checks::c02::run(&ctx),
        ("C02", Some(r)) => checks::c02::replay(&ctx, &r["case"]),
        ("C02BDBG", _) => {
            checks::c02b::debug(&args);
            std::process::exit(0);
        }
        ("C02DBG", _) => {
            checks::c02::debug(&args);
            std::process::exit(0);
        }
        ("C08", None) => checks::c08::run(&ctx),
        ("C08", Some(r)) => checks::c08::replay(&ctx, &r["case"]),
        ("C08DBG", _) => {
            checks::c08::debug(&args);
            std::process::exit(0);
        }
        ("C09", None) => checks::c09::run(&ctx),
        ("C09", Some(r)) => checks::c09::replay(&ctx, &r["case"]),
        ("C18CDBG", _) => {
            checks::c18c::debug(&args);
            std::process::exit(0);
        }
        ("C18DBG", _) => {
            checks::c18::debug(&args);
            std::process::exit(0);
        }
        ("C09DBG", _) => {
            checks::c09::debug(&args);
            std::process::exit(0);
        }
        ("C05", None) => checks::cfgstate::run_c05(&ctx),
        ("C06", None) => checks::cfgstate::run_c06(&ctx),
        ("C07", None) => {
            if std::env::var("VERIF_SHARD").is_ok() {
                checks::c07b::run(&ctx);
                unreachable!();
            }
            let mut cov = common::Coverage::aggregate();
            cov.absorb("a-main-state", checks::cfgstate::run_c07a(&ctx));
            cov.absorb("b-worker-behaviour", checks::c07b::run(&ctx));
            cov
        }
        ("C07", Some(r)) if r["case"]["sim"] == "c07b" => checks::c07b::replay(&ctx, &r["case"]),
        ("C07DBG", _) => {
            checks::c07b::debug(&args);
            std::process::exit(0);
        }
        ("C05" | "C06" | "C07", Some(r)) => checks::cfgstate::replay(&ctx, &r["case"]),
        (p, _) => machinery_error(&format!("unknown property {p}")),
    };
    std::process::exit(ctx.finish(cov));
}
