//! The command alphabet over tiny, deliberately colliding domains used by the
//! configuration-state checks (C05, C06, C07; reused by C08 and C20).

use std::collections::BTreeMap;

use sozu_command_lib::{
    certificate::calculate_fingerprint,
    config::ListenerBuilder,
    proto::command::{
        ActivateListener, AddBackend, AddCertificate, AlpnProtocols, CertificateAndKey, Cluster,
        CustomHttpAnswers, DeactivateListener, Header, HealthCheckConfig, HstsConfig,
        ListenerType, LoadBalancingAlgorithms, LoadBalancingParams, PathRule, PathRuleKind,
        RemoveBackend, RemoveCertificate, RemoveListener, ReplaceCertificate, Request,
        RequestHttpFrontend, RequestTcpFrontend, RequestUdpFrontend, RulePosition, SetHealthCheck,
        SocketAddress, TlsVersion, UdpClusterConfig, UpdateHttpListenerConfig,
        UpdateHttpsListenerConfig, UpdateTcpListenerConfig, UpdateUdpListenerConfig,
        request::RequestType,
    },
};

pub const CERT1: &str = include_str!("/repo/lib/assets/certificate.pem");
pub const KEY1: &str = include_str!("/repo/lib/assets/key.pem");
pub const CERT2: &str = include_str!("/repo/lib/assets/cert_test.pem");
pub const KEY2: &str = include_str!("/repo/lib/assets/key_test.pem");
pub const CERT3: &str = include_str!("/repo/lib/assets/local-certificate.pem");
pub const KEY3: &str = include_str!("/repo/lib/assets/local-key.pem");
pub const CERT4: &str = include_str!("/repo/lib/assets/multi-sni-cert.pem");
pub const KEY4: &str = include_str!("/repo/lib/assets/multi-sni-key.pem");
pub const CERT5: &str = include_str!("/repo/lib/assets/cn-ne-san-cert.pem");
pub const KEY5: &str = include_str!("/repo/lib/assets/cn-ne-san-key.pem");

#[derive(Clone, Debug)]
pub struct Sym {
    pub name: String,
    pub req: Request,
    /// built to be rejected in at least some states ("invalid twin")
    pub invalid_twin: bool,
}

/// shard processes of the SIM engine bind these addresses for real: each
/// shard gets its own (the XS checks run unsharded and see the base values)
fn shard() -> Option<u16> {
    std::env::var("VERIF_SHARD").ok().and_then(|s| s.split('/').next().and_then(|i| i.parse::<u16>().ok()))
}
/// VERIF_LANE=0..7 moves every address this process binds to a disjoint range, so that two
/// checks (say a long thorough run and a quick one) can run side by side
pub fn lane() -> u16 {
    std::env::var("VERIF_LANE").ok().and_then(|s| s.parse::<u16>().ok()).unwrap_or(0).min(7)
}
pub fn a4() -> SocketAddress {
    match shard() {
        None => SocketAddress::new_v4(127, 0, 0, 1, 8080 + lane()),
        Some(s) => SocketAddress::new_v4(127, (10 + lane() * 20 + s) as u8, 0, 1, 8080),
    }
}
pub fn a6() -> SocketAddress {
    let port = 8443 + lane() * 100 + shard().unwrap_or(0);
    format!("[::1]:{port}").parse::<std::net::SocketAddr>().unwrap().into()
}
pub fn b1() -> SocketAddress {
    match shard() {
        None => SocketAddress::new_v4(127, 0, 0, 1, 1001 + lane() * 100),
        Some(s) => SocketAddress::new_v4(127, (10 + lane() * 20 + s) as u8, 0, 2, 1001),
    }
}
pub fn b2() -> SocketAddress {
    let port = 1002 + lane() * 100 + shard().unwrap_or(0);
    format!("[::1]:{port}").parse::<std::net::SocketAddr>().unwrap().into()
}

pub fn fp(pem: &str) -> String {
    hex::encode(calculate_fingerprint(pem.as_bytes()).unwrap())
}

pub fn cert(c: &str, k: &str, names: &[&str]) -> CertificateAndKey {
    CertificateAndKey {
        certificate: c.to_owned(),
        certificate_chain: vec![],
        key: k.to_owned(),
        versions: vec![TlsVersion::TlsV13 as i32],
        names: names.iter().map(|s| s.to_string()).collect(),
    }
}

fn tags(kv: &[(&str, &str)]) -> BTreeMap<String, String> {
    kv.iter()
        .map(|(k, v)| (k.to_string(), v.to_string()))
        .collect()
}

pub fn cluster(id: &str) -> Cluster {
    Cluster {
        cluster_id: id.to_owned(),
        sticky_session: false,
        https_redirect: false,
        proxy_protocol: None,
        load_balancing: LoadBalancingAlgorithms::RoundRobin as i32,
        answer_503: None,
        load_metric: None,
        ..Default::default()
    }
}

pub fn http_front(
    cluster: Option<&str>,
    addr: SocketAddress,
    host: &str,
    path: PathRule,
) -> RequestHttpFrontend {
    RequestHttpFrontend {
        cluster_id: cluster.map(|s| s.to_owned()),
        address: addr,
        hostname: host.to_owned(),
        path,
        method: None,
        position: RulePosition::Tree as i32,
        tags: BTreeMap::new(),
        ..Default::default()
    }
}

pub fn health(uri: &str, threshold: u32) -> HealthCheckConfig {
    HealthCheckConfig {
        uri: uri.to_owned(),
        interval: 10,
        timeout: 5,
        healthy_threshold: threshold,
        unhealthy_threshold: 3,
        expected_status: 0,
    }
}

fn s(name: &str, r: RequestType) -> Sym {
    Sym {
        name: name.to_owned(),
        req: r.into(),
        invalid_twin: false,
    }
}
fn bad(name: &str, r: RequestType) -> Sym {
    Sym {
        name: name.to_owned(),
        req: r.into(),
        invalid_twin: true,
    }
}

/// The full alphabet. `scope` trims it for the deeper tiers:
/// 0 = everything, 1 = core (no UDP/TCP patch variants).
pub fn alphabet() -> Vec<Sym> {
    let mut v = vec![];
    // ---- listeners
    let http_default = ListenerBuilder::new_http(a4()).to_http(None).unwrap();
    let mut http_rich = http_default.clone();
    http_rich.public_address = Some(SocketAddress::new_v4(10, 0, 0, 1, 80));
    http_rich.front_timeout = 61;
    http_rich.sticky_name = "SID".to_owned();
    http_rich.http_answers = Some(CustomHttpAnswers {
        answer_404: Some("HTTP/1.1 404 Not Found\r\n\r\n".to_owned()),
        ..Default::default()
    });
    http_rich.answers = tags(&[("503", "HTTP/1.1 503 Service Unavailable\r\n\r\n")]);
    http_rich.sozu_id_header = Some("X-Sozu".to_owned());
    http_rich.h2_max_concurrent_streams = Some(7);
    http_rich.elide_x_real_ip = Some(true);
    v.push(s("AddHttpListener(a4,default)", RequestType::AddHttpListener(http_default)));
    v.push(s("AddHttpListener(a4,rich)", RequestType::AddHttpListener(http_rich)));

    let https_default = ListenerBuilder::new_https(a6()).to_tls(None).unwrap();
    let mut https_rich = https_default.clone();
    https_rich.alpn_protocols = vec!["h2".to_owned()];
    https_rich.strict_sni_binding = Some(true);
    https_rich.hsts = Some(HstsConfig {
        enabled: Some(true),
        max_age: Some(10),
        include_subdomains: Some(false),
        preload: None,
        force_replace_backend: None,
    });
    https_rich.back_timeout = 31;
    https_rich.certificate = Some(CERT3.to_owned());
    https_rich.key = Some(KEY3.to_owned());
    v.push(s("AddHttpsListener(a6,default)", RequestType::AddHttpsListener(https_default)));
    v.push(s("AddHttpsListener(a6,rich)", RequestType::AddHttpsListener(https_rich)));

    let tcp_default = ListenerBuilder::new_tcp(a4()).to_tcp(None).unwrap();
    let mut tcp_rich = tcp_default;
    tcp_rich.expect_proxy = true;
    tcp_rich.connect_timeout = 4;
    v.push(s("AddTcpListener(a4,default)", RequestType::AddTcpListener(tcp_default)));
    v.push(s("AddTcpListener(a4,rich)", RequestType::AddTcpListener(tcp_rich)));

    let udp_default = ListenerBuilder::new_udp(a6()).to_udp(None).unwrap();
    let mut udp_rich = udp_default;
    udp_rich.max_flows = 3;
    udp_rich.public_address = Some(SocketAddress::new_v4(10, 0, 0, 2, 53));
    v.push(s("AddUdpListener(a6,default)", RequestType::AddUdpListener(udp_default)));
    v.push(s("AddUdpListener(a6,rich)", RequestType::AddUdpListener(udp_rich)));

    for (name, ty, addr) in [
        ("http", ListenerType::Http, a4()),
        ("https", ListenerType::Https, a6()),
        ("tcp", ListenerType::Tcp, a4()),
        ("udp", ListenerType::Udp, a6()),
    ] {
        v.push(s(
            &format!("ActivateListener({name})"),
            RequestType::ActivateListener(ActivateListener {
                address: addr,
                proxy: ty as i32,
                from_scm: false,
            }),
        ));
        v.push(s(
            &format!("DeactivateListener({name})"),
            RequestType::DeactivateListener(DeactivateListener {
                address: addr,
                proxy: ty as i32,
                to_scm: false,
            }),
        ));
        v.push(s(
            &format!("RemoveListener({name})"),
            RequestType::RemoveListener(RemoveListener {
                address: addr,
                proxy: ty as i32,
            }),
        ));
    }
    v.push(bad(
        "ActivateListener(proxy=9)",
        RequestType::ActivateListener(ActivateListener {
            address: a4(),
            proxy: 9,
            from_scm: false,
        }),
    ));
    v.push(bad(
        "RemoveListener(proxy=9)",
        RequestType::RemoveListener(RemoveListener {
            address: a4(),
            proxy: 9,
        }),
    ));

    // ---- listener patches
    v.push(s(
        "UpdateHttpListener(front_timeout=7)",
        RequestType::UpdateHttpListener(UpdateHttpListenerConfig {
            address: a4(),
            front_timeout: Some(7),
            ..Default::default()
        }),
    ));
    v.push(s(
        "UpdateHttpListener(many)",
        RequestType::UpdateHttpListener(UpdateHttpListenerConfig {
            address: a4(),
            back_timeout: Some(8),
            expect_proxy: Some(true),
            sticky_name: Some("PATCHED".to_owned()),
            http_answers: Some(CustomHttpAnswers {
                answer_503: Some("HTTP/1.1 503 x\r\n\r\n".to_owned()),
                ..Default::default()
            }),
            h2_max_glitch_count: Some(5),
            sozu_id_header: Some("X-Id".to_owned()),
            ..Default::default()
        }),
    ));
    v.push(bad(
        "UpdateHttpListener(front_timeout=9,bad sozu_id_header)",
        RequestType::UpdateHttpListener(UpdateHttpListenerConfig {
            address: a4(),
            front_timeout: Some(9),
            sozu_id_header: Some("bad header\r\n".to_owned()),
            ..Default::default()
        }),
    ));
    v.push(bad(
        "UpdateHttpListener(request_timeout=9,h2_max_concurrent_streams=0)",
        RequestType::UpdateHttpListener(UpdateHttpListenerConfig {
            address: a4(),
            request_timeout: Some(9),
            h2_max_concurrent_streams: Some(0),
            ..Default::default()
        }),
    ));
    v.push(s(
        "UpdateHttpsListener(alpn=[http/1.1],strict)",
        RequestType::UpdateHttpsListener(UpdateHttpsListenerConfig {
            address: a6(),
            alpn_protocols: Some(AlpnProtocols {
                values: vec!["http/1.1".to_owned()],
            }),
            strict_sni_binding: Some(false),
            disable_http11: Some(false),
            ..Default::default()
        }),
    ));
    v.push(bad(
        "UpdateHttpsListener(back_timeout=5,alpn=[spdy])",
        RequestType::UpdateHttpsListener(UpdateHttpsListenerConfig {
            address: a6(),
            back_timeout: Some(5),
            sticky_name: Some("Q".to_owned()),
            alpn_protocols: Some(AlpnProtocols {
                values: vec!["spdy".to_owned()],
            }),
            ..Default::default()
        }),
    ));
    v.push(bad(
        "UpdateHttpsListener(alpn=[h2],bad sozu_id_header)",
        RequestType::UpdateHttpsListener(UpdateHttpsListenerConfig {
            address: a6(),
            alpn_protocols: Some(AlpnProtocols {
                values: vec!["h2".to_owned()],
            }),
            sozu_id_header: Some("".to_owned()),
            ..Default::default()
        }),
    ));
    v.push(s(
        "UpdateTcpListener(expect_proxy,front=5)",
        RequestType::UpdateTcpListener(UpdateTcpListenerConfig {
            address: a4(),
            expect_proxy: Some(true),
            front_timeout: Some(5),
            ..Default::default()
        }),
    ));
    v.push(s(
        "UpdateUdpListener(max_flows=5)",
        RequestType::UpdateUdpListener(UpdateUdpListenerConfig {
            address: a6(),
            max_flows: Some(5),
            ..Default::default()
        }),
    ));

    // ---- clusters
    v.push(s("AddCluster(c1)", RequestType::AddCluster(cluster("c1"))));
    let mut c1rich = cluster("c1");
    c1rich.sticky_session = true;
    c1rich.load_balancing = LoadBalancingAlgorithms::Hrw as i32;
    c1rich.answers = tags(&[("503", "HTTP/1.1 503 c\r\n\r\n")]);
    c1rich.health_check = Some(health("/health", 2));
    c1rich.max_connections_per_ip = Some(2);
    c1rich.http2 = Some(true);
    v.push(s("AddCluster(c1,rich)", RequestType::AddCluster(c1rich)));
    let mut c2 = cluster("c2");
    c2.udp = Some(UdpClusterConfig {
        affinity_key: Some(1),
        responses: Some(2),
        ..Default::default()
    });
    v.push(s("AddCluster(c2,udp)", RequestType::AddCluster(c2)));
    // same id, other behaviour: an upsert must take effect everywhere
    let mut c1redir = cluster("c1");
    c1redir.https_redirect = true;
    v.push(s("AddCluster(c1,redirect)", RequestType::AddCluster(c1redir)));
    let mut c1bad = cluster("c1");
    c1bad.https_redirect = true;
    c1bad.health_check = Some(health("no-slash", 0));
    v.push(bad("AddCluster(c1,bad health)", RequestType::AddCluster(c1bad)));
    v.push(s("RemoveCluster(c1)", RequestType::RemoveCluster("c1".to_owned())));
    v.push(s("RemoveCluster(c2)", RequestType::RemoveCluster("c2".to_owned())));
    v.push(s(
        "SetHealthCheck(c1,/hc)",
        RequestType::SetHealthCheck(SetHealthCheck {
            cluster_id: "c1".to_owned(),
            config: health("/hc", 3),
        }),
    ));
    v.push(bad(
        "SetHealthCheck(c1,bad)",
        RequestType::SetHealthCheck(SetHealthCheck {
            cluster_id: "c1".to_owned(),
            config: health("/hc\r\nX: y", 3),
        }),
    ));
    v.push(s(
        "RemoveHealthCheck(c1)",
        RequestType::RemoveHealthCheck("c1".to_owned()),
    ));

    // ---- http(s) frontends
    let f1 = http_front(Some("c1"), a4(), "a.io", PathRule::prefix("/"));
    let mut f1b = f1.clone(); // same route key, different cluster and tags
    f1b.cluster_id = Some("c2".to_owned());
    f1b.tags = tags(&[("owner", "x")]);
    let mut f2 = http_front(Some("c1"), a4(), "a.io", PathRule::equals("/x"));
    f2.method = Some("GET".to_owned());
    f2.position = RulePosition::Pre as i32;
    f2.tags = tags(&[("k", "v")]);
    f2.redirect = Some(1);
    f2.redirect_scheme = Some(2);
    f2.rewrite_host = Some("b.io".to_owned());
    f2.headers = vec![Header {
        position: 1,
        key: "X-A".to_owned(),
        val: "1".to_owned(),
    }];
    let mut f3 = http_front(None, a4(), "*.a.io", PathRule::regex("/r.*"));
    f3.position = RulePosition::Post as i32;
    f3.required_auth = Some(true);
    let mut f_bad = http_front(Some("c1"), a4(), "bad.io", PathRule::prefix("/"));
    f_bad.position = 9;
    let mut f_badkind = http_front(Some("c1"), a4(), "kind.io", PathRule::prefix("/"));
    f_badkind.path.kind = 7;
    v.push(s("AddHttpFrontend(f1)", RequestType::AddHttpFrontend(f1.clone())));
    v.push(s("AddHttpFrontend(f1b same key)", RequestType::AddHttpFrontend(f1b.clone())));
    v.push(s("AddHttpFrontend(f2 rich)", RequestType::AddHttpFrontend(f2.clone())));
    v.push(s("AddHttpFrontend(f3 deny)", RequestType::AddHttpFrontend(f3.clone())));
    // values sitting on serialisation defaults: an empty path value with a non-default kind
    let f4 = http_front(Some("c1"), a4(), "e.io", PathRule::equals(""));
    let f5 = http_front(Some("c1"), a4(), "r.io", PathRule::regex(""));
    v.push(s("AddHttpFrontend(f4 EQUALS '')", RequestType::AddHttpFrontend(f4)));
    v.push(s("AddHttpFrontend(f5 REGEX '')", RequestType::AddHttpFrontend(f5)));
    v.push(bad("AddHttpFrontend(position=9)", RequestType::AddHttpFrontend(f_bad)));
    v.push(bad("AddHttpFrontend(path.kind=7)", RequestType::AddHttpFrontend(f_badkind)));
    v.push(s("RemoveHttpFrontend(f1)", RequestType::RemoveHttpFrontend(f1)));
    v.push(s("RemoveHttpFrontend(f1b)", RequestType::RemoveHttpFrontend(f1b)));
    v.push(s("RemoveHttpFrontend(f2)", RequestType::RemoveHttpFrontend(f2)));
    v.push(s("RemoveHttpFrontend(f3)", RequestType::RemoveHttpFrontend(f3)));

    let g1 = http_front(Some("c1"), a6(), "a.io", PathRule::prefix("/"));
    let mut g2 = http_front(Some("c2"), a6(), "b.a.io", PathRule::prefix("/api"));
    g2.hsts = Some(HstsConfig {
        enabled: Some(false),
        ..Default::default()
    });
    g2.tags = tags(&[("t", "1")]);
    v.push(s("AddHttpsFrontend(g1)", RequestType::AddHttpsFrontend(g1.clone())));
    v.push(s("AddHttpsFrontend(g2)", RequestType::AddHttpsFrontend(g2.clone())));
    v.push(s("RemoveHttpsFrontend(g1)", RequestType::RemoveHttpsFrontend(g1)));
    v.push(s("RemoveHttpsFrontend(g2)", RequestType::RemoveHttpsFrontend(g2)));

    // ---- tcp / udp frontends
    let t1 = RequestTcpFrontend {
        cluster_id: "c1".to_owned(),
        address: a4(),
        tags: BTreeMap::new(),
    };
    let mut t1b = t1.clone();
    t1b.tags = tags(&[("k", "v")]);
    let t2 = RequestTcpFrontend {
        cluster_id: "c2".to_owned(),
        address: a4(),
        tags: BTreeMap::new(),
    };
    v.push(s("AddTcpFrontend(c1,a4)", RequestType::AddTcpFrontend(t1.clone())));
    v.push(s("AddTcpFrontend(c1,a4,tags)", RequestType::AddTcpFrontend(t1b)));
    v.push(s("AddTcpFrontend(c2,a4)", RequestType::AddTcpFrontend(t2.clone())));
    v.push(s("RemoveTcpFrontend(c1,a4)", RequestType::RemoveTcpFrontend(t1)));
    v.push(s("RemoveTcpFrontend(c2,a4)", RequestType::RemoveTcpFrontend(t2)));
    let u1 = RequestUdpFrontend {
        cluster_id: "c2".to_owned(),
        address: a6(),
        tags: BTreeMap::new(),
    };
    let mut u1b = u1.clone();
    u1b.tags = tags(&[("k", "v")]);
    v.push(s("AddUdpFrontend(c2,a6)", RequestType::AddUdpFrontend(u1.clone())));
    v.push(s("AddUdpFrontend(c2,a6,tags)", RequestType::AddUdpFrontend(u1b)));
    v.push(s("RemoveUdpFrontend(c2,a6)", RequestType::RemoveUdpFrontend(u1)));

    // ---- backends
    let bk = |id: &str, addr: SocketAddress| AddBackend {
        cluster_id: "c1".to_owned(),
        backend_id: id.to_owned(),
        address: addr,
        sticky_id: None,
        load_balancing_parameters: None,
        backup: None,
    };
    let mut bk_rich = bk("b1", b1());
    bk_rich.sticky_id = Some("s1".to_owned());
    bk_rich.load_balancing_parameters = Some(LoadBalancingParams { weight: 3 });
    bk_rich.backup = Some(true);
    v.push(s("AddBackend(c1,b1@1)", RequestType::AddBackend(bk("b1", b1()))));
    v.push(s("AddBackend(c1,b1@1,rich)", RequestType::AddBackend(bk_rich)));
    v.push(s("AddBackend(c1,b1@2)", RequestType::AddBackend(bk("b1", b2()))));
    v.push(s("AddBackend(c1,b2@1)", RequestType::AddBackend(bk("b2", b1()))));
    // the same backends turned into backups (an upsert changing nothing else)
    let mut bk_backup1 = bk("b1", b1());
    bk_backup1.backup = Some(true);
    let mut bk_backup2 = bk("b1", b2());
    bk_backup2.backup = Some(true);
    v.push(s("AddBackend(c1,b1@1,backup)", RequestType::AddBackend(bk_backup1)));
    v.push(s("AddBackend(c1,b1@2,backup)", RequestType::AddBackend(bk_backup2)));
    let rb = |id: &str, addr: SocketAddress| RemoveBackend {
        cluster_id: "c1".to_owned(),
        backend_id: id.to_owned(),
        address: addr,
    };
    v.push(s("RemoveBackend(c1,b1@1)", RequestType::RemoveBackend(rb("b1", b1()))));
    v.push(s("RemoveBackend(c1,b1@2)", RequestType::RemoveBackend(rb("b1", b2()))));
    v.push(s("RemoveBackend(c1,b2@1)", RequestType::RemoveBackend(rb("b2", b1()))));

    // ---- certificates
    let add = |addr: SocketAddress, c: CertificateAndKey, exp: Option<i64>| AddCertificate {
        address: addr,
        certificate: c,
        expired_at: exp,
    };
    v.push(s(
        "AddCertificate(a6,cert1)",
        RequestType::AddCertificate(add(a6(), cert(CERT1, KEY1, &[]), None)),
    ));
    v.push(s(
        "AddCertificate(a6,cert1,names=[x.io])",
        RequestType::AddCertificate(add(a6(), cert(CERT1, KEY1, &["x.io"]), Some(1_900_000_000))),
    ));
    v.push(s(
        "AddCertificate(a6,cert2)",
        RequestType::AddCertificate(add(a6(), cert(CERT2, KEY2, &[]), None)),
    ));
    v.push(s(
        "AddCertificate(a4,cert2)",
        RequestType::AddCertificate(add(a4(), cert(CERT2, KEY2, &["y.io", "*.y.io"]), None)),
    ));
    v.push(bad(
        "AddCertificate(a6,garbage)",
        RequestType::AddCertificate(add(a6(), cert("not a pem", KEY1, &[]), None)),
    ));
    v.push(bad(
        "AddCertificate(b1,garbage)",
        RequestType::AddCertificate(add(b1(), cert("not a pem", KEY1, &[]), None)),
    ));
    v.push(s(
        "RemoveCertificate(a6,fp1)",
        RequestType::RemoveCertificate(RemoveCertificate {
            address: a6(),
            fingerprint: fp(CERT1),
        }),
    ));
    v.push(s(
        "RemoveCertificate(a6,fp2)",
        RequestType::RemoveCertificate(RemoveCertificate {
            address: a6(),
            fingerprint: fp(CERT2),
        }),
    ));
    v.push(bad(
        "RemoveCertificate(a6,non-hex)",
        RequestType::RemoveCertificate(RemoveCertificate {
            address: a6(),
            fingerprint: "zz".to_owned(),
        }),
    ));
    v.push(s(
        "ReplaceCertificate(a6,fp1->cert2)",
        RequestType::ReplaceCertificate(ReplaceCertificate {
            address: a6(),
            new_certificate: cert(CERT2, KEY2, &[]),
            old_fingerprint: fp(CERT1),
            new_expired_at: None,
        }),
    ));
    v.push(s(
        "ReplaceCertificate(a6,fp1->cert1 names=[z.io])",
        RequestType::ReplaceCertificate(ReplaceCertificate {
            address: a6(),
            new_certificate: cert(CERT1, KEY1, &["z.io"]),
            old_fingerprint: fp(CERT1),
            new_expired_at: None,
        }),
    ));
    v.push(bad(
        "ReplaceCertificate(a6,fp1->garbage)",
        RequestType::ReplaceCertificate(ReplaceCertificate {
            address: a6(),
            new_certificate: cert("garbage", KEY1, &[]),
            old_fingerprint: fp(CERT1),
            new_expired_at: None,
        }),
    ));
    // well-formed PEM that is not a certificate (the key file passed by mistake):
    // passes the first validation step, fails a later one
    v.push(bad(
        "ReplaceCertificate(a6,fp1->key-as-cert)",
        RequestType::ReplaceCertificate(ReplaceCertificate {
            address: a6(),
            new_certificate: cert(KEY1, KEY1, &[]),
            old_fingerprint: fp(CERT1),
            new_expired_at: None,
        }),
    ));
    v.push(bad(
        "AddCertificate(a6,key-as-cert)",
        RequestType::AddCertificate(add(a6(), cert(KEY2, KEY2, &[]), None)),
    ));
    v.push(bad(
        "ReplaceCertificate(a4,fp1->cert2)",
        RequestType::ReplaceCertificate(ReplaceCertificate {
            address: a4(),
            new_certificate: cert(CERT2, KEY2, &[]),
            old_fingerprint: fp(CERT1),
            new_expired_at: None,
        }),
    ));
    v
}

/// Short name of the request verb (for keys and counters).
pub fn verb(r: &Request) -> String {
    r.short_name().to_owned()
}
