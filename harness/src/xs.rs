//! Engine XS: explicit-state breadth-first search where every transition is a
//! call into the real implementation. States are real objects (when `Clone`)
//! or histories replayed into fresh real objects.

use std::collections::HashMap;

use sha2::{Digest, Sha256};

use crate::common::{ncpu, par_map};

pub type Key = [u8; 16];

pub fn key_of(bytes: &[u8]) -> Key {
    let d = Sha256::digest(bytes);
    let mut k = [0u8; 16];
    k.copy_from_slice(&d[..16]);
    k
}

pub struct Explored<S> {
    pub states: Vec<S>,
    pub depth: Vec<u32>,
    /// (parent index, symbol index); roots have parent == usize::MAX and the
    /// symbol field holds the seed index
    pub parent: Vec<(usize, usize)>,
    pub transitions: u64,
    pub per_symbol_enabled: Vec<u64>,
    pub per_symbol_new_state: Vec<u64>,
    pub max_depth: u32,
    pub capped: bool,
}

impl<S> Explored<S> {
    /// symbol indices leading from a root to state `i`, plus the seed index
    pub fn history(&self, mut i: usize) -> (usize, Vec<usize>) {
        let mut h = vec![];
        loop {
            let (p, s) = self.parent[i];
            if p == usize::MAX {
                h.reverse();
                return (s, h);
            }
            h.push(s);
            i = p;
        }
    }
}

/// `step(state, sym)` returns the successor (None = symbol not enabled /
/// produced no new information) — it is also where per-transition oracles
/// run. `key` must be a canonical digest of everything observable.
pub fn bfs<S: Clone + Send + Sync>(
    seeds: Vec<S>,
    n_symbols: usize,
    max_depth: u32,
    max_states: usize,
    step: impl Fn(&S, usize, usize /*state index*/) -> Option<S> + Sync,
    key: impl Fn(&S) -> Key + Sync,
) -> Explored<S> {
    let mut ex = Explored {
        states: vec![],
        depth: vec![],
        parent: vec![],
        transitions: 0,
        per_symbol_enabled: vec![0; n_symbols],
        per_symbol_new_state: vec![0; n_symbols],
        max_depth: 0,
        capped: false,
    };
    let mut seen: HashMap<Key, usize> = HashMap::new();
    let mut frontier: Vec<usize> = vec![];
    for (i, s) in seeds.into_iter().enumerate() {
        let k = key(&s);
        if seen.contains_key(&k) {
            continue;
        }
        seen.insert(k, ex.states.len());
        frontier.push(ex.states.len());
        ex.states.push(s);
        ex.depth.push(0);
        ex.parent.push((usize::MAX, i));
    }
    let threads = ncpu();
    let mut d = 0;
    while !frontier.is_empty() && d < max_depth {
        d += 1;
        let states_ref = &ex.states;
        let results: Vec<Vec<Option<(S, Key)>>> = par_map(&frontier, threads, |_, &si| {
            let s = &states_ref[si];
            (0..n_symbols)
                .map(|sym| {
                    step(s, sym, si).map(|n| {
                        let k = key(&n);
                        (n, k)
                    })
                })
                .collect()
        });
        let mut next = vec![];
        'outer: for (fi, row) in results.into_iter().enumerate() {
            let si = frontier[fi];
            for (sym, r) in row.into_iter().enumerate() {
                if let Some((n, k)) = r {
                    ex.transitions += 1;
                    ex.per_symbol_enabled[sym] += 1;
                    if !seen.contains_key(&k) {
                        if ex.states.len() >= max_states {
                            ex.capped = true;
                            break 'outer;
                        }
                        seen.insert(k, ex.states.len());
                        next.push(ex.states.len());
                        ex.states.push(n);
                        ex.depth.push(d);
                        ex.parent.push((si, sym));
                        ex.per_symbol_new_state[sym] += 1;
                        ex.max_depth = d;
                    }
                }
            }
        }
        frontier = next;
    }
    ex
}
