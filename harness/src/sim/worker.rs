//! Runs an unmodified `sozu_lib::server::Server` under the simulation,
//! together with a scripted environment: peers + the main-process end of the
//! command channel.

use std::os::fd::{AsRawFd, IntoRawFd};

use mio::net::UnixStream;
use sozu_command_lib::{
    channel::Channel,
    config::{ConfigBuilder, FileConfig},
    proto::command::{
        HardStop, Request, ResponseStatus, ServerConfig, WorkerRequest, WorkerResponse,
        request::RequestType,
    },
    ready::Ready,
    scm_socket::{Listeners, ScmSocket},
    state::ConfigState,
};
use sozu_lib::server::Server;

use super::{ChoiceProfile, EnvCtx, Environment, Execution, peer::Peer};

pub fn server_config(tweak: impl FnOnce(&mut ServerConfig)) -> ServerConfig {
    let config = ConfigBuilder::new(FileConfig::default(), "")
        .into_config()
        .unwrap_or_else(|e| crate::common::machinery_error(&format!("default config: {e}")));
    let mut sc = ServerConfig::from(&config);
    sc.log_level = "off".into();
    sc.max_connections = 64;
    sc.min_buffers = 1;
    sc.max_buffers = 64;
    sc.command_buffer_size = 16384;
    sc.max_command_buffer_size = 1_000_000;
    tweak(&mut sc);
    sc
}

/// One step of the main-process script on the command channel.
#[derive(Clone, Debug)]
pub enum MainStep {
    Send(WorkerRequest),
    /// wait for a final (Ok / Failure) answer carrying this id
    AwaitFinal(String),
    /// wait until every peer reached its goal (or can no longer progress)
    AwaitPeers,
    /// the same, but give up after this much virtual time
    AwaitPeersFor { ms: u64 },
    /// wait until peer `i` has executed at least `pc` instructions
    AwaitPeerAt { peer: usize, pc: usize },
    Wait { ms: u64 },
}

pub struct MainChannel {
    pub channel: Channel<WorkerRequest, WorkerResponse>,
    /// (virtual ns, response) in arrival order
    pub responses: Vec<(u64, WorkerResponse)>,
    pub closed: bool,
}

impl MainChannel {
    pub fn pump(&mut self, now: u64) -> bool {
        let mut progressed = false;
        self.channel.handle_events(Ready::READABLE | Ready::WRITABLE);
        if self.channel.back_buf.available_data() > 0 {
            self.channel.interest.insert(Ready::WRITABLE);
            if let Ok(n) = self.channel.writable() {
                progressed |= n > 0;
            }
        }
        self.channel.interest.insert(Ready::READABLE);
        let _ = self.channel.readable();
        loop {
            match self.channel.read_message() {
                Ok(m) => {
                    self.responses.push((now, m));
                    progressed = true;
                }
                Err(_) => break,
            }
        }
        if self.channel.readiness.is_hup() && !self.closed {
            self.closed = true;
            progressed = true;
        }
        progressed
    }
    pub fn send(&mut self, r: &WorkerRequest) {
        let _ = self.channel.write_message(r);
        self.channel.handle_events(Ready::WRITABLE);
        let _ = self.channel.writable();
    }
    pub fn final_for(&self, id: &str) -> Vec<&WorkerResponse> {
        self.responses
            .iter()
            .map(|(_, r)| r)
            .filter(|r| r.id == id && r.status != ResponseStatus::Processing as i32)
            .collect()
    }
}

pub struct Scenario {
    pub peers: Vec<Peer>,
    pub main: MainChannel,
    pub main_script: Vec<MainStep>,
    pub main_pc: usize,
    main_wake: Option<u64>,
    pub stop_sent: bool,
    pub stop_reason: Option<String>,
    /// scm socket (main side) kept open for the lifetime of the worker
    pub scm_main: ScmSocket,
}

impl Scenario {
    pub fn peers_settled(&self) -> bool {
        self.peers.iter().all(|p| p.done())
    }
    fn send_stop(&mut self, why: &str) {
        if self.stop_sent {
            return;
        }
        self.stop_sent = true;
        self.stop_reason = Some(why.to_owned());
        self.main.send(&WorkerRequest { id: "SIM-HARDSTOP".into(), content: RequestType::HardStop(HardStop {}).into() });
    }
}

impl Environment for Scenario {
    fn turn(&mut self, ctx: &mut EnvCtx) -> bool {
        let mut progressed = self.main.pump(ctx.now_ns);
        for p in self.peers.iter_mut() {
            progressed |= p.turn(ctx);
        }
        // main script
        loop {
            let Some(step) = self.main_script.get(self.main_pc).cloned() else {
                // script exhausted: stop the worker
                if !self.stop_sent {
                    self.send_stop("scenario complete");
                    progressed = true;
                }
                break;
            };
            match step {
                MainStep::Send(r) => {
                    self.main.send(&r);
                    self.main_pc += 1;
                    progressed = true;
                }
                MainStep::AwaitFinal(id) => {
                    if !self.main.final_for(&id).is_empty() || self.main.closed {
                        self.main_pc += 1;
                        progressed = true;
                    } else {
                        break;
                    }
                }
                MainStep::AwaitPeers => {
                    if self.peers_settled() {
                        self.main_pc += 1;
                        progressed = true;
                    } else {
                        break;
                    }
                }
                MainStep::AwaitPeersFor { ms } => {
                    let deadline = *self.main_wake.get_or_insert(ctx.now_ns + ms * 1_000_000);
                    if self.peers_settled() || ctx.now_ns >= deadline {
                        self.main_wake = None;
                        self.main_pc += 1;
                        progressed = true;
                    } else {
                        break;
                    }
                }
                MainStep::AwaitPeerAt { peer, pc } => {
                    if self.peers.get(peer).is_none_or(|p| p.pc >= pc || p.done()) {
                        self.main_pc += 1;
                        progressed = true;
                    } else {
                        break;
                    }
                }
                MainStep::Wait { ms } => match self.main_wake {
                    None => {
                        self.main_wake = Some(ctx.now_ns + ms * 1_000_000);
                        break;
                    }
                    Some(t) if ctx.now_ns >= t => {
                        self.main_wake = None;
                        self.main_pc += 1;
                        progressed = true;
                    }
                    Some(_) => break,
                },
            }
        }
        progressed |= self.main.pump(ctx.now_ns);
        progressed
    }
    fn finished(&self) -> bool {
        self.stop_sent
    }
    fn next_wakeup(&self) -> Option<u64> {
        self.peers.iter().filter_map(|p| p.next_wakeup()).chain(self.main_wake).min()
    }
    fn force_stop(&mut self, _ctx: &mut EnvCtx, why: &str) {
        // make sure the stop request really goes out even if one was sent before
        self.stop_sent = false;
        self.send_stop(why);
    }
    fn as_any(&mut self) -> &mut dyn std::any::Any {
        self
    }
}

/// Everything needed to start a worker.
pub struct WorkerSetup {
    pub config: ServerConfig,
    /// applied through the worker's initial state (bootstrap path)
    pub initial: ConfigState,
}

/// Build the channel / scm plumbing, then run `Server::run()` under the
/// simulation until it returns. `make_env` receives the main-side channel.
pub fn run_worker(
    setup: WorkerSetup,
    peers: Vec<Peer>,
    main_script: Vec<MainStep>,
    profile: ChoiceProfile,
    prefix: Vec<u32>,
    horizon_s: u64,
) -> (Execution, Option<String>) {
    let (scm_main, scm_worker) = UnixStream::pair().unwrap_or_else(|e| crate::common::machinery_error(&format!("scm pair: {e}")));
    let (cmd_main, cmd_worker): (Channel<WorkerRequest, WorkerResponse>, Channel<WorkerResponse, WorkerRequest>) =
        Channel::generate_nonblocking(setup.config.command_buffer_size, setup.config.max_command_buffer_size)
            .unwrap_or_else(|e| crate::common::machinery_error(&format!("channel: {e}")));
    let _ = (scm_main.as_raw_fd(), scm_worker.as_raw_fd());
    let scm_main = ScmSocket::new(scm_main.into_raw_fd()).unwrap();
    let scm_worker = ScmSocket::new(scm_worker.into_raw_fd()).unwrap();
    scm_main.send_listeners(&Listeners::default()).unwrap_or_else(|e| crate::common::machinery_error(&format!("send listeners: {e}")));
    let mut cmd_main = cmd_main;
    let _ = cmd_main.nonblocking();
    let env = Scenario {
        peers,
        main: MainChannel { channel: cmd_main, responses: vec![], closed: false },
        main_script,
        main_pc: 0,
        main_wake: None,
        stop_sent: false,
        stop_reason: None,
        scm_main,
    };
    let initial_state = setup.initial.produce_initial_state();
    let config = setup.config;
    let mut create_error = None;
    let create_error_ref = &mut create_error;
    let exec = super::execute(Box::new(env), profile, prefix, horizon_s, move || {
        match Server::try_new_from_config(cmd_worker, scm_worker, config, initial_state, false) {
            Ok(mut server) => server.run(),
            Err(e) => *create_error_ref = Some(format!("{e}")),
        }
    });
    (exec, create_error)
}

pub fn request(id: &str, r: RequestType) -> WorkerRequest {
    WorkerRequest { id: id.to_owned(), content: Request { request_type: Some(r) } }
}

/// Downcast helper for oracles.
pub fn scenario_of(exec: &mut Execution) -> &mut Scenario {
    exec.env.as_any().downcast_mut::<Scenario>().unwrap_or_else(|| crate::common::machinery_error("environment is not a Scenario"))
}

/// Run `f` on a fresh OS thread (fresh thread-locals for sozu: QUEUE, TIMER,
/// METRICS, logger, per-thread hash seeds) and return its plain-data result.
pub fn on_fresh_thread<R: Send + 'static>(f: impl FnOnce() -> R + Send + 'static) -> R {
    std::thread::Builder::new()
        .stack_size(16 << 20)
        .spawn(move || {
            crate::common::thread_init();
            f()
        })
        .unwrap_or_else(|e| crate::common::machinery_error(&format!("spawn: {e}")))
        .join()
        .unwrap_or_else(|_| crate::common::machinery_error("simulation thread panicked in harness code"))
}

/// Run `f` in a forked child of this (single-threaded) process and bring its
/// result back through a pipe. Gives every execution pristine thread-locals,
/// file descriptors and heap: nothing a subject leaks (sozu's `Rc` cycles
/// keep listener sockets open, and with SO_REUSEPORT a leaked listener would
/// steal connections from the next execution) survives the execution.
/// `Err` carries the wait status when the child did not exit cleanly.
pub fn isolated<R: serde::Serialize + serde::de::DeserializeOwned + Send>(f: impl FnOnce() -> R + Send) -> Result<R, String> {
    use std::io::Read;
    let mut fds = [0 as libc::c_int; 2];
    if unsafe { libc::pipe(fds.as_mut_ptr()) } != 0 {
        crate::common::machinery_error("pipe() failed");
    }
    let _ = std::io::Write::flush(&mut std::io::stdout());
    let pid = unsafe { libc::fork() };
    if pid < 0 {
        crate::common::machinery_error("fork() failed");
    }
    if pid == 0 {
        // child (it goes with its parent: see the shard start-up in main.rs)
        unsafe { libc::prctl(libc::PR_SET_PDEATHSIG, libc::SIGKILL) };
        unsafe { libc::close(fds[0]) };
        // a subject that spins without making a system call never comes back to the simulation:
        // one execution gets 30 s of CPU time (they take milliseconds), then SIGXCPU ends it
        let cpu = libc::rlimit { rlim_cur: 30, rlim_max: 40 };
        unsafe { libc::setrlimit(libc::RLIMIT_CPU, &cpu) };
        // run on a brand-new thread: the forking thread's thread-locals (in
        // particular std's per-thread hash seed, drawn from the real kernel)
        // must not leak into the subject; the new thread draws its seed under
        // the simulation's deterministic getrandom
        let r = std::thread::scope(|s| {
            std::thread::Builder::new()
                .stack_size(16 << 20)
                .spawn_scoped(s, || {
                    crate::interpose::deterministic_entropy(0x5eed_5eed_5eed_5eed);
                    crate::common::thread_init();
                    f()
                })
                .unwrap_or_else(|_| unsafe { libc::_exit(3) })
                .join()
                .unwrap_or_else(|_| unsafe { libc::_exit(3) })
        });
        let bytes = serde_json::to_vec(&r).unwrap_or_default();
        let mut off = 0;
        while off < bytes.len() {
            let n = unsafe { libc::write(fds[1], bytes[off..].as_ptr() as *const libc::c_void, bytes.len() - off) };
            if n <= 0 {
                break;
            }
            off += n as usize;
        }
        unsafe { libc::_exit(0) };
    }
    unsafe { libc::close(fds[1]) };
    let mut file: std::fs::File = unsafe { std::os::fd::FromRawFd::from_raw_fd(fds[0]) };
    let mut buf = vec![];
    let _ = file.read_to_end(&mut buf);
    let mut status: libc::c_int = 0;
    unsafe { libc::waitpid(pid, &mut status, 0) };
    if libc::WIFEXITED(status) && libc::WEXITSTATUS(status) == 0 {
        serde_json::from_slice(&buf).map_err(|e| format!("unreadable result from the execution process: {e}"))
    } else if libc::WIFEXITED(status) {
        Err(format!("exit:{}", libc::WEXITSTATUS(status)))
    } else {
        Err(format!("signal:{}", libc::WTERMSIG(status)))
    }
}
