//! Engine SIM: a simulated kernel front under an unmodified sozu event loop.
//!
//! The subject (`Server::run()` or `CommandHub::run()`) runs on the calling
//! thread; its `epoll_wait` is the scheduler: the environment (scripted
//! peers) takes a turn, real readiness is collected from the real kernel,
//! owed edges are added, and virtual time advances only when nothing else can
//! happen. Every read/write of the subject is a potential choice point
//! (pass / short / would-block); see DESIGN.md §3.

pub mod explore;
pub mod h1;
pub mod h2;
pub mod hub;
pub mod peer;
pub mod scen;
pub mod worker;

use std::{
    collections::{BTreeMap, HashMap},
    ffi::c_int,
};

use crate::interpose::{self, ClockMode, IoDecision, SimHooks, VIRTUAL_EPOCH_NS};

// ------------------------------------------------------------------ choices

#[derive(Clone, Debug, PartialEq, Eq, serde::Serialize, serde::Deserialize)]
pub struct Point {
    pub kind: String,
    pub alternatives: u32,
    pub chosen: u32,
}

/// Replays a prefix of choices, then answers 0 (the default) everywhere and
/// records every point it was asked about.
pub struct Chooser {
    prefix: Vec<u32>,
    pub trace: Vec<Point>,
    pub diverged: Option<String>,
}

impl Chooser {
    pub fn new(prefix: Vec<u32>) -> Chooser {
        Chooser { prefix, trace: vec![], diverged: None }
    }
    pub fn choose(&mut self, kind: &str, alternatives: u32) -> u32 {
        if alternatives <= 1 {
            return 0;
        }
        let i = self.trace.len();
        let c = if i < self.prefix.len() {
            let c = self.prefix[i];
            if c >= alternatives && self.diverged.is_none() {
                self.diverged = Some(format!("point {i} ({kind}) has {alternatives} alternatives, prefix asks for {c}"));
            }
            c.min(alternatives - 1)
        } else {
            0
        };
        self.trace.push(Point { kind: kind.to_owned(), alternatives, chosen: c });
        c
    }
    pub fn deviations(&self) -> usize {
        self.trace.iter().filter(|p| p.chosen != 0).count()
    }
}

/// Which subject syscalls are choice points in a scenario.
#[derive(Clone, Debug, Default)]
pub struct ChoiceProfile {
    /// classes of fds whose reads may be shortened / refused
    pub read_faults: Vec<FdClass>,
    pub write_faults: Vec<FdClass>,
    /// only the first N eligible syscalls per class are choice points
    pub max_points_per_class: u32,
    /// deliver pending events in reverse order as an alternative
    pub event_order: bool,
    /// a slow peer: writes of the subject on fds of this class move at most this
    /// many bytes per event-loop turn (the rest would block until the next turn).
    /// Not a choice point: a fixed trait of the scenario's environment.
    pub pace_write: Option<(FdClass, usize)>,
}

#[derive(Clone, Copy, Debug, PartialEq, Eq, Hash, PartialOrd, Ord)]
pub enum FdClass {
    /// accepted from a listener (client side of the proxy)
    Front,
    /// connected by the subject (backend side)
    Back,
    /// unix sockets (command channel)
    Channel,
    Listener,
    Other,
}

// ------------------------------------------------------------------ environment

pub struct EnvCtx<'a> {
    pub chooser: &'a mut Chooser,
    pub now_ns: u64,
    pub log: &'a mut Vec<String>,
}

pub trait Environment {
    /// every actor moves as far as it can without blocking; true if anything
    /// observable happened
    fn turn(&mut self, ctx: &mut EnvCtx) -> bool;
    /// the scenario reached its goal (or gave up) and asked the subject to stop
    fn finished(&self) -> bool;
    /// earliest virtual instant at which an actor wants to act again
    fn next_wakeup(&self) -> Option<u64>;
    /// called once when the horizon is hit or nothing can ever happen again:
    /// must make the subject stop (e.g. send HardStop)
    fn force_stop(&mut self, ctx: &mut EnvCtx, why: &str);
    /// a subject-side fd is being classified: local address of a listener it
    /// accepted from, or peer address it connected to
    fn as_any(&mut self) -> &mut dyn std::any::Any;
}

#[derive(Clone, Debug, Default, serde::Serialize)]
pub struct SimStats {
    pub turns: u64,
    pub subject_reads: u64,
    pub subject_writes: u64,
    pub injected_short: u64,
    pub injected_eagain: u64,
    pub virtual_ms: u64,
    pub idle_advances: u64,
    pub max_syscalls_between_waits: u64,
}

#[derive(Clone, Debug, PartialEq, Eq)]
pub enum End {
    Running,
    /// the environment finished and the subject returned
    Finished,
    /// virtual-time / turn horizon reached
    Horizon,
    /// nothing can happen, subject waits forever
    Deadlock,
    /// too many subject syscalls without ever waiting
    Livelock,
}

struct FdInfo {
    token: u64,
    #[allow(dead_code)]
    interest: u32,
    class: FdClass,
}

pub struct Sim {
    pub chooser: Chooser,
    pub profile: ChoiceProfile,
    pub env: Box<dyn Environment>,
    pub stats: SimStats,
    pub end: End,
    pub log: Vec<String>,
    clock_ns: u64,
    horizon_ns: u64,
    max_turns: u64,
    fds: HashMap<c_int, FdInfo>,
    classes: HashMap<c_int, FdClass>,
    owed: BTreeMap<c_int, u32>,
    /// debugging aid (VERIF_SIM_TRACE): subject writes and delivered event batches go to the log
    trace_io: bool,
    points_used: HashMap<(FdClass, bool), u32>,
    syscalls_since_wait: u64,
    paced_this_turn: usize,
    rng: u64,
    stop_forced: bool,
    pending_events: Vec<libc::epoll_event>,
}

impl Sim {
    pub fn new(env: Box<dyn Environment>, profile: ChoiceProfile, prefix: Vec<u32>, horizon_s: u64) -> Sim {
        Sim {
            chooser: Chooser::new(prefix),
            profile,
            env,
            stats: SimStats::default(),
            end: End::Running,
            log: vec![],
            clock_ns: VIRTUAL_EPOCH_NS,
            horizon_ns: VIRTUAL_EPOCH_NS + horizon_s * 1_000_000_000,
            max_turns: 20_000,
            fds: HashMap::new(),
            classes: HashMap::new(),
            owed: BTreeMap::new(),
            trace_io: std::env::var_os("VERIF_SIM_TRACE").is_some(),
            points_used: HashMap::new(),
            syscalls_since_wait: 0,
            paced_this_turn: 0,
            rng: 0x9e37_79b9_7f4a_7c15,
            stop_forced: false,
            pending_events: vec![],
        }
    }

    pub fn now_ns(&self) -> u64 {
        self.clock_ns
    }
    pub fn elapsed_ms(&self) -> u64 {
        (self.clock_ns - VIRTUAL_EPOCH_NS) / 1_000_000
    }

    fn set_clock(&mut self, ns: u64) {
        self.clock_ns = ns;
        interpose::set_clock(ClockMode::Virtual(ns));
        self.stats.virtual_ms = self.elapsed_ms();
    }

    fn class_of(&self, fd: c_int) -> FdClass {
        if let Some(c) = self.classes.get(&fd) {
            return *c;
        }
        self.fds.get(&fd).map(|f| f.class).unwrap_or(FdClass::Other)
    }

    fn classify_new(fd: c_int) -> FdClass {
        // unix socket => command channel; anything else unknown until accept/connect tells
        let mut storage: libc::sockaddr_storage = unsafe { std::mem::zeroed() };
        let mut len = std::mem::size_of::<libc::sockaddr_storage>() as libc::socklen_t;
        let r = unsafe { libc::getsockname(fd, &mut storage as *mut _ as *mut libc::sockaddr, &mut len) };
        if r == 0 && storage.ss_family as i32 == libc::AF_UNIX {
            FdClass::Channel
        } else {
            FdClass::Other
        }
    }

    fn env_turn(&mut self) -> bool {
        let mut ctx = EnvCtx { chooser: &mut self.chooser, now_ns: self.clock_ns, log: &mut self.log };
        self.env.turn(&mut ctx)
    }

    fn force_stop(&mut self, why: &str) {
        if self.stop_forced {
            // the subject did not stop when asked: nothing more we can do
            let msg = format!("MACHINERY-ERROR: subject does not stop ({why})\n");
            unsafe { libc::write(2, msg.as_ptr() as *const libc::c_void, msg.len()) };
            unsafe { libc::_exit(3) };
        }
        self.stop_forced = true;
        let mut ctx = EnvCtx { chooser: &mut self.chooser, now_ns: self.clock_ns, log: &mut self.log };
        self.env.force_stop(&mut ctx, why);
    }

    fn fault_alternatives(&mut self, class: FdClass, write: bool, len: usize) -> Vec<IoChoice> {
        let list = if write { &self.profile.write_faults } else { &self.profile.read_faults };
        if !list.contains(&class) || len == 0 {
            return vec![];
        }
        let used = self.points_used.entry((class, write)).or_insert(0);
        if *used >= self.profile.max_points_per_class {
            return vec![];
        }
        *used += 1;
        let mut v = vec![IoChoice::Short(1)];
        if len > 2 {
            v.push(IoChoice::Short(len / 2));
        }
        if write && len > 10 {
            v.push(IoChoice::Short(9));
            v.push(IoChoice::Short(len - 1));
        }
        v.push(IoChoice::Eagain);
        v
    }
}

fn peer_closed(fd: c_int) -> bool {
    let mut p = libc::pollfd { fd, events: libc::POLLRDHUP, revents: 0 };
    let r = unsafe { libc::poll(&mut p, 1, 0) };
    r > 0 && p.revents & (libc::POLLRDHUP | libc::POLLHUP | libc::POLLERR) != 0
}

#[derive(Clone, Copy, Debug)]
enum IoChoice {
    Short(usize),
    Eagain,
}

impl SimHooks for Sim {
    fn epoll_wait(&mut self, epfd: c_int, events: *mut libc::epoll_event, max: c_int, timeout_ms: c_int) -> c_int {
        self.stats.turns += 1;
        self.paced_this_turn = 0;
        // time passes while the subject runs: without this a loop that waits
        // for `deadline < now` with a zero timeout would spin forever at the
        // exact virtual instant of the deadline
        let t = self.clock_ns + 20_000;
        self.set_clock(t);
        self.stats.max_syscalls_between_waits = self.stats.max_syscalls_between_waits.max(self.syscalls_since_wait);
        self.syscalls_since_wait = 0;
        let max = max.max(1) as usize;
        let out = unsafe { std::slice::from_raw_parts_mut(events, max) };
        let mut settled = false;
        let mut spins = 0;
        loop {
            spins += 1;
            if self.stats.turns > self.max_turns || self.clock_ns > self.horizon_ns || spins > 10_000 {
                if self.end == End::Running {
                    self.end = End::Horizon;
                }
                self.force_stop("horizon");
            }
            let progressed = self.env_turn();
            // real readiness (edge-triggered, truthful)
            let mut buf: Vec<libc::epoll_event> = vec![libc::epoll_event { events: 0, u64: 0 }; max];
            let mut n = unsafe { interpose::sys::epoll_wait(epfd, buf.as_mut_ptr(), max as c_int, 0) }.max(0) as usize;
            let mut ready: Vec<libc::epoll_event> = std::mem::take(&mut self.pending_events);
            // Everything the peers just wrote must be visible before the batch is handed over:
            // loopback delivery runs in softirq context, normally inside the writer's own
            // syscall, but on a saturated machine the kernel may defer it to ksoftirqd. A batch
            // sampled in between would miss an event that the same schedule shows on a quiet
            // machine. Sample again after yielding the CPU until a sample adds nothing (edges are
            // consumed by each sample, so the samples are merged).
            let mut rounds = 0;
            loop {
                for e in &buf[..n] {
                    let (token, ev) = (e.u64, e.events);
                    if let Some(x) = ready.iter_mut().find(|x| x.u64 == token) {
                        x.events |= ev;
                    } else {
                        ready.push(libc::epoll_event { events: ev, u64: token });
                    }
                }
                rounds += 1;
                if (n == 0 && rounds > 1) || rounds > 4 || (n == 0 && !progressed) {
                    break;
                }
                unsafe { libc::sched_yield() };
                n = unsafe { interpose::sys::epoll_wait(epfd, buf.as_mut_ptr(), max as c_int, 0) }.max(0) as usize;
            }
            // owed edges (after an injected short transfer / EAGAIN)
            let owed = std::mem::take(&mut self.owed);
            for (fd, ev) in owed {
                if let Some(info) = self.fds.get(&fd) {
                    let token = info.token;
                    if let Some(x) = ready.iter_mut().find(|x| x.u64 == token) {
                        x.events |= ev;
                    } else {
                        ready.push(libc::epoll_event { events: ev, u64: token });
                    }
                }
            }
            if !ready.is_empty() {
                // the kernel lists descriptors in the order they became ready, which is real timing:
                // the batch is handed over in a canonical order (the subject's own tokens), other
                // orders are the `event-order` choice's business
                ready.sort_by_key(|e| e.u64);
                if self.profile.event_order && ready.len() > 1 {
                    match self.chooser.choose("event-order", 3) {
                        1 => ready.reverse(),
                        2 => {
                            // only the first now, the rest at the next wait
                            self.pending_events = ready.split_off(1);
                        }
                        _ => {}
                    }
                }
                let k = ready.len().min(max);
                if ready.len() > k {
                    self.pending_events.extend_from_slice(&ready[k..]);
                }
                out[..k].copy_from_slice(&ready[..k]);
                if self.trace_io {
                    self.log.push(format!("t={} epoll_wait -> {:?}", self.clock_ns - crate::interpose::VIRTUAL_EPOCH_NS, ready[..k].iter().map(|e| (e.u64, e.events)).collect::<Vec<_>>()));
                }
                return k as c_int;
            }
            if progressed {
                settled = false;
                continue;
            }
            if self.env.finished() && timeout_ms != 0 && self.stop_forced {
                // stop was requested, the subject has nothing left: let its timer run
            }
            if !settled {
                // give the real kernel a moment before concluding that nothing is in flight
                let ts = libc::timespec { tv_sec: 0, tv_nsec: 150_000 };
                unsafe { libc::nanosleep(&ts, std::ptr::null_mut()) };
                settled = true;
                continue;
            }
            if timeout_ms == 0 {
                return 0;
            }
            // quiescent: advance virtual time to the next thing that can happen
            let wake = self.env.next_wakeup().filter(|w| *w > self.clock_ns);
            let deadline = if timeout_ms < 0 { None } else { Some(self.clock_ns + timeout_ms as u64 * 1_000_000) };
            match (wake, deadline) {
                (None, None) => {
                    if self.end == End::Running {
                        self.end = End::Deadlock;
                    }
                    self.force_stop("deadlock");
                    settled = false;
                    continue;
                }
                (Some(w), Some(d)) if w < d => {
                    self.set_clock(w);
                    settled = false;
                    continue;
                }
                (Some(w), None) => {
                    self.set_clock(w);
                    settled = false;
                    continue;
                }
                (_, Some(d)) => {
                    self.stats.idle_advances += 1;
                    self.set_clock(d);
                    return 0;
                }
            }
        }
    }

    fn epoll_ctl(&mut self, _epfd: c_int, op: c_int, fd: c_int, event: *mut libc::epoll_event, result: c_int) {
        if result != 0 {
            return;
        }
        match op {
            libc::EPOLL_CTL_ADD | libc::EPOLL_CTL_MOD => {
                let (token, interest) = if event.is_null() { (0, 0) } else { unsafe { ((*event).u64, (*event).events) } };
                let class = self.classes.get(&fd).copied().unwrap_or_else(|| Self::classify_new(fd));
                self.fds.insert(fd, FdInfo { token, interest, class });
            }
            libc::EPOLL_CTL_DEL => {
                self.fds.remove(&fd);
                self.owed.remove(&fd);
            }
            _ => {}
        }
    }

    fn on_read(&mut self, fd: c_int, len: usize) -> IoDecision {
        self.syscalls_since_wait += 1;
        self.stats.subject_reads += 1;
        if self.syscalls_since_wait > 200_000 {
            self.end = End::Livelock;
            let msg = b"SIM: subject livelock (200000 syscalls without waiting)\n";
            unsafe { libc::write(2, msg.as_ptr() as *const libc::c_void, msg.len()) };
            unsafe { libc::_exit(42) };
        }
        let class = self.class_of(fd);
        // Soundness: a short / refused read stands for "the rest arrives
        // later". That story is only consistent while the peer has not closed:
        // once FIN / RST is queued a real kernel never answers EAGAIN and never
        // reports the hang-up before the data, so no fault is injected then.
        if peer_closed(fd) {
            return IoDecision::Pass(len);
        }
        let alts = self.fault_alternatives(class, false, len);
        if alts.is_empty() {
            return IoDecision::Pass(len);
        }
        let c = self.chooser.choose(&format!("read:{class:?}"), alts.len() as u32 + 1);
        if c == 0 {
            return IoDecision::Pass(len);
        }
        match alts[c as usize - 1] {
            IoChoice::Short(n) => {
                self.stats.injected_short += 1;
                IoDecision::Pass(n.max(1).min(len))
            }
            IoChoice::Eagain => {
                self.stats.injected_eagain += 1;
                IoDecision::WouldBlock
            }
        }
    }

    fn after_read(&mut self, fd: c_int, requested: usize, allowed: usize, result: isize) {
        // a transfer cut short by us (or refused) means "the rest arrives
        // later": a fresh readable edge is owed
        if allowed < requested && (result < 0 || result as usize == allowed) {
            *self.owed.entry(fd).or_insert(0) |= libc::EPOLLIN as u32;
        }
    }

    fn on_write(&mut self, fd: c_int, len: usize) -> IoDecision {
        self.syscalls_since_wait += 1;
        self.stats.subject_writes += 1;
        let class = self.class_of(fd);
        if self.trace_io {
            self.log.push(format!("t={} write fd={fd} {class:?} len={len} paced={}", self.clock_ns - crate::interpose::VIRTUAL_EPOCH_NS, self.paced_this_turn));
        }
        if let Some((c, per_turn)) = self.profile.pace_write {
            if c == class {
                let left = per_turn.saturating_sub(self.paced_this_turn);
                if left == 0 {
                    return IoDecision::WouldBlock;
                }
                let n = left.min(len);
                self.paced_this_turn += n;
                return IoDecision::Pass(n);
            }
        }
        let alts = self.fault_alternatives(class, true, len);
        if alts.is_empty() {
            return IoDecision::Pass(len);
        }
        let c = self.chooser.choose(&format!("write:{class:?}"), alts.len() as u32 + 1);
        if c == 0 {
            return IoDecision::Pass(len);
        }
        match alts[c as usize - 1] {
            IoChoice::Short(n) => {
                self.stats.injected_short += 1;
                IoDecision::Pass(n.max(1).min(len))
            }
            IoChoice::Eagain => {
                self.stats.injected_eagain += 1;
                IoDecision::WouldBlock
            }
        }
    }

    fn after_write(&mut self, fd: c_int, requested: usize, allowed: usize, _result: isize) {
        if allowed < requested {
            *self.owed.entry(fd).or_insert(0) |= libc::EPOLLOUT as u32;
        }
    }

    fn on_close(&mut self, fd: c_int) {
        self.fds.remove(&fd);
        self.classes.remove(&fd);
        self.owed.remove(&fd);
    }

    fn on_accept(&mut self, _listener: c_int, result: c_int) {
        if result >= 0 {
            self.classes.insert(result, FdClass::Front);
        }
    }

    fn on_connect(&mut self, fd: c_int, _result: c_int) {
        // unix connects (metrics, logs) keep their class; inet connects are backends
        if Self::classify_new(fd) != FdClass::Channel {
            self.classes.insert(fd, FdClass::Back);
            if let Some(i) = self.fds.get_mut(&fd) {
                i.class = FdClass::Back;
            }
        }
    }

    fn on_kill(&mut self, pid: libc::pid_t, sig: c_int) -> c_int {
        self.log.push(format!("kill({pid}, {sig}) swallowed"));
        0
    }

    fn random(&mut self, buf: &mut [u8]) {
        for b in buf.iter_mut() {
            // xorshift64*
            self.rng ^= self.rng >> 12;
            self.rng ^= self.rng << 25;
            self.rng ^= self.rng >> 27;
            *b = (self.rng.wrapping_mul(0x2545_F491_4F6C_DD1D) >> 56) as u8;
        }
    }
}

/// Result of one execution.
pub struct Execution {
    pub end: End,
    pub trace: Vec<Point>,
    pub diverged: Option<String>,
    pub stats: SimStats,
    pub log: Vec<String>,
    pub env: Box<dyn Environment>,
    pub subject_panic: Option<String>,
}

/// Run `subject` under a fresh simulation on the current thread.
pub fn execute(
    env: Box<dyn Environment>,
    profile: ChoiceProfile,
    prefix: Vec<u32>,
    horizon_s: u64,
    subject: impl FnOnce(),
) -> Execution {
    let sim = Sim::new(env, profile, prefix, horizon_s);
    interpose::set_clock(ClockMode::Virtual(VIRTUAL_EPOCH_NS));
    interpose::install_hooks(Box::new(sim));
    // first use of the per-thread hash seed happens here, under the
    // deterministic getrandom
    let _ = std::collections::hash_map::RandomState::new();
    let r = std::panic::catch_unwind(std::panic::AssertUnwindSafe(subject));
    let hooks = interpose::remove_hooks();
    interpose::set_clock(ClockMode::Real);
    let subject_panic = r.err().map(|e| {
        if let Some(s) = e.downcast_ref::<&str>() {
            (*s).to_owned()
        } else if let Some(s) = e.downcast_ref::<String>() {
            s.clone()
        } else {
            "panic".to_owned()
        }
    });
    // recover the concrete Sim
    let raw: Box<dyn SimHooks> = hooks.expect("hooks vanished");
    let sim: Box<Sim> = unsafe { Box::from_raw(Box::into_raw(raw) as *mut Sim) };
    let mut sim = *sim;
    // the subject may have answered on its way out: let the environment read it
    interpose::in_env(|| {
        for _ in 0..3 {
            let mut ctx = EnvCtx { chooser: &mut sim.chooser, now_ns: sim.clock_ns, log: &mut sim.log };
            if !sim.env.turn(&mut ctx) {
                break;
            }
        }
    });
    let end = if sim.end == End::Running { End::Finished } else { sim.end.clone() };
    Execution {
        end,
        trace: sim.chooser.trace,
        diverged: sim.chooser.diverged,
        stats: sim.stats,
        log: sim.log,
        env: sim.env,
        subject_panic,
    }
}
