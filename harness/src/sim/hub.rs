//! Runs an unmodified `sozu::command::server::CommandHub::run()` (the main
//! process) under the simulation, with scripted fake workers and clients.

use std::os::fd::IntoRawFd;

use mio::net::{UnixListener, UnixStream};
use sozu::command::server::CommandHub;
use sozu_command_lib::{
    channel::Channel,
    config::{ConfigBuilder, FileConfig},
    proto::command::{
        HardStop, Request, Response, ResponseStatus, WorkerRequest, WorkerResponse,
        request::RequestType,
    },
    ready::Ready,
    scm_socket::ScmSocket,
};

use super::{ChoiceProfile, EnvCtx, Environment, Execution};

#[derive(Clone, Copy, Debug, PartialEq, Eq, serde::Serialize, serde::Deserialize)]
pub enum Behaviour {
    Ok,
    Failure,
    Silent,
    /// close the channel instead of answering
    Close,
    DuplicateOk,
    /// answer OK one second after the worker timeout
    OkLate,
    ProcessingThenOk,
    ProcessingOnly,
    /// answer OK and close the channel at once (what a worker does when it exits after a stop)
    OkThenClose,
}

impl Behaviour {
    pub const ALL: [Behaviour; 9] = [Behaviour::Ok, Behaviour::Failure, Behaviour::Silent, Behaviour::Close, Behaviour::DuplicateOk, Behaviour::OkLate, Behaviour::ProcessingThenOk, Behaviour::ProcessingOnly, Behaviour::OkThenClose];
    /// did the worker acknowledge the request successfully and in time?
    pub fn acknowledges(self) -> bool {
        matches!(self, Behaviour::Ok | Behaviour::DuplicateOk | Behaviour::ProcessingThenOk | Behaviour::OkThenClose)
    }
}

pub struct FakeWorker {
    pub id: u32,
    pub channel: Option<Channel<WorkerResponse, WorkerRequest>>,
    /// behaviour for the k-th request under test (control requests are always answered OK)
    pub behaviours: Vec<Behaviour>,
    pub seen: Vec<(u64, WorkerRequest)>,
    delayed: Vec<(u64, WorkerResponse)>,
    tested: usize,
    pub worker_timeout_s: u64,
}

impl FakeWorker {
    fn pump(&mut self, now: u64) -> bool {
        let mut progressed = false;
        // delayed answers
        let due: Vec<WorkerResponse> = {
            let (d, keep): (Vec<_>, Vec<_>) = std::mem::take(&mut self.delayed).into_iter().partition(|(t, _)| *t <= now);
            self.delayed = keep;
            d.into_iter().map(|(_, r)| r).collect()
        };
        for r in due {
            self.send(&r);
            progressed = true;
        }
        let Some(ch) = self.channel.as_mut() else { return progressed };
        ch.handle_events(Ready::READABLE | Ready::WRITABLE);
        ch.interest.insert(Ready::READABLE);
        let _ = ch.readable();
        let mut incoming = vec![];
        while let Ok(m) = ch.read_message() {
            incoming.push(m);
        }
        for req in incoming {
            progressed = true;
            self.seen.push((now, req.clone()));
            let control = req.id.contains("SIMCTL") || matches!(req.content.request_type, Some(RequestType::HardStop(_))) && self.tested >= self.behaviours.len();
            let b = if control { Behaviour::Ok } else { self.behaviours.get(self.tested).copied().unwrap_or(Behaviour::Ok) };
            if !control {
                self.tested += 1;
            }
            let id = req.id.clone();
            match b {
                Behaviour::Ok => self.send(&WorkerResponse::ok(id)),
                Behaviour::Failure => self.send(&WorkerResponse::error(id, "injected failure")),
                Behaviour::Silent => {}
                Behaviour::Close => {
                    self.channel = None;
                    return true;
                }
                Behaviour::DuplicateOk => {
                    self.send(&WorkerResponse::ok(id.clone()));
                    self.send(&WorkerResponse::ok(id));
                }
                Behaviour::OkLate => self.delayed.push((now + (self.worker_timeout_s + 1) * 1_000_000_000, WorkerResponse::ok(id))),
                Behaviour::ProcessingThenOk => {
                    self.send(&WorkerResponse::processing(id.clone()));
                    self.send(&WorkerResponse::ok(id));
                }
                Behaviour::ProcessingOnly => self.send(&WorkerResponse::processing(id)),
                Behaviour::OkThenClose => {
                    self.send(&WorkerResponse::ok(id));
                    self.channel = None;
                    return true;
                }
            }
        }
        if let Some(ch) = self.channel.as_mut() {
            if ch.back_buf.available_data() > 0 {
                ch.interest.insert(Ready::WRITABLE);
                ch.handle_events(Ready::WRITABLE);
                let _ = ch.writable();
            }
        }
        progressed
    }
    fn send(&mut self, r: &WorkerResponse) {
        if let Some(ch) = self.channel.as_mut() {
            let _ = ch.write_message(r);
            ch.handle_events(Ready::WRITABLE);
            ch.interest.insert(Ready::WRITABLE);
            let _ = ch.writable();
        }
    }
    fn next_wakeup(&self) -> Option<u64> {
        self.delayed.iter().map(|(t, _)| *t).min()
    }
}

pub struct HubClient {
    pub channel: Option<Channel<Request, Response>>,
    pub requests: Vec<Request>,
    pub sent: usize,
    /// (virtual ns, response)
    pub responses: Vec<(u64, Response)>,
    pub sent_at: Vec<u64>,
    pub path: String,
    pub closed: bool,
    /// send request k only after request k-1 got its final answer
    connect_failed: bool,
}

impl HubClient {
    pub fn new(path: &str, requests: Vec<Request>) -> HubClient {
        HubClient { channel: None, requests, sent: 0, responses: vec![], sent_at: vec![], path: path.to_owned(), closed: false, connect_failed: false }
    }
    pub fn finals(&self) -> usize {
        self.responses.iter().filter(|(_, r)| r.status != ResponseStatus::Processing as i32).count()
    }
    pub fn done(&self) -> bool {
        self.connect_failed || self.closed || (self.sent == self.requests.len() && self.finals() >= self.requests.len())
    }
    fn pump(&mut self, now: u64) -> bool {
        let mut progressed = false;
        if self.channel.is_none() && !self.connect_failed && !self.closed {
            match std::os::unix::net::UnixStream::connect(&self.path) {
                Ok(s) => {
                    s.set_nonblocking(true).ok();
                    let s = UnixStream::from_std(s);
                    self.channel = Some(Channel::new(s, 4096, 1_000_000));
                    progressed = true;
                }
                Err(_) => {
                    self.connect_failed = true;
                    return true;
                }
            }
        }
        let Some(ch) = self.channel.as_mut() else { return progressed };
        ch.handle_events(Ready::READABLE | Ready::WRITABLE);
        ch.interest.insert(Ready::READABLE);
        let _ = ch.readable();
        while let Ok(m) = ch.read_message() {
            self.responses.push((now, m));
            progressed = true;
        }
        if ch.readiness.is_hup() && !self.closed {
            self.closed = true;
            progressed = true;
        }
        // next request once the previous one is finally answered
        let finals = self.responses.iter().filter(|(_, r)| r.status != ResponseStatus::Processing as i32).count();
        if self.sent < self.requests.len() && finals >= self.sent && !self.closed {
            let _ = ch.write_message(&self.requests[self.sent]);
            self.sent += 1;
            self.sent_at.push(now);
            progressed = true;
        }
        if ch.back_buf.available_data() > 0 {
            ch.interest.insert(Ready::WRITABLE);
            let _ = ch.writable();
        }
        progressed
    }
}

pub struct HubScenario {
    pub workers: Vec<FakeWorker>,
    pub clients: Vec<HubClient>,
    pub control: HubClient,
    pub reverse_worker_order: bool,
    pub stop_sent: bool,
    pub stop_reason: Option<String>,
    keep: Vec<ScmSocket>,
}

impl Environment for HubScenario {
    fn turn(&mut self, ctx: &mut EnvCtx) -> bool {
        let mut progressed = false;
        let n = self.workers.len();
        for k in 0..n {
            let i = if self.reverse_worker_order { n - 1 - k } else { k };
            progressed |= self.workers[i].pump(ctx.now_ns);
        }
        for c in self.clients.iter_mut() {
            progressed |= c.pump(ctx.now_ns);
        }
        if !self.stop_sent && self.clients.iter().all(|c| c.done()) {
            self.stop_sent = true;
            self.stop_reason = Some("scenario complete".into());
            self.control.requests.push(RequestType::HardStop(HardStop {}).into());
            progressed = true;
        }
        if self.stop_sent {
            // once the scenario is over, every client hangs up so that the hub can exit
            for c in self.clients.iter_mut() {
                if c.channel.take().is_some() {
                    progressed = true;
                }
            }
            progressed |= self.control.pump(ctx.now_ns);
            if self.control.finals() >= 1 && self.control.channel.is_some() {
                self.control.channel = None;
                progressed = true;
            }
        }
        progressed
    }
    fn finished(&self) -> bool {
        self.stop_sent
    }
    fn next_wakeup(&self) -> Option<u64> {
        self.workers.iter().filter_map(|w| w.next_wakeup()).min()
    }
    fn force_stop(&mut self, ctx: &mut EnvCtx, why: &str) {
        if std::env::var("VERIF_DEBUG").is_ok() {
            eprintln!("force_stop({why}) at {} ms: stop_sent={} control: sent={} responses={:?} closed={} chan={}", (ctx.now_ns - crate::interpose::VIRTUAL_EPOCH_NS) / 1_000_000, self.stop_sent, self.control.sent, self.control.responses.iter().map(|(t, r)| ((t - crate::interpose::VIRTUAL_EPOCH_NS) / 1_000_000, r.status, r.message.clone())).collect::<Vec<_>>(), self.control.closed, self.control.channel.is_some());
            for c in &self.clients {
                eprintln!("  client: sent={} responses={:?} closed={}", c.sent, c.responses.iter().map(|(t, r)| ((t - crate::interpose::VIRTUAL_EPOCH_NS) / 1_000_000, r.status, r.message.clone())).collect::<Vec<_>>(), c.closed);
            }
            for w in &self.workers {
                eprintln!("  worker {}: seen={:?}", w.id, w.seen.iter().map(|(t, r)| ((t - crate::interpose::VIRTUAL_EPOCH_NS) / 1_000_000, r.id.clone())).collect::<Vec<_>>());
            }
        }
        self.stop_reason = Some(why.to_owned());
        if !self.stop_sent {
            self.stop_sent = true;
            self.control.requests.push(RequestType::HardStop(HardStop {}).into());
        }
        // unstick everything: workers answer nothing more, clients hang up
        for c in self.clients.iter_mut() {
            c.channel = None;
        }
    }
    fn as_any(&mut self) -> &mut dyn std::any::Any {
        self
    }
}

pub struct HubSetup {
    pub workers: Vec<Vec<Behaviour>>,
    pub clients: Vec<Vec<Request>>,
    pub reverse_worker_order: bool,
    pub worker_timeout_s: u32,
}

pub fn run_hub(setup: HubSetup, prefix: Vec<u32>, horizon_s: u64) -> (Execution, Option<String>) {
    // the hub takes timestamps while it is being built: they must already be virtual
    crate::interpose::set_clock(crate::interpose::ClockMode::Virtual(crate::interpose::VIRTUAL_EPOCH_NS));
    let dir = tempfile::Builder::new().prefix("sozu-verif-hub-").tempdir_in("/dev/shm").or_else(|_| tempfile::tempdir()).unwrap_or_else(|e| crate::common::machinery_error(&format!("tempdir: {e}")));
    let path = dir.path().join("sozu.sock").to_str().unwrap().to_owned();
    let mut file_config = FileConfig::default();
    file_config.command_socket = Some(path.clone());
    file_config.worker_automatic_restart = Some(false);
    file_config.worker_count = Some(0);
    file_config.worker_timeout = Some(setup.worker_timeout_s);
    file_config.log_level = Some("off".into());
    let config = ConfigBuilder::new(file_config, dir.path().join("config.toml").to_str().unwrap()).into_config().unwrap_or_else(|e| crate::common::machinery_error(&format!("hub config: {e}")));
    let listener = UnixListener::bind(&path).unwrap_or_else(|e| crate::common::machinery_error(&format!("bind {path}: {e}")));
    let mut hub = CommandHub::new(listener, config, "/nonexistent/sozu".into()).unwrap_or_else(|e| crate::common::machinery_error(&format!("hub: {e}")));
    let mut workers = vec![];
    let mut keep = vec![];
    for (i, behaviours) in setup.workers.iter().enumerate() {
        let (main_end, worker_end): (Channel<WorkerRequest, WorkerResponse>, Channel<WorkerResponse, WorkerRequest>) =
            Channel::generate_nonblocking(16384, 1_000_000).unwrap_or_else(|e| crate::common::machinery_error(&format!("channel: {e}")));
        let (scm_a, scm_b) = UnixStream::pair().unwrap();
        let scm_main = ScmSocket::new(scm_a.into_raw_fd()).unwrap();
        keep.push(ScmSocket::new(scm_b.into_raw_fd()).unwrap());
        // a pid that cannot exist: kill() is swallowed by the interposer anyway
        hub.register_worker(i as u32, 4_000_000 + i as i32, main_end, scm_main).unwrap_or_else(|e| crate::common::machinery_error(&format!("register worker: {e}")));
        workers.push(FakeWorker { id: i as u32, channel: Some(worker_end), behaviours: behaviours.clone(), seen: vec![], delayed: vec![], tested: 0, worker_timeout_s: setup.worker_timeout_s as u64 });
    }
    let env = HubScenario {
        workers,
        clients: setup.clients.into_iter().map(|r| HubClient::new(&path, r)).collect(),
        control: HubClient::new(&path, vec![]),
        reverse_worker_order: setup.reverse_worker_order,
        stop_sent: false,
        stop_reason: None,
        keep,
    };
    let exec = super::execute(Box::new(env), ChoiceProfile::default(), prefix, horizon_s, move || {
        let _ = hub.run();
        drop(dir);
    });
    (exec, None)
}

pub fn scenario_of(exec: &mut Execution) -> &mut HubScenario {
    exec.env.as_any().downcast_mut::<HubScenario>().unwrap_or_else(|| crate::common::machinery_error("environment is not a HubScenario"))
}
