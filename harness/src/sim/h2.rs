//! A small, independent HTTP/2 endpoint (RFC 9113) for the scripted peers:
//! frame codec, HPACK through loona-hpack, a ledger of everything received and
//! of the flow-control / settings obligations the other side has towards us.
//! Shares no code with sozu's mux.

use std::collections::BTreeMap;

pub const PREFACE: &[u8] = b"PRI * HTTP/2.0\r\n\r\nSM\r\n\r\n";

pub const DATA: u8 = 0;
pub const HEADERS: u8 = 1;
pub const PRIORITY: u8 = 2;
pub const RST_STREAM: u8 = 3;
pub const SETTINGS: u8 = 4;
pub const PUSH_PROMISE: u8 = 5;
pub const PING: u8 = 6;
pub const GOAWAY: u8 = 7;
pub const WINDOW_UPDATE: u8 = 8;
pub const CONTINUATION: u8 = 9;

pub const F_END_STREAM: u8 = 0x1;
pub const F_ACK: u8 = 0x1;
pub const F_END_HEADERS: u8 = 0x4;
pub const F_PADDED: u8 = 0x8;
pub const F_PRIORITY: u8 = 0x20;

pub const S_HEADER_TABLE_SIZE: u16 = 1;
pub const S_ENABLE_PUSH: u16 = 2;
pub const S_MAX_CONCURRENT_STREAMS: u16 = 3;
pub const S_INITIAL_WINDOW_SIZE: u16 = 4;
pub const S_MAX_FRAME_SIZE: u16 = 5;
pub const S_MAX_HEADER_LIST_SIZE: u16 = 6;

#[derive(Clone, Debug, PartialEq, Eq)]
pub struct RawFrame {
    pub ty: u8,
    pub flags: u8,
    pub stream: u32,
    pub payload: Vec<u8>,
}

pub fn frame(ty: u8, flags: u8, stream: u32, payload: &[u8]) -> Vec<u8> {
    let mut v = Vec::with_capacity(9 + payload.len());
    let l = payload.len() as u32;
    v.extend_from_slice(&[(l >> 16) as u8, (l >> 8) as u8, l as u8, ty, flags]);
    v.extend_from_slice(&(stream & 0x7fff_ffff).to_be_bytes());
    v.extend_from_slice(payload);
    v
}

/// split as many complete frames as possible off the front of `buf`
pub fn split_frames(buf: &[u8]) -> (Vec<RawFrame>, usize) {
    let mut out = vec![];
    let mut pos = 0;
    while buf.len() - pos >= 9 {
        let len = ((buf[pos] as usize) << 16) | ((buf[pos + 1] as usize) << 8) | buf[pos + 2] as usize;
        if buf.len() - pos - 9 < len {
            break;
        }
        let stream = u32::from_be_bytes([buf[pos + 5], buf[pos + 6], buf[pos + 7], buf[pos + 8]]) & 0x7fff_ffff;
        out.push(RawFrame { ty: buf[pos + 3], flags: buf[pos + 4], stream, payload: buf[pos + 9..pos + 9 + len].to_vec() });
        pos += 9 + len;
    }
    (out, pos)
}

pub fn settings(pairs: &[(u16, u32)]) -> Vec<u8> {
    let mut p = vec![];
    for (k, v) in pairs {
        p.extend_from_slice(&k.to_be_bytes());
        p.extend_from_slice(&v.to_be_bytes());
    }
    frame(SETTINGS, 0, 0, &p)
}
pub fn settings_ack() -> Vec<u8> {
    frame(SETTINGS, F_ACK, 0, &[])
}
pub fn window_update(stream: u32, inc: u32) -> Vec<u8> {
    frame(WINDOW_UPDATE, 0, stream, &inc.to_be_bytes())
}
pub fn rst_stream(stream: u32, code: u32) -> Vec<u8> {
    frame(RST_STREAM, 0, stream, &code.to_be_bytes())
}
pub fn ping(ack: bool, data: [u8; 8]) -> Vec<u8> {
    frame(PING, if ack { F_ACK } else { 0 }, 0, &data)
}
pub fn goaway(last: u32, code: u32) -> Vec<u8> {
    let mut p = last.to_be_bytes().to_vec();
    p.extend_from_slice(&code.to_be_bytes());
    frame(GOAWAY, 0, 0, &p)
}
pub fn data(stream: u32, bytes: &[u8], end_stream: bool) -> Vec<u8> {
    frame(DATA, if end_stream { F_END_STREAM } else { 0 }, stream, bytes)
}

/// What one side has received on a stream.
#[derive(Clone, Debug, Default, PartialEq, Eq)]
pub struct StreamRx {
    /// decoded header lists, in order (initial headers, then trailers)
    pub headers: Vec<Vec<(String, String)>>,
    pub body: Vec<u8>,
    pub end_stream: bool,
    pub rst: Option<u32>,
    /// DATA frame payload sizes (flow-controlled lengths, padding included)
    pub data_frames: Vec<usize>,
    /// virtual time of the last byte
    pub last_ns: Option<u64>,
}

impl StreamRx {
    pub fn header(&self, name: &str) -> Option<&str> {
        self.headers.first().and_then(|h| h.iter().find(|(n, _)| n == name).map(|(_, v)| v.as_str()))
    }
    pub fn status(&self) -> Option<u16> {
        self.header(":status").and_then(|s| s.parse().ok())
    }
    pub fn done(&self) -> bool {
        self.end_stream || self.rst.is_some()
    }
}

/// How the endpoint replenishes the windows it offers.
#[derive(Clone, Copy, Debug, PartialEq, Eq, serde::Serialize, serde::Deserialize)]
pub enum WindowPolicy {
    /// give back every byte as soon as it is received
    Eager,
    /// never send WINDOW_UPDATE on its own (the script does, or nobody does)
    Manual,
}

/// One HTTP/2 endpoint (client or server side) over an application byte stream.
pub struct Endpoint {
    pub is_client: bool,
    enc: loona_hpack::Encoder<'static>,
    dec: loona_hpack::Decoder<'static>,
    pub parsed: usize,
    preface_seen: bool,
    /// header block being assembled: (stream, end_stream flag, fragments)
    partial: Option<(u32, bool, Vec<u8>)>,
    pub streams: BTreeMap<u32, StreamRx>,
    pub frames: Vec<RawFrame>,
    /// our settings as announced, the peer's as received
    pub local_settings: BTreeMap<u16, u32>,
    pub peer_settings: BTreeMap<u16, u32>,
    pub peer_settings_frames: usize,
    pub our_settings_acked: bool,
    pub goaway: Option<(u32, u32)>,
    pub pings_received: usize,
    pub ping_acks: usize,
    pub policy: WindowPolicy,
    /// receive windows we granted and the peer may use (connection, per stream)
    pub conn_recv_window: i64,
    pub stream_recv_window: BTreeMap<u32, i64>,
    /// send windows the peer granted us
    pub conn_send_window: i64,
    pub stream_send_window: BTreeMap<u32, i64>,
    /// obligations the peer broke (flow control, frame size, concurrency, ordering)
    pub protocol_errors: Vec<String>,
    /// responder: streams whose DATA frames are preceded by an empty and a padding-only frame
    pub pad_streams: std::collections::BTreeSet<u32>,
    /// responder: last stream id named in the GOAWAY this endpoint sent
    pub goaway_sent: Option<u32>,
    /// DATA frames sent by `Step::H2Data` carry this much padding (flow-controlled, counted against the windows)
    pub pad_data: Option<u8>,
    pub auto_ack: bool,
    unreturned_conn: i64,
    unreturned_stream: BTreeMap<u32, i64>,
    /// after we shrank our initial window: stream-window overruns are not judged until the peer acked
    pub grace_until_settings_ack: bool,
}

impl Endpoint {
    pub fn new(is_client: bool, policy: WindowPolicy) -> Endpoint {
        Endpoint {
            is_client,
            enc: loona_hpack::Encoder::new(),
            dec: loona_hpack::Decoder::new(),
            parsed: 0,
            preface_seen: is_client, // a client expects no preface magic from the server
            partial: None,
            streams: BTreeMap::new(),
            frames: vec![],
            local_settings: BTreeMap::new(),
            peer_settings: BTreeMap::new(),
            peer_settings_frames: 0,
            our_settings_acked: false,
            goaway: None,
            pings_received: 0,
            ping_acks: 0,
            policy,
            conn_recv_window: 65535,
            stream_recv_window: BTreeMap::new(),
            conn_send_window: 65535,
            stream_send_window: BTreeMap::new(),
            protocol_errors: vec![],
            pad_streams: Default::default(),
            goaway_sent: None,
            pad_data: None,
            auto_ack: true,
            unreturned_conn: 0,
            unreturned_stream: BTreeMap::new(),
            grace_until_settings_ack: false,
        }
    }

    fn local(&self, id: u16, default: u32) -> u32 {
        self.local_settings.get(&id).copied().unwrap_or(default)
    }
    pub fn peer(&self, id: u16, default: u32) -> u32 {
        self.peer_settings.get(&id).copied().unwrap_or(default)
    }

    /// connection preface (client) / initial SETTINGS (both)
    pub fn hello(&mut self, pairs: &[(u16, u32)]) -> Vec<u8> {
        let mut v = vec![];
        if self.is_client {
            v.extend_from_slice(PREFACE);
        }
        for (k, val) in pairs {
            self.local_settings.insert(*k, *val);
        }
        v.extend_from_slice(&settings(pairs));
        v
    }

    pub fn encode_headers(&mut self, stream: u32, headers: &[(&str, &str)], end_stream: bool, continuation_at: Option<usize>) -> Vec<u8> {
        let block = self.enc.encode(headers.iter().map(|(n, v)| (n.as_bytes(), v.as_bytes())));
        let es = if end_stream { F_END_STREAM } else { 0 };
        match continuation_at.filter(|c| *c > 0 && *c < block.len()) {
            None => frame(HEADERS, es | F_END_HEADERS, stream, &block),
            Some(c) => {
                let mut v = frame(HEADERS, es, stream, &block[..c]);
                v.extend_from_slice(&frame(CONTINUATION, F_END_HEADERS, stream, &block[c..]));
                v
            }
        }
    }

    /// DATA frames for `bytes`, cut at `max` bytes each
    pub fn encode_data(&self, stream: u32, bytes: &[u8], end_stream: bool, max: usize) -> Vec<u8> {
        let mut v = vec![];
        if bytes.is_empty() {
            return data(stream, &[], end_stream);
        }
        let chunks: Vec<&[u8]> = bytes.chunks(max.max(1)).collect();
        for (i, c) in chunks.iter().enumerate() {
            v.extend_from_slice(&data(stream, c, end_stream && i + 1 == chunks.len()));
        }
        v
    }

    /// Consume newly received application bytes; returns the bytes to send back
    /// automatically (SETTINGS ack, PING ack, WINDOW_UPDATE under the eager policy).
    pub fn receive(&mut self, rx: &[u8], now: u64) -> Vec<u8> {
        let mut out = vec![];
        if !self.preface_seen {
            if rx.len() < self.parsed + PREFACE.len() {
                return out;
            }
            if &rx[self.parsed..self.parsed + PREFACE.len()] != PREFACE {
                self.protocol_errors.push("connection does not start with the client preface".into());
            }
            self.parsed += PREFACE.len();
            self.preface_seen = true;
        }
        let (frames, used) = split_frames(&rx[self.parsed..]);
        self.parsed += used;
        let max_frame = self.local(S_MAX_FRAME_SIZE, 16384) as usize;
        for f in frames {
            if f.payload.len() > max_frame {
                self.protocol_errors.push(format!("frame of {} bytes exceeds our SETTINGS_MAX_FRAME_SIZE {max_frame}", f.payload.len()));
            }
            if let Some((sid, _, _)) = &self.partial {
                if f.ty != CONTINUATION || f.stream != *sid {
                    self.protocol_errors.push(format!("frame type {} on stream {} inside the header block of stream {sid}", f.ty, f.stream));
                }
            }
            match f.ty {
                DATA => {
                    let n = f.payload.len() as i64;
                    let (body, bad_pad) = strip_padding(&f);
                    if bad_pad {
                        self.protocol_errors.push("DATA padding longer than the frame".into());
                    }
                    let init = self.local(S_INITIAL_WINDOW_SIZE, 65535) as i64;
                    let sw = self.stream_recv_window.entry(f.stream).or_insert(init);
                    *sw -= n;
                    self.conn_recv_window -= n;
                    if *sw < 0 && !self.grace_until_settings_ack {
                        self.protocol_errors.push(format!("stream {} received {} bytes beyond its flow-control window", f.stream, -*sw));
                    }
                    if self.conn_recv_window < 0 {
                        self.protocol_errors.push(format!("connection received {} bytes beyond its flow-control window", -self.conn_recv_window));
                    }
                    let st = self.streams.entry(f.stream).or_default();
                    if st.done() {
                        self.protocol_errors.push(format!("DATA on finished stream {}", f.stream));
                    }
                    if st.headers.is_empty() {
                        self.protocol_errors.push(format!("DATA before HEADERS on stream {}", f.stream));
                    }
                    st.body.extend_from_slice(body);
                    st.data_frames.push(f.payload.len());
                    st.last_ns = Some(now);
                    if f.flags & F_END_STREAM != 0 {
                        st.end_stream = true;
                    }
                    if self.policy == WindowPolicy::Eager && n > 0 {
                        // like real clients: credit is returned once half a window was used
                        // (a WINDOW_UPDATE per DATA frame would look like a flood to the peer)
                        self.unreturned_conn += n;
                        if self.unreturned_conn >= 32767 {
                            out.extend_from_slice(&window_update(0, self.unreturned_conn as u32));
                            self.conn_recv_window += self.unreturned_conn;
                            self.unreturned_conn = 0;
                        }
                        if f.flags & F_END_STREAM == 0 {
                            let u = self.unreturned_stream.entry(f.stream).or_insert(0);
                            *u += n;
                            if *u >= (init / 2).max(1) {
                                out.extend_from_slice(&window_update(f.stream, *u as u32));
                                *self.stream_recv_window.get_mut(&f.stream).unwrap() += *u;
                                *u = 0;
                            }
                        }
                    }
                }
                HEADERS => {
                    let (mut frag, _) = strip_padding(&f);
                    if f.flags & F_PRIORITY != 0 && frag.len() >= 5 {
                        frag = &frag[5..];
                    }
                    if !self.is_client {
                        // concurrency obligation of a client towards a server
                        let open = self.streams.values().filter(|s| !s.done()).count() as u32;
                        let cap = self.local(S_MAX_CONCURRENT_STREAMS, u32::MAX);
                        if !self.streams.contains_key(&f.stream) && open >= cap {
                            self.protocol_errors.push(format!("stream {} opened with {open} streams open and SETTINGS_MAX_CONCURRENT_STREAMS {cap}", f.stream));
                        }
                    }
                    self.partial = Some((f.stream, f.flags & F_END_STREAM != 0, frag.to_vec()));
                    if f.flags & F_END_HEADERS != 0 {
                        self.finish_block(now);
                    }
                }
                CONTINUATION => {
                    match self.partial.as_mut() {
                        Some((sid, _, buf)) if *sid == f.stream => buf.extend_from_slice(&f.payload),
                        _ => self.protocol_errors.push(format!("CONTINUATION on stream {} without an open header block", f.stream)),
                    }
                    if f.flags & F_END_HEADERS != 0 {
                        self.finish_block(now);
                    }
                }
                RST_STREAM => {
                    let code = f.payload.get(..4).map(|b| u32::from_be_bytes([b[0], b[1], b[2], b[3]])).unwrap_or(u32::MAX);
                    let st = self.streams.entry(f.stream).or_default();
                    st.rst.get_or_insert(code);
                    st.last_ns = Some(now);
                }
                SETTINGS => {
                    if f.flags & F_ACK != 0 {
                        self.our_settings_acked = true;
                        self.grace_until_settings_ack = false;
                    } else {
                        self.peer_settings_frames += 1;
                        for c in f.payload.chunks_exact(6) {
                            let k = u16::from_be_bytes([c[0], c[1]]);
                            let v = u32::from_be_bytes([c[2], c[3], c[4], c[5]]);
                            if k == S_INITIAL_WINDOW_SIZE {
                                let old = self.peer(S_INITIAL_WINDOW_SIZE, 65535) as i64;
                                for w in self.stream_send_window.values_mut() {
                                    *w += v as i64 - old;
                                }
                            }
                            self.peer_settings.insert(k, v);
                        }
                        if self.auto_ack {
                            out.extend_from_slice(&settings_ack());
                        }
                    }
                }
                PING => {
                    if f.flags & F_ACK != 0 {
                        self.ping_acks += 1;
                    } else {
                        self.pings_received += 1;
                        if self.auto_ack && f.payload.len() == 8 {
                            let mut d = [0u8; 8];
                            d.copy_from_slice(&f.payload);
                            out.extend_from_slice(&ping(true, d));
                        }
                    }
                }
                GOAWAY => {
                    if f.payload.len() >= 8 {
                        let last = u32::from_be_bytes([f.payload[0], f.payload[1], f.payload[2], f.payload[3]]) & 0x7fff_ffff;
                        let code = u32::from_be_bytes([f.payload[4], f.payload[5], f.payload[6], f.payload[7]]);
                        self.goaway.get_or_insert((last, code));
                    }
                }
                WINDOW_UPDATE => {
                    let inc = f.payload.get(..4).map(|b| u32::from_be_bytes([b[0], b[1], b[2], b[3]]) & 0x7fff_ffff).unwrap_or(0) as i64;
                    if f.stream == 0 {
                        self.conn_send_window += inc;
                    } else {
                        let init = self.peer(S_INITIAL_WINDOW_SIZE, 65535) as i64;
                        *self.stream_send_window.entry(f.stream).or_insert(init) += inc;
                    }
                }
                PUSH_PROMISE => {
                    if self.local(S_ENABLE_PUSH, 1) == 0 || !self.is_client {
                        self.protocol_errors.push("PUSH_PROMISE received although push is disabled".into());
                    }
                }
                _ => {}
            }
            self.frames.push(f);
        }
        out
    }

    fn finish_block(&mut self, now: u64) {
        let Some((sid, es, block)) = self.partial.take() else { return };
        let st = self.streams.entry(sid).or_default();
        match self.dec.decode(&block) {
            Ok(list) => {
                let list: Vec<(String, String)> = list.into_iter().map(|(n, v)| (String::from_utf8_lossy(&n).into_owned(), String::from_utf8_lossy(&v).into_owned())).collect();
                let max = self.local_settings.get(&S_MAX_HEADER_LIST_SIZE).copied();
                if let Some(max) = max {
                    let size: usize = list.iter().map(|(n, v)| n.len() + v.len() + 32).sum();
                    if size > max as usize {
                        self.protocol_errors.push(format!("header list of {size} bytes exceeds our SETTINGS_MAX_HEADER_LIST_SIZE {max}"));
                    }
                }
                st.headers.push(list);
            }
            Err(e) => self.protocol_errors.push(format!("header block of stream {sid} does not decode: {e:?}")),
        }
        st.last_ns = Some(now);
        if es {
            st.end_stream = true;
        }
    }

    /// how many bytes of DATA the peer's windows allow us to send on a stream right now
    pub fn sendable(&mut self, stream: u32) -> usize {
        let init = self.peer(S_INITIAL_WINDOW_SIZE, 65535) as i64;
        let sw = *self.stream_send_window.entry(stream).or_insert(init);
        sw.min(self.conn_send_window).max(0) as usize
    }
    pub fn consume_send_window(&mut self, stream: u32, n: usize) {
        let init = self.peer(S_INITIAL_WINDOW_SIZE, 65535) as i64;
        *self.stream_send_window.entry(stream).or_insert(init) -= n as i64;
        self.conn_send_window -= n as i64;
    }
}

fn strip_padding(f: &RawFrame) -> (&[u8], bool) {
    if f.flags & F_PADDED != 0 && !f.payload.is_empty() {
        let pad = f.payload[0] as usize;
        if pad + 1 > f.payload.len() {
            return (&[], true);
        }
        (&f.payload[1..f.payload.len() - pad], false)
    } else {
        (&f.payload, false)
    }
}
