//! Deviation-bounded stateless search over choice vectors, plus process-level
//! sharding of independent exploration items.

use std::{
    collections::{BTreeMap, BTreeSet},
    io::Write,
    process::{Command, Stdio},
};

use serde_json::{Value, json};

use super::Point;
use crate::common::{Ctx, machinery_error, ncpu};

/// One finished execution as seen by the search.
#[derive(serde::Serialize, serde::Deserialize)]
pub struct Run {
    pub trace: Vec<Point>,
    /// normalised observation: must be identical when a choice vector is replayed
    pub observation: String,
    /// violations of this execution: (key, description)
    pub violations: Vec<(String, String)>,
    pub diverged: Option<String>,
}

#[derive(Default, Clone, Debug, serde::Serialize, serde::Deserialize)]
pub struct SearchStats {
    pub executions: u64,
    pub choice_points_seen: u64,
    pub max_points_in_one_execution: u64,
    pub distinct_observations: u64,
    pub by_kind: BTreeMap<String, u64>,
    pub bound: u32,
    pub capped: bool,
    /// executions thrown away because the environment did not reproduce their prefix (see `search`)
    #[serde(default)]
    pub discarded_replays: u64,
    /// prefixes given up after 5 attempts (their subtrees are unexplored)
    #[serde(default)]
    pub unreproducible_prefixes: u64,
}

/// Explores every choice vector with at most `bound` non-default choices.
/// `run(prefix)` must execute the scenario from scratch.
pub fn search(
    bound: u32,
    max_executions: u64,
    mut run: impl FnMut(&[u32]) -> Run,
    mut on_violation: impl FnMut(&[u32], &str, &str),
) -> SearchStats {
    let mut stats = SearchStats { bound, ..Default::default() };
    let mut observations: BTreeSet<u64> = BTreeSet::new();
    // explicit stack of prefixes (DFS)
    let mut stack: Vec<Vec<u32>> = vec![vec![]];
    let mut first: Option<(Vec<u32>, String)> = None;
    let mut last: Option<(Vec<u32>, String)> = None;
    while let Some(prefix) = stack.pop() {
        if stats.executions >= max_executions {
            stats.capped = true;
            break;
        }
        // A replayed prefix must be followed exactly. The simulation owns every choice, but
        // the loopback TCP stack underneath is the real one: on a saturated machine the kernel
        // may hand a segment over a moment later (softirq work deferred to ksoftirqd), which
        // shows as one ready descriptor fewer at some epoll_wait. Such an execution is
        // discarded and run again; a prefix that cannot be followed in 5 attempts is a
        // machinery error, never a verdict.
        let mut attempt = 0;
        let r = loop {
            let r = run(&prefix);
            stats.executions += 1;
            let problem = match &r.diverged {
                Some(d) => Some(format!("replayed prefix diverged: {d} (prefix {prefix:?})")),
                None => prefix.iter().enumerate().find(|(i, c)| r.trace.get(*i).map(|p| p.chosen) != Some(**c)).map(|(i, _)| format!("execution did not reach choice point {i} of its prefix {prefix:?}")),
            };
            match problem {
                None => break Some(r),
                Some(p) if attempt >= 4 => {
                    // five attempts did not follow this prefix: it came from a parent execution the
                    // environment does not reproduce. Its subtree is left unexplored and counted; more
                    // than a handful of those means the simulation does not own its environment.
                    stats.unreproducible_prefixes += 1;
                    eprintln!("NOTE: prefix left unexplored after 5 attempts: {p}");
                    // (one parent execution that the environment does not reproduce - it ran while the
                    // machine was saturated - makes every child prefix derived from it fail the same way,
                    // a dozen at a time: the allowance is per batch of executions, the count is reported)
                    if stats.unreproducible_prefixes > 24 + stats.executions / 100 {
                        machinery_error(&format!("{} prefixes could not be reproduced; last: {p}", stats.unreproducible_prefixes));
                    }
                    break None;
                }
                Some(_) => {
                    attempt += 1;
                    stats.discarded_replays += 1;
                    std::thread::sleep(std::time::Duration::from_millis(20 * attempt));
                }
            }
        };
        let Some(r) = r else { continue };
        stats.choice_points_seen += r.trace.len() as u64;
        stats.max_points_in_one_execution = stats.max_points_in_one_execution.max(r.trace.len() as u64);
        for p in &r.trace {
            *stats.by_kind.entry(p.kind.clone()).or_insert(0) += 1;
        }
        observations.insert(crate::common::fnv_str(&r.observation));
        for (k, d) in &r.violations {
            on_violation(&r.trace.iter().map(|p| p.chosen).collect::<Vec<_>>(), k, d);
        }
        let full: Vec<u32> = r.trace.iter().map(|p| p.chosen).collect();
        if first.is_none() {
            first = Some((full.clone(), r.observation.clone()));
        }
        last = Some((full.clone(), r.observation.clone()));
        // children: deviate at every point after the prefix
        let used = prefix.iter().filter(|c| **c != 0).count() as u32;
        if used < bound {
            // push in reverse so that earlier points are explored first
            for i in (prefix.len()..r.trace.len()).rev() {
                for alt in (1..r.trace[i].alternatives).rev() {
                    let mut child: Vec<u32> = full[..i].to_vec();
                    child.push(alt);
                    stack.push(child);
                }
            }
        }
    }
    stats.distinct_observations = observations.len() as u64;
    // determinism self-check: replay the first and the last execution
    for (vector, obs) in [first, last].into_iter().flatten() {
        let again = run(&vector);
        stats.executions += 1;
        if again.observation != obs {
            machinery_error(&format!(
                "non-deterministic simulation: replaying choice vector {vector:?} gave a different observation\n--- first\n{obs}\n--- second\n{}",
                again.observation
            ));
        }
    }
    stats
}

// ------------------------------------------------------------------ sharding

/// Result a shard child prints for one item.
#[derive(Default, serde::Serialize, serde::Deserialize)]
pub struct ItemResult {
    pub item: usize,
    pub label: String,
    pub stats: SearchStats,
    /// (key, description, case json, weight)
    pub violations: Vec<(String, String, Value, u64)>,
    pub counters: BTreeMap<String, u64>,
    pub sample: Value,
}

/// Runs `items` exploration items, spread over child processes of this very
/// binary (`VERIF_SHARD=i/n`). In a child, items are executed and printed as
/// JSON lines; in the parent, children are spawned and their output merged.
pub fn run_sharded(
    ctx: &Ctx,
    n_items: usize,
    label: &str,
    run_item: impl Fn(usize) -> ItemResult,
) -> Vec<ItemResult> {
    if let Ok(spec) = std::env::var("VERIF_SHARD") {
        // a check with several sharded parts: this child belongs to one of them
        if std::env::var("VERIF_SHARD_LABEL").ok().is_some_and(|l| l != label) {
            return vec![];
        }
        let (i, n) = spec.split_once('/').unwrap_or(("0", "1"));
        let (i, n): (usize, usize) = (i.parse().unwrap_or(0), n.parse().unwrap_or(1));
        let out = std::io::stdout();
        for item in (0..n_items).filter(|x| x % n == i) {
            let r = run_item(item);
            let mut g = out.lock();
            let _ = writeln!(g, "ITEM {}", serde_json::to_string(&r).unwrap());
        }
        let _ = std::io::stdout().flush();
        std::process::exit(0);
    }
    let shards = ncpu().min(n_items.max(1));
    let exe = std::env::current_exe().unwrap_or_else(|e| machinery_error(&format!("current_exe: {e}")));
    let args: Vec<String> = std::env::args().skip(1).collect();
    let mut children = vec![];
    for s in 0..shards {
        let child = Command::new(&exe)
            .args(&args)
            .env("VERIF_SHARD", format!("{s}/{shards}"))
            .env("VERIF_SHARD_LABEL", label)
            .stdout(Stdio::piped())
            .stderr(Stdio::inherit())
            .spawn()
            .unwrap_or_else(|e| machinery_error(&format!("cannot spawn shard: {e}")));
        children.push(child);
    }
    let mut results = vec![];
    let pids: Vec<u32> = children.iter().map(|c| c.id()).collect();
    for (s, child) in children.into_iter().enumerate() {
        let out = child.wait_with_output().unwrap_or_else(|e| machinery_error(&format!("shard {s}: {e}")));
        if !out.status.success() {
            // the other shards stop with this one (their executions follow: PR_SET_PDEATHSIG)
            for p in &pids {
                unsafe { libc::kill(*p as i32, libc::SIGKILL) };
            }
            machinery_error(&format!("shard {s} of {label} exited with {:?}", out.status));
        }
        for line in String::from_utf8_lossy(&out.stdout).lines() {
            if let Some(j) = line.strip_prefix("ITEM ") {
                match serde_json::from_str::<ItemResult>(j) {
                    Ok(r) => results.push(r),
                    Err(e) => machinery_error(&format!("shard {s} printed an unreadable item: {e}")),
                }
            }
        }
    }
    if results.len() != n_items {
        machinery_error(&format!("{label}: {} of {} items came back from the shards", results.len(), n_items));
    }
    results.sort_by_key(|r| r.item);
    for r in &results {
        for (k, d, case, w) in &r.violations {
            ctx.violation_w(k.clone(), d.clone(), case.clone(), *w);
        }
        for (k, v) in &r.counters {
            ctx.count(k, *v);
        }
    }
    let _ = json!(null);
    results
}
