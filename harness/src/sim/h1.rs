//! A strict, independent HTTP/1.1 message reader (RFC 9112) used by the
//! scripted peers and by the oracles. Shares no code with sozu.

#[derive(Clone, Debug, PartialEq, Eq)]
pub struct Message {
    /// request line or status line, without CRLF
    pub start_line: String,
    /// header fields in order, names as received
    pub headers: Vec<(String, String)>,
    pub body: Vec<u8>,
    /// trailers of a chunked message
    pub trailers: Vec<(String, String)>,
    /// how the body was delimited
    pub framing: Framing,
    /// total bytes of the message in the stream
    pub wire_len: usize,
}

#[derive(Clone, Copy, Debug, PartialEq, Eq)]
pub enum Framing {
    None,
    ContentLength(usize),
    Chunked,
    /// response body delimited by connection close
    UntilClose,
}

#[derive(Clone, Debug, PartialEq, Eq)]
pub enum Parse {
    /// a complete message and the number of bytes it occupies
    Complete(Message),
    /// more bytes are needed
    Incomplete,
    /// the stream is not a well-formed / unambiguous HTTP/1.1 message
    Invalid(String),
}

impl Message {
    pub fn header(&self, name: &str) -> Option<&str> {
        self.headers.iter().find(|(n, _)| n.eq_ignore_ascii_case(name)).map(|(_, v)| v.as_str())
    }
    pub fn headers_named(&self, name: &str) -> Vec<&str> {
        self.headers.iter().filter(|(n, _)| n.eq_ignore_ascii_case(name)).map(|(_, v)| v.as_str()).collect()
    }
    pub fn status(&self) -> Option<u16> {
        self.start_line.split(' ').nth(1).and_then(|s| s.parse().ok())
    }
    pub fn method(&self) -> &str {
        self.start_line.split(' ').next().unwrap_or("")
    }
    pub fn target(&self) -> &str {
        self.start_line.split(' ').nth(1).unwrap_or("")
    }
}

fn find(hay: &[u8], needle: &[u8]) -> Option<usize> {
    hay.windows(needle.len()).position(|w| w == needle)
}

fn is_tchar(b: u8) -> bool {
    b.is_ascii_alphanumeric() || b"!#$%&'*+-.^_`|~".contains(&b)
}

/// Parse one message from the front of `buf`. `is_response` selects the
/// start-line grammar and the body rules (RFC 9112 §6.3); `eof` tells whether
/// the peer has closed (needed for close-delimited bodies); `head_request`
/// marks a response to HEAD (never has a body).
pub fn parse(buf: &[u8], is_response: bool, eof: bool, head_request: bool) -> Parse {
    let Some(head_end) = find(buf, b"\r\n\r\n") else {
        // bare LF line terminators are not accepted by a strict reader
        if find(buf, b"\n\n").is_some() && find(buf, b"\r\n\r\n").is_none() {
            return Parse::Invalid("bare LF line terminators".into());
        }
        return if eof && !buf.is_empty() { Parse::Invalid("connection closed inside the header section".into()) } else { Parse::Incomplete };
    };
    let head = &buf[..head_end];
    let mut lines = head.split(|b| *b == b'\n').map(|l| l.strip_suffix(b"\r").unwrap_or(l));
    let start = match lines.next() {
        Some(l) => l,
        None => return Parse::Invalid("empty head".into()),
    };
    if head.iter().enumerate().any(|(i, b)| *b == b'\n' && (i == 0 || head[i - 1] != b'\r')) {
        return Parse::Invalid("bare LF in header section".into());
    }
    if head.contains(&0) {
        return Parse::Invalid("NUL in header section".into());
    }
    let start_line = String::from_utf8_lossy(start).into_owned();
    let parts: Vec<&str> = start_line.split(' ').collect();
    if is_response {
        if parts.len() < 2 || !parts[0].starts_with("HTTP/1.") || parts[1].len() != 3 || !parts[1].bytes().all(|b| b.is_ascii_digit()) {
            return Parse::Invalid(format!("bad status line {start_line:?}"));
        }
    } else if parts.len() != 3 || !parts[2].starts_with("HTTP/1.") || parts[0].is_empty() || !parts[0].bytes().all(is_tchar) || parts[1].is_empty() {
        return Parse::Invalid(format!("bad request line {start_line:?}"));
    }
    let mut headers = vec![];
    for l in lines {
        if l.is_empty() {
            continue;
        }
        if l[0] == b' ' || l[0] == b'\t' {
            return Parse::Invalid("obs-fold".into());
        }
        let Some(colon) = l.iter().position(|b| *b == b':') else {
            return Parse::Invalid(format!("header line without colon: {:?}", String::from_utf8_lossy(l)));
        };
        let name = &l[..colon];
        if name.is_empty() || !name.iter().all(|b| is_tchar(*b)) {
            return Parse::Invalid(format!("bad header name {:?}", String::from_utf8_lossy(name)));
        }
        let value = String::from_utf8_lossy(&l[colon + 1..]).trim_matches(|c| c == ' ' || c == '\t').to_owned();
        if value.bytes().any(|b| b == b'\r' || b == b'\n' || b == 0) {
            return Parse::Invalid("control byte in header value".into());
        }
        headers.push((String::from_utf8_lossy(name).into_owned(), value));
    }
    let body_start = head_end + 4;
    let te: Vec<&str> = headers.iter().filter(|(n, _)| n.eq_ignore_ascii_case("transfer-encoding")).map(|(_, v)| v.as_str()).collect();
    let cl: Vec<&str> = headers.iter().filter(|(n, _)| n.eq_ignore_ascii_case("content-length")).map(|(_, v)| v.as_str()).collect();
    let mut msg = Message { start_line, headers: headers.clone(), body: vec![], trailers: vec![], framing: Framing::None, wire_len: body_start };
    let status = msg.status().unwrap_or(0);
    let bodyless = is_response && (head_request || (100..200).contains(&status) || status == 204 || status == 304);
    if !te.is_empty() {
        if !cl.is_empty() {
            return Parse::Invalid("both Transfer-Encoding and Content-Length".into());
        }
        let codings: Vec<String> = te.iter().flat_map(|v| v.split(',')).map(|s| s.trim().to_ascii_lowercase()).collect();
        if codings.last().map(|s| s.as_str()) != Some("chunked") || codings.iter().filter(|c| *c == "chunked").count() != 1 {
            return Parse::Invalid(format!("unsupported or ambiguous Transfer-Encoding {te:?}"));
        }
        if bodyless {
            msg.framing = Framing::Chunked;
            return Parse::Complete(msg);
        }
        // chunked body
        let mut pos = body_start;
        let mut body = vec![];
        loop {
            let Some(eol) = find(&buf[pos..], b"\r\n") else {
                return if eof { Parse::Invalid("connection closed inside a chunked body".into()) } else { Parse::Incomplete };
            };
            let line = &buf[pos..pos + eol];
            let size_part = line.split(|b| *b == b';').next().unwrap_or(line);
            if size_part.is_empty() || !size_part.iter().all(|b| b.is_ascii_hexdigit()) {
                return Parse::Invalid(format!("bad chunk size line {:?}", String::from_utf8_lossy(line)));
            }
            let digits = std::str::from_utf8(size_part).unwrap().trim_start_matches('0');
            if digits.len() > 15 {
                // a syntactically valid but astronomically large chunk: never complete here
                return if eof { Parse::Invalid("connection closed inside a chunk".into()) } else { Parse::Incomplete };
            }
            let size = if digits.is_empty() { 0 } else { usize::from_str_radix(digits, 16).unwrap() };
            pos += eol + 2;
            if size == 0 {
                // trailers until empty line
                loop {
                    let Some(eol) = find(&buf[pos..], b"\r\n") else {
                        return if eof { Parse::Invalid("connection closed inside trailers".into()) } else { Parse::Incomplete };
                    };
                    let line = &buf[pos..pos + eol];
                    pos += eol + 2;
                    if line.is_empty() {
                        break;
                    }
                    match line.iter().position(|b| *b == b':') {
                        Some(c) if c > 0 && line[..c].iter().all(|b| is_tchar(*b)) => msg.trailers.push((
                            String::from_utf8_lossy(&line[..c]).into_owned(),
                            String::from_utf8_lossy(&line[c + 1..]).trim().to_owned(),
                        )),
                        _ => return Parse::Invalid("bad trailer line".into()),
                    }
                }
                msg.body = body;
                msg.framing = Framing::Chunked;
                msg.wire_len = pos;
                return Parse::Complete(msg);
            }
            if buf.len() < pos + size + 2 {
                return if eof { Parse::Invalid("connection closed inside a chunk".into()) } else { Parse::Incomplete };
            }
            body.extend_from_slice(&buf[pos..pos + size]);
            if &buf[pos + size..pos + size + 2] != b"\r\n" {
                return Parse::Invalid("chunk data not followed by CRLF".into());
            }
            pos += size + 2;
        }
    }
    if !cl.is_empty() {
        let mut values: Vec<&str> = cl.iter().flat_map(|v| v.split(',')).map(|s| s.trim()).collect();
        values.dedup();
        if values.len() != 1 || values[0].is_empty() || !values[0].bytes().all(|b| b.is_ascii_digit()) {
            return Parse::Invalid(format!("invalid or conflicting Content-Length {cl:?}"));
        }
        let digits = values[0].trim_start_matches('0');
        if digits.len() > 15 {
            return if eof { Parse::Invalid("connection closed inside an astronomically long body".into()) } else { Parse::Incomplete };
        }
        let n: usize = if digits.is_empty() { 0 } else { digits.parse().unwrap() };
        msg.framing = Framing::ContentLength(n);
        if bodyless {
            return Parse::Complete(msg);
        }
        if buf.len() < body_start + n {
            return if eof { Parse::Invalid(format!("connection closed after {} of {n} body bytes", buf.len() - body_start)) } else { Parse::Incomplete };
        }
        msg.body = buf[body_start..body_start + n].to_vec();
        msg.wire_len = body_start + n;
        return Parse::Complete(msg);
    }
    if is_response && !bodyless {
        // close-delimited
        if !eof {
            return Parse::Incomplete;
        }
        msg.body = buf[body_start..].to_vec();
        msg.framing = Framing::UntilClose;
        msg.wire_len = buf.len();
        return Parse::Complete(msg);
    }
    Parse::Complete(msg)
}

/// The canonical reading a forwarding intermediary must produce (RFC 9112 §6.3,
/// RFC 9110 §8.6): on top of `parse`, exactly one framing header in its simplest
/// spelling, exactly one Host on HTTP/1.1, an HTTP/1.0 or 1.1 version, no control
/// bytes in values, no whitespace or control bytes in the target. Anything else
/// is "not unambiguous" for the purposes of C03.
pub fn parse_canonical(buf: &[u8], eof: bool) -> Parse {
    let m = match parse(buf, false, eof, false) {
        Parse::Complete(m) => m,
        other => return other,
    };
    let parts: Vec<&str> = m.start_line.split(' ').collect();
    if parts[2] != "HTTP/1.1" && parts[2] != "HTTP/1.0" {
        return Parse::Invalid(format!("version {:?}", parts[2]));
    }
    if parts[1].bytes().any(|b| b <= 0x20 || b == 0x7f) || m.start_line.bytes().any(|b| b < 0x20 || b == 0x7f) {
        return Parse::Invalid("control byte or whitespace in request target".into());
    }
    let cl = m.headers_named("content-length");
    let te = m.headers_named("transfer-encoding");
    if cl.len() > 1 || cl.iter().any(|v| v.is_empty() || !v.bytes().all(|b| b.is_ascii_digit())) {
        return Parse::Invalid(format!("non-canonical Content-Length {cl:?}"));
    }
    // a list of plain tokens (no parameters, no empty elements) whose last and
    // only "chunked" closes it; several field lines combine in order
    let codings: Vec<String> = te.iter().flat_map(|v| v.split(',')).map(|c| c.trim_matches(|c| c == ' ' || c == '\t').to_ascii_lowercase()).collect();
    if codings.iter().any(|c| c.is_empty() || !c.bytes().all(is_tchar)) {
        return Parse::Invalid(format!("non-canonical Transfer-Encoding {te:?}"));
    }
    if !te.is_empty() && parts[2] == "HTTP/1.0" {
        return Parse::Invalid("Transfer-Encoding on HTTP/1.0".into());
    }
    let hosts = m.headers_named("host");
    if parts[2] == "HTTP/1.1" && hosts.len() != 1 {
        return Parse::Invalid(format!("{} Host fields", hosts.len()));
    }
    for (n, v) in m.headers.iter().chain(m.trailers.iter()) {
        if v.bytes().any(|b| (b < 0x20 && b != b'\t') || b == 0x7f) {
            return Parse::Invalid(format!("control byte in the value of {n}"));
        }
    }
    Parse::Complete(m)
}

pub fn parse_all_canonical(buf: &[u8], eof: bool) -> (Vec<Message>, usize, Option<String>) {
    let mut out = vec![];
    let mut pos = 0;
    loop {
        if pos >= buf.len() {
            return (out, pos, None);
        }
        match parse_canonical(&buf[pos..], eof) {
            Parse::Complete(m) => {
                pos += m.wire_len;
                out.push(m);
            }
            Parse::Incomplete => return (out, pos, None),
            Parse::Invalid(e) => return (out, pos, Some(e)),
        }
    }
}

/// Parse as many complete messages as possible; returns them with the number
/// of bytes consumed and the state of the remainder.
pub fn parse_all(buf: &[u8], is_response: bool, eof: bool) -> (Vec<Message>, usize, Option<String>) {
    let mut out = vec![];
    let mut pos = 0;
    loop {
        if pos >= buf.len() {
            return (out, pos, None);
        }
        match parse(&buf[pos..], is_response, eof, false) {
            Parse::Complete(m) => {
                pos += m.wire_len;
                out.push(m);
            }
            Parse::Incomplete => return (out, pos, None),
            Parse::Invalid(e) => return (out, pos, Some(e)),
        }
    }
}

pub fn request(method: &str, target: &str, host: &str, extra: &[(&str, &str)], body: Option<&[u8]>) -> Vec<u8> {
    let mut s = format!("{method} {target} HTTP/1.1\r\nHost: {host}\r\n");
    for (k, v) in extra {
        s.push_str(&format!("{k}: {v}\r\n"));
    }
    if let Some(b) = body {
        s.push_str(&format!("Content-Length: {}\r\n", b.len()));
    }
    s.push_str("\r\n");
    let mut v = s.into_bytes();
    if let Some(b) = body {
        v.extend_from_slice(b);
    }
    v
}

pub fn response(status: u16, reason: &str, extra: &[(&str, &str)], body: &[u8]) -> Vec<u8> {
    let mut s = format!("HTTP/1.1 {status} {reason}\r\n");
    for (k, v) in extra {
        s.push_str(&format!("{k}: {v}\r\n"));
    }
    s.push_str(&format!("Content-Length: {}\r\n\r\n", body.len()));
    let mut v = s.into_bytes();
    v.extend_from_slice(body);
    v
}

pub fn chunked(chunks: &[&[u8]]) -> Vec<u8> {
    let mut v = vec![];
    for c in chunks {
        if c.is_empty() {
            continue;
        }
        v.extend_from_slice(format!("{:x}\r\n", c.len()).as_bytes());
        v.extend_from_slice(c);
        v.extend_from_slice(b"\r\n");
    }
    v.extend_from_slice(b"0\r\n\r\n");
    v
}

/// position-coded body: byte i of stream `tag` is a function of (tag, i), so
/// that truncation, duplication, reordering and cross-stream leaks are visible
pub fn coded_body(tag: u8, len: usize) -> Vec<u8> {
    (0..len).map(|i| (((i * 31) ^ (i >> 8)) as u8).wrapping_add(tag.wrapping_mul(17)) | 0x20).map(|b| if b == 0x7f { b'~' } else { b }).collect()
}
