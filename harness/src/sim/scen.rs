//! Scenario building blocks shared by the SIM checks: per-shard addresses and
//! worker configurations.

use std::net::SocketAddr;

use sozu_command_lib::{
    config::ListenerBuilder,
    proto::command::{
        ActivateListener, AddBackend, Cluster, HttpListenerConfig, ListenerType, PathRule,
        RequestHttpFrontend, RequestTcpFrontend, RulePosition, SocketAddress, TcpListenerConfig,
        request::RequestType,
    },
    state::ConfigState,
};

/// Each shard process works on its own loopback /24 so that concurrently
/// running shards never collide on addresses.
pub fn shard_index() -> u8 {
    std::env::var("VERIF_SHARD")
        .ok()
        .and_then(|s| s.split('/').next().and_then(|i| i.parse::<u8>().ok()))
        .unwrap_or(200)
}

pub fn addr(host: u8, port: u16) -> SocketAddr {
    // 127.<10 + 20 * lane + shard>.0.<host>:port; the parent (no shard) uses 127.<210 + lane>.0.x
    let lane = crate::cfgspace::lane();
    let second = if shard_index() == 200 { 210 + lane } else { 10 + lane * 20 + shard_index() as u16 % 20 };
    format!("127.{second}.0.{host}:{port}").parse().unwrap()
}

pub struct HttpSetup {
    pub front: SocketAddr,
    pub clusters: Vec<ClusterSetup>,
    pub listener: HttpListenerConfig,
    /// when present the listener is an HTTPS one (the plain `listener` is ignored)
    pub tls: Option<TlsSetup>,
}

pub struct TlsSetup {
    pub listener: sozu_command_lib::proto::command::HttpsListenerConfig,
    pub certificates: Vec<sozu_command_lib::proto::command::CertificateAndKey>,
}

/// an HTTPS variant of `simple_http`: one certificate (cert1 of the configuration alphabet)
pub fn simple_https(front: SocketAddr, back: SocketAddr) -> HttpSetup {
    let mut s = simple_http(front, back);
    let fa: SocketAddress = front.into();
    let listener = ListenerBuilder::new_https(fa).to_tls(None).unwrap();
    s.tls = Some(TlsSetup { listener, certificates: vec![crate::cfgspace::cert(crate::cfgspace::CERT1, crate::cfgspace::KEY1, &[])] });
    s
}

pub struct ClusterSetup {
    pub cluster: Cluster,
    pub hostname: String,
    pub path: PathRule,
    pub backends: Vec<(String, SocketAddr)>,
    /// per-frontend header edits
    pub headers: Vec<sozu_command_lib::proto::command::Header>,
}

pub fn http_listener(front: SocketAddr) -> HttpListenerConfig {
    let fa: SocketAddress = front.into();
    ListenerBuilder::new_http(fa).to_http(None).unwrap()
}

pub fn http_state(setup: &HttpSetup) -> ConfigState {
    let mut s = ConfigState::new();
    let fa: SocketAddress = setup.front.into();
    let mut reqs = match &setup.tls {
        None => vec![
            RequestType::AddHttpListener(setup.listener.clone()),
            RequestType::ActivateListener(ActivateListener { address: fa, proxy: ListenerType::Http as i32, from_scm: false }),
        ],
        Some(t) => {
            let mut v = vec![
                RequestType::AddHttpsListener(t.listener.clone()),
                RequestType::ActivateListener(ActivateListener { address: fa, proxy: ListenerType::Https as i32, from_scm: false }),
            ];
            for c in &t.certificates {
                v.push(RequestType::AddCertificate(sozu_command_lib::proto::command::AddCertificate { address: fa, certificate: c.clone(), expired_at: None }));
            }
            v
        }
    };
    for c in &setup.clusters {
        reqs.push(RequestType::AddCluster(c.cluster.clone()));
        let front = RequestHttpFrontend {
            cluster_id: Some(c.cluster.cluster_id.clone()),
            address: fa,
            hostname: c.hostname.clone(),
            path: c.path.clone(),
            position: RulePosition::Tree as i32,
            headers: c.headers.clone(),
            ..Default::default()
        };
        reqs.push(if setup.tls.is_some() { RequestType::AddHttpsFrontend(front) } else { RequestType::AddHttpFrontend(front) });
        for (id, a) in &c.backends {
            reqs.push(RequestType::AddBackend(AddBackend {
                cluster_id: c.cluster.cluster_id.clone(),
                backend_id: id.clone(),
                address: (*a).into(),
                sticky_id: None,
                load_balancing_parameters: None,
                backup: None,
            }));
        }
    }
    for r in reqs {
        if let Err(e) = s.dispatch(&r.into()) {
            crate::common::machinery_error(&format!("scenario state: {e}"));
        }
    }
    s
}

pub fn simple_http(front: SocketAddr, back: SocketAddr) -> HttpSetup {
    HttpSetup {
        front,
        listener: http_listener(front),
        clusters: vec![ClusterSetup { cluster: crate::cfgspace::cluster("c1"), hostname: "a.io".into(), path: PathRule::prefix("/"), backends: vec![("b1".into(), back)], headers: vec![] }],
        tls: None,
    }
}

pub fn tcp_state(front: SocketAddr, back: SocketAddr, listener: impl FnOnce(&mut TcpListenerConfig), cluster: impl FnOnce(&mut Cluster)) -> ConfigState {
    let mut s = ConfigState::new();
    let fa: SocketAddress = front.into();
    let mut l = ListenerBuilder::new_tcp(fa).to_tcp(None).unwrap();
    listener(&mut l);
    let mut c = crate::cfgspace::cluster("t1");
    cluster(&mut c);
    let reqs = vec![
        RequestType::AddTcpListener(l),
        RequestType::ActivateListener(ActivateListener { address: fa, proxy: ListenerType::Tcp as i32, from_scm: false }),
        RequestType::AddCluster(c),
        RequestType::AddTcpFrontend(RequestTcpFrontend { cluster_id: "t1".into(), address: fa, tags: Default::default() }),
        RequestType::AddBackend(AddBackend { cluster_id: "t1".into(), backend_id: "tb1".into(), address: back.into(), sticky_id: None, load_balancing_parameters: None, backup: None }),
    ];
    for r in reqs {
        if let Err(e) = s.dispatch(&r.into()) {
            crate::common::machinery_error(&format!("scenario state: {e}"));
        }
    }
    s
}
