//! Scripted peers (clients, backends) over real non-blocking loopback sockets.
//! They only ever run inside the environment turn of the simulated
//! `epoll_wait`, on the subject's own thread.

use std::{
    io::{ErrorKind, Read, Write},
    net::{Shutdown, SocketAddr, TcpListener, TcpStream},
    os::fd::AsRawFd,
};

use super::EnvCtx;

/// A non-blocking byte pipe end with a receive transcript.
pub struct Conn {
    pub stream: Option<TcpStream>,
    /// everything received so far
    pub rx: Vec<u8>,
    pub eof: bool,
    pub reset: bool,
    /// bytes queued for sending (a send may be split over several turns)
    pub tx: Vec<u8>,
    pub sent: usize,
    /// virtual time (ns) of the first / last received byte and of eof
    pub first_rx_ns: Option<u64>,
    pub last_rx_ns: Option<u64>,
    pub eof_ns: Option<u64>,
    /// local address, remembered past close
    pub local: Option<SocketAddr>,
    /// TLS client layer: when present `rx` / `tx` hold application bytes and
    /// the records travel through `raw_tx`
    pub tls: Option<Box<rustls::ClientConnection>>,
    raw_tx: Vec<u8>,
    pub tls_error: Option<String>,
    /// sha-256 of the leaf certificate the server presented, negotiated ALPN
    pub tls_peer_cert: Option<String>,
    pub tls_alpn: Option<String>,
    /// every application byte handed to the transport, in order (debugging aid)
    pub sent_log: Vec<u8>,
}

impl Conn {
    pub fn new(stream: TcpStream) -> Conn {
        stream.set_nonblocking(true).ok();
        stream.set_nodelay(true).ok();
        crate::interpose::wide_socket_buffers(stream.as_raw_fd());
        let local = stream.local_addr().ok();
        Conn { stream: Some(stream), rx: vec![], eof: false, reset: false, tx: vec![], sent: 0, first_rx_ns: None, last_rx_ns: None, eof_ns: None, local, tls: None, raw_tx: vec![], tls_error: None, tls_peer_cert: None, tls_alpn: None, sent_log: vec![] }
    }
    pub fn closed() -> Conn {
        Conn { stream: None, rx: vec![], eof: true, reset: false, tx: vec![], sent: 0, first_rx_ns: None, last_rx_ns: None, eof_ns: None, local: None, tls: None, raw_tx: vec![], tls_error: None, tls_peer_cert: None, tls_alpn: None, sent_log: vec![] }
    }
    /// read whatever is available; true if anything new was observed
    pub fn pump_read(&mut self, now: u64) -> bool {
        let Some(s) = self.stream.as_mut() else { return false };
        if self.eof || self.reset {
            return false;
        }
        let mut progressed = false;
        let mut buf = [0u8; 65536];
        loop {
            match s.read(&mut buf) {
                Ok(0) => {
                    self.eof = true;
                    self.eof_ns = Some(now);
                    return true;
                }
                Ok(n) => {
                    progressed = true;
                    match self.tls.as_mut() {
                        None => {
                            self.rx.extend_from_slice(&buf[..n]);
                            self.first_rx_ns.get_or_insert(now);
                            self.last_rx_ns = Some(now);
                        }
                        Some(tls) => {
                            let mut input = &buf[..n];
                            while !input.is_empty() {
                                if tls.read_tls(&mut input).is_err() {
                                    break;
                                }
                                match tls.process_new_packets() {
                                    Ok(state) => {
                                        let mut plain = vec![0u8; state.plaintext_bytes_to_read()];
                                        if !plain.is_empty() {
                                            let _ = tls.reader().read_exact(&mut plain);
                                            self.rx.extend_from_slice(&plain);
                                            self.first_rx_ns.get_or_insert(now);
                                            self.last_rx_ns = Some(now);
                                        }
                                        if state.peer_has_closed() {
                                            self.eof = true;
                                            self.eof_ns = Some(now);
                                        }
                                    }
                                    Err(e) => {
                                        self.tls_error = Some(e.to_string());
                                        self.reset = true;
                                        self.eof_ns = Some(now);
                                        return true;
                                    }
                                }
                            }
                            if self.tls_peer_cert.is_none() {
                                if let Some(certs) = tls.peer_certificates() {
                                    if let Some(leaf) = certs.first() {
                                        use sha2::Digest;
                                        self.tls_peer_cert = Some(hex::encode(sha2::Sha256::digest(leaf.as_ref())));
                                    }
                                }
                            }
                            if self.tls_alpn.is_none() {
                                self.tls_alpn = tls.alpn_protocol().map(|p| String::from_utf8_lossy(p).into_owned());
                            }
                        }
                    }
                }
                Err(e) if e.kind() == ErrorKind::WouldBlock => return progressed,
                Err(e) if e.kind() == ErrorKind::Interrupted => continue,
                Err(_) => {
                    self.reset = true;
                    self.eof_ns = Some(now);
                    return true;
                }
            }
        }
    }
    /// push queued bytes; true if anything was written
    pub fn pump_write(&mut self) -> bool {
        if self.tls.is_some() {
            return self.pump_write_tls();
        }
        let Some(s) = self.stream.as_mut() else { return false };
        let mut progressed = false;
        while !self.tx.is_empty() {
            match s.write(&self.tx) {
                Ok(0) => break,
                Ok(n) => {
                    self.tx.drain(..n);
                    self.sent += n;
                    progressed = true;
                }
                Err(e) if e.kind() == ErrorKind::WouldBlock => break,
                Err(e) if e.kind() == ErrorKind::Interrupted => continue,
                Err(_) => {
                    self.reset = true;
                    self.tx.clear();
                    break;
                }
            }
        }
        progressed
    }
    fn pump_write_tls(&mut self) -> bool {
        let Some(s) = self.stream.as_mut() else { return false };
        let tls = self.tls.as_mut().unwrap();
        let mut progressed = false;
        if !self.tx.is_empty() && !tls.is_handshaking() {
            if let Ok(n) = tls.writer().write(&self.tx) {
                self.sent_log.extend_from_slice(&self.tx[..n]);
                self.tx.drain(..n);
                self.sent += n;
                progressed |= n > 0;
            }
        }
        while tls.wants_write() {
            if tls.write_tls(&mut self.raw_tx).is_err() {
                break;
            }
        }
        while !self.raw_tx.is_empty() {
            match s.write(&self.raw_tx) {
                Ok(0) => break,
                Ok(n) => {
                    self.raw_tx.drain(..n);
                    progressed = true;
                }
                Err(e) if e.kind() == ErrorKind::WouldBlock => break,
                Err(e) if e.kind() == ErrorKind::Interrupted => continue,
                Err(_) => {
                    self.reset = true;
                    self.raw_tx.clear();
                    self.tx.clear();
                    break;
                }
            }
        }
        progressed
    }
    pub fn handshaking(&self) -> bool {
        self.tls.as_ref().is_some_and(|t| t.is_handshaking()) && !self.reset && !self.eof
    }
    /// wrap the connection in a TLS client session (any certificate is accepted and recorded)
    pub fn start_tls(&mut self, sni: &str, alpn: &[&str]) {
        let provider = std::sync::Arc::new(rustls::crypto::ring::default_provider());
        let mut cfg = rustls::ClientConfig::builder_with_provider(provider.clone())
            .with_safe_default_protocol_versions()
            .expect("tls versions")
            .dangerous()
            .with_custom_certificate_verifier(std::sync::Arc::new(AcceptAny(provider)))
            .with_no_client_auth();
        cfg.alpn_protocols = alpn.iter().map(|a| a.as_bytes().to_vec()).collect();
        let name = rustls::pki_types::ServerName::try_from(sni.to_owned()).expect("server name");
        cfg.enable_sni = !matches!(name, rustls::pki_types::ServerName::IpAddress(_));
        self.tls = Some(Box::new(rustls::ClientConnection::new(std::sync::Arc::new(cfg), name).expect("tls client")));
    }
    pub fn half_close(&mut self) {
        if let Some(s) = self.stream.as_ref() {
            let _ = s.shutdown(Shutdown::Write);
        }
    }
    pub fn close(&mut self) {
        self.stream = None;
    }
    /// abortive close (RST)
    pub fn reset_now(&mut self) {
        if let Some(s) = self.stream.take() {
            let l = libc::linger { l_onoff: 1, l_linger: 0 };
            unsafe {
                libc::setsockopt(s.as_raw_fd(), libc::SOL_SOCKET, libc::SO_LINGER, &l as *const _ as *const libc::c_void, std::mem::size_of::<libc::linger>() as u32);
            }
            drop(s);
        }
    }
    pub fn local_addr(&self) -> Option<SocketAddr> {
        self.local
    }
}

#[derive(Debug)]
struct AcceptAny(std::sync::Arc<rustls::crypto::CryptoProvider>);
impl rustls::client::danger::ServerCertVerifier for AcceptAny {
    fn verify_server_cert(
        &self,
        _end_entity: &rustls::pki_types::CertificateDer<'_>,
        _intermediates: &[rustls::pki_types::CertificateDer<'_>],
        _server_name: &rustls::pki_types::ServerName<'_>,
        _ocsp: &[u8],
        _now: rustls::pki_types::UnixTime,
    ) -> Result<rustls::client::danger::ServerCertVerified, rustls::Error> {
        Ok(rustls::client::danger::ServerCertVerified::assertion())
    }
    fn verify_tls12_signature(&self, message: &[u8], cert: &rustls::pki_types::CertificateDer<'_>, dss: &rustls::DigitallySignedStruct) -> Result<rustls::client::danger::HandshakeSignatureValid, rustls::Error> {
        rustls::crypto::verify_tls12_signature(message, cert, dss, &self.0.signature_verification_algorithms)
    }
    fn verify_tls13_signature(&self, message: &[u8], cert: &rustls::pki_types::CertificateDer<'_>, dss: &rustls::DigitallySignedStruct) -> Result<rustls::client::danger::HandshakeSignatureValid, rustls::Error> {
        rustls::crypto::verify_tls13_signature(message, cert, dss, &self.0.signature_verification_algorithms)
    }
    fn supported_verify_schemes(&self) -> Vec<rustls::SignatureScheme> {
        self.0.signature_verification_algorithms.supported_schemes()
    }
}

/// One instruction of a peer script.
#[derive(Clone, Debug)]
pub enum Step {
    /// client: connect to the address (from `bind` source address if given)
    Connect { to: SocketAddr, from: Option<SocketAddr> },
    /// server: wait for the next inbound connection on the peer's listener
    Accept,
    /// queue bytes; `splits` are candidate offsets at which the send may be cut
    /// in two, the second half going out on a later turn (choice point)
    Send { bytes: Vec<u8>, splits: Vec<usize> },
    /// wait until at least `n` bytes in total have been received
    ExpectBytes(usize),
    /// wait until `n` complete HTTP/1.1 messages have been received in total
    ExpectH1 { count: usize, responses: bool },
    /// start speaking HTTP/2 on the connection (client: preface + SETTINGS; server: SETTINGS)
    H2Start { settings: Vec<(u16, u32)>, policy: super::h2::WindowPolicy },
    H2Headers { stream: u32, headers: Vec<(String, String)>, end_stream: bool, continuation_at: Option<usize> },
    /// DATA for the whole of `bytes`, in frames of at most `frame_size`, sent as
    /// far as the peer's windows allow (waits for WINDOW_UPDATE) unless `ignore_window`
    H2Data { stream: u32, bytes: Vec<u8>, end_stream: bool, frame_size: usize, ignore_window: bool },
    /// from now on `H2Data` pads every DATA frame with this many bytes (None: no padding)
    H2PadData(Option<u8>),
    /// arbitrary bytes on the HTTP/2 connection (malformed frames, floods)
    H2Raw(Vec<u8>),
    /// WINDOW_UPDATE that really extends what we accept
    H2Grant { stream: u32, inc: u32 },
    /// SETTINGS_INITIAL_WINDOW_SIZE change mid-connection (every stream window we offer moves by the difference)
    H2ShrinkWindow(u32),
    H2Await(H2Cond),
    /// server: answer every complete request (`/size/<n>` gives an n-byte body, else 2 bytes);
    /// never finishes, counts as settled
    H2Serve,
    /// client: start a TLS session on the connection (SNI, ALPN offer)
    StartTls { sni: String, alpn: Vec<String> },
    /// wait until the TLS handshake completed or failed
    ExpectHandshake,
    /// wait for end of stream (FIN or RST) from the other side
    ExpectEof,
    HalfClose,
    Close,
    Reset,
    /// do nothing for this much virtual time
    Wait { ms: u64 },
    /// server: accept every connection and answer each complete, strictly
    /// well-formed HTTP/1.1 request with `response` (an `X-Seq: <conn>.<n>` line
    /// is added); never finishes, counts as settled
    ServeH1 { response_head: String, body: Vec<u8> },
    /// stop here forever (a stalled peer)
    Stall,
    /// marks the point where the peer has reached its goal
    Done,
}

/// What an HTTP/2 script waits for (it also gives up when the connection ends).
#[derive(Clone, Debug, PartialEq, Eq)]
pub enum H2Cond {
    PeerSettings,
    SettingsAcked,
    Headers(u32),
    BodyAtLeast(u32, usize),
    StreamDone(u32),
    AllDone(Vec<u32>),
    Goaway,
    PingAcks(usize),
}

pub struct Peer {
    pub name: String,
    pub listener: Option<TcpListener>,
    pub conn: Conn,
    pub script: Vec<Step>,
    pub pc: usize,
    wake_ns: Option<u64>,
    /// remainder of a split send waiting for the next turn
    deferred: Option<Vec<u8>>,
    deferred_turn: bool,
    pub connect_failed: bool,
    pub accepted_from: Option<SocketAddr>,
    pub h1_seen: usize,
    /// further connections accepted by `ServeH1`
    pub more: Vec<Conn>,
    served: Vec<usize>,
    /// ServeH1: per connection, the virtual time before which a `/slow/<ms>` request is not answered
    slow_until: Vec<Option<u64>>,
    /// HTTP/2 endpoint state of the main connection
    pub h2: Option<Box<super::h2::Endpoint>>,
    h2_data_off: usize,
    /// H2Serve: streams already answered, and response bodies still to send (stream, bytes, offset)
    h2_answered: std::collections::BTreeSet<u32>,
    h2_pending: Vec<(u32, Vec<u8>, usize)>,
    /// H2Serve: further accepted connections
    pub h2_more: Vec<H2ServerConn>,
}

pub struct H2ServerConn {
    pub conn: Conn,
    pub h2: Box<super::h2::Endpoint>,
    answered: std::collections::BTreeSet<u32>,
    pending: Vec<(u32, Vec<u8>, usize)>,
}

/// one round of the HTTP/2 auto-responder on one connection
fn h2_serve(conn: &mut Conn, h2: &mut super::h2::Endpoint, answered: &mut std::collections::BTreeSet<u32>, pending: &mut Vec<(u32, Vec<u8>, usize)>, now: u64, conn_index: usize) -> bool {
    let mut progressed = conn.pump_read(now);
    let auto = h2.receive(&conn.rx, now);
    conn.tx.extend_from_slice(&auto);
    let ready: Vec<u32> = h2.streams.iter().filter(|(id, st)| st.end_stream && !st.headers.is_empty() && !answered.contains(id)).map(|(id, _)| *id).collect();
    for id in ready {
        answered.insert(id);
        // after its GOAWAY a server takes nothing above the stream it named
        if h2.goaway_sent.is_some_and(|last| id > last) {
            continue;
        }
        let path = h2.streams[&id].header(":path").unwrap_or("/").to_owned();
        // ---- misbehaving-backend targets (one stream each; `<n>` = body bytes sent before the fault)
        let arg = |prefix: &str| path.strip_prefix(prefix).and_then(|n| n.split('/').next()).and_then(|n| n.parse::<usize>().ok());
        let sid = id.to_string();
        let partial = |h2: &mut super::h2::Endpoint, conn: &mut Conn, n: usize| {
            let hs = h2.encode_headers(id, &[(":status", "200"), ("content-length", "1000"), ("x-stream", &sid)], false, None);
            conn.tx.extend_from_slice(&hs);
            if n > 0 {
                conn.tx.extend_from_slice(&super::h2::data(id, &super::h1::coded_body(9, 1000)[..n.min(1000)], false));
                h2.consume_send_window(id, n.min(1000));
            }
        };
        if path == "/stall" {
            continue;
        } else if path == "/garbage" {
            conn.tx.extend_from_slice(b"HTTP/1.1 200 OK\r\nContent-Length: 2\r\n\r\nok this is not an HTTP/2 frame at all.......");
            progressed = true;
            continue;
        } else if path == "/close-before" {
            conn.pump_write();
            conn.close();
            return true;
        } else if let Some(code) = arg("/rst/") {
            conn.tx.extend_from_slice(&super::h2::rst_stream(id, code as u32));
            progressed = true;
            continue;
        } else if let Some(n) = arg("/rst-mid/") {
            partial(h2, conn, n);
            conn.tx.extend_from_slice(&super::h2::rst_stream(id, 2));
            progressed = true;
            continue;
        } else if let Some(n) = arg("/close-mid/") {
            partial(h2, conn, n);
            conn.pump_write();
            conn.close();
            return true;
        } else if let Some(n) = arg("/close-after/") {
            // a complete n-byte answer (n below one window), then the connection is closed in the same turn
            let body = super::h1::coded_body((n % 251) as u8, n);
            let len = body.len().to_string();
            let hs = h2.encode_headers(id, &[(":status", "200"), ("content-length", &len), ("x-stream", &sid)], body.is_empty(), None);
            conn.tx.extend_from_slice(&hs);
            let max = h2.peer(super::h2::S_MAX_FRAME_SIZE, 16384) as usize;
            if !body.is_empty() {
                conn.tx.extend_from_slice(&h2.encode_data(id, &body, true, max));
            }
            conn.pump_write();
            conn.close();
            return true;
        } else if let Some(n) = arg("/short/") {
            // content-length 1000, n bytes, END_STREAM
            let hs = h2.encode_headers(id, &[(":status", "200"), ("content-length", "1000"), ("x-stream", &sid)], false, None);
            conn.tx.extend_from_slice(&hs);
            conn.tx.extend_from_slice(&super::h2::data(id, &super::h1::coded_body(9, 1000)[..n.min(1000)], true));
            progressed = true;
            continue;
        } else if path.starts_with("/goaway-refuse-once") && conn_index == 0 {
            // this connection processed nothing from this stream on: a retry elsewhere is safe
            conn.tx.extend_from_slice(&super::h2::goaway(id.saturating_sub(2), 0));
            h2.goaway_sent = Some(id.saturating_sub(2));
            progressed = true;
            continue;
        } else if path.starts_with("/goaway-then-answer") {
            // graceful shutdown: this stream is the last one that will be answered
            conn.tx.extend_from_slice(&super::h2::goaway(id, 0));
            h2.goaway_sent = Some(id);
        }
        // `/nolen/<n>`: no content-length; `/nolenpad/<n>`: in addition every DATA frame is
        // preceded by an empty DATA frame and by a DATA frame made of padding only
        let nolen = path.strip_prefix("/nolen/").or_else(|| path.strip_prefix("/nolenpad/")).and_then(|n| n.parse::<usize>().ok());
        let size = path.strip_prefix("/size/").and_then(|n| n.parse::<usize>().ok()).or(nolen).or(arg("/goaway-then-answer/")).or(arg("/goaway-refuse-once/"));
        if path.starts_with("/nolenpad/") {
            h2.pad_streams.insert(id);
        }
        let body = match size {
            Some(n) => super::h1::coded_body((n % 251) as u8, n),
            None => b"ok".to_vec(),
        };
        let len = body.len().to_string();
        let hs = if nolen.is_some() {
            h2.encode_headers(id, &[(":status", "200"), ("x-stream", &sid)], body.is_empty(), None)
        } else {
            h2.encode_headers(id, &[(":status", "200"), ("content-length", &len), ("x-stream", &sid)], body.is_empty(), None)
        };
        conn.tx.extend_from_slice(&hs);
        if !body.is_empty() {
            pending.push((id, body, 0));
        }
        progressed = true;
    }
    let max = h2.peer(super::h2::S_MAX_FRAME_SIZE, 16384) as usize;
    for (id, body, off) in pending.iter_mut() {
        if h2.streams.get(id).is_some_and(|s| s.rst.is_some()) {
            *off = body.len();
            continue;
        }
        loop {
            let left = body.len() - *off;
            let padded = h2.pad_streams.contains(id);
            if padded && h2.sendable(*id) < 5 {
                break;
            }
            if padded && left > 0 {
                conn.tx.extend_from_slice(&super::h2::frame(super::h2::DATA, 0, *id, &[]));
                conn.tx.extend_from_slice(&super::h2::frame(super::h2::DATA, super::h2::F_PADDED, *id, &[3, 0, 0, 0]));
                h2.consume_send_window(*id, 4);
            }
            let n = left.min(max).min(h2.sendable(*id));
            if n == 0 {
                break;
            }
            let last = *off + n == body.len();
            conn.tx.extend_from_slice(&super::h2::data(*id, &body[*off..*off + n], last));
            h2.consume_send_window(*id, n);
            *off += n;
            progressed = true;
        }
    }
    pending.retain(|(_, b, o)| *o < b.len());
    progressed |= conn.pump_write();
    progressed
}

impl Peer {
    pub fn client(name: &str, script: Vec<Step>) -> Peer {
        Peer { name: name.into(), listener: None, conn: Conn::closed(), script, pc: 0, wake_ns: None, deferred: None, deferred_turn: false, connect_failed: false, accepted_from: None, h1_seen: 0, more: vec![], served: vec![], slow_until: vec![], h2: None, h2_data_off: 0, h2_answered: Default::default(), h2_pending: vec![], h2_more: vec![] }
    }
    pub fn server(name: &str, listen: SocketAddr, script: Vec<Step>) -> Peer {
        let l = bind_reuse(listen);
        l.set_nonblocking(true).ok();
        Peer { name: name.into(), listener: Some(l), conn: Conn::closed(), script, pc: 0, wake_ns: None, deferred: None, deferred_turn: false, connect_failed: false, accepted_from: None, h1_seen: 0, more: vec![], served: vec![], slow_until: vec![], h2: None, h2_data_off: 0, h2_answered: Default::default(), h2_pending: vec![], h2_more: vec![] }
    }
    pub fn done(&self) -> bool {
        self.pc >= self.script.len() || matches!(self.script.get(self.pc), Some(Step::Done) | Some(Step::Stall) | Some(Step::ServeH1 { .. }) | Some(Step::H2Serve))
    }
    /// every connection of a serving peer, in accept order
    pub fn conns(&self) -> Vec<&Conn> {
        std::iter::once(&self.conn).chain(self.more.iter()).collect()
    }
    pub fn reached_goal(&self) -> bool {
        self.pc >= self.script.len() || matches!(self.script.get(self.pc), Some(Step::Done))
    }
    pub fn next_wakeup(&self) -> Option<u64> {
        self.wake_ns
    }

    /// run until blocked; true if anything happened
    pub fn turn(&mut self, ctx: &mut EnvCtx) -> bool {
        let mut progressed = false;
        // a deferred half of a split send goes out one turn later
        if let Some(rest) = self.deferred.take() {
            if self.deferred_turn {
                self.conn.tx.extend_from_slice(&rest);
                progressed = true;
            } else {
                self.deferred = Some(rest);
                self.deferred_turn = true;
                // nothing else until the rest has gone out
                progressed |= self.conn.pump_write();
                progressed |= self.conn.pump_read(ctx.now_ns);
                return true;
            }
        }
        progressed |= self.conn.pump_write();
        progressed |= self.conn.pump_read(ctx.now_ns);
        if let Some(h2) = self.h2.as_mut() {
            let auto = h2.receive(&self.conn.rx, ctx.now_ns);
            if !auto.is_empty() {
                self.conn.tx.extend_from_slice(&auto);
                progressed |= self.conn.pump_write();
            }
        }
        loop {
            let Some(step) = self.script.get(self.pc).cloned() else { break };
            match step {
                Step::Connect { to, from } => {
                    match connect_from(to, from) {
                        Ok(s) => {
                            self.conn = Conn::new(s);
                        }
                        Err(e) => {
                            ctx.log.push(format!("{}: connect to {to} failed: {e}", self.name));
                            self.connect_failed = true;
                            self.conn = Conn::closed();
                        }
                    }
                    self.pc += 1;
                    progressed = true;
                }
                Step::Accept => {
                    let Some(l) = self.listener.as_ref() else {
                        self.pc += 1;
                        continue;
                    };
                    match l.accept() {
                        Ok((s, from)) => {
                            self.conn = Conn::new(s);
                            self.accepted_from = Some(from);
                            self.h1_seen = 0;
                            self.pc += 1;
                            progressed = true;
                        }
                        Err(_) => break,
                    }
                }
                Step::Send { .. } if self.conn.stream.is_none() => {
                    // nothing to send on: the connection never existed or is gone
                    self.pc += 1;
                }
                Step::Send { bytes, splits } => {
                    let valid: Vec<usize> = splits.into_iter().filter(|s| *s > 0 && *s < bytes.len()).collect();
                    let c = ctx.chooser.choose(&format!("{}:send-split", self.name), valid.len() as u32 + 1);
                    if c == 0 {
                        self.conn.tx.extend_from_slice(&bytes);
                    } else {
                        let at = valid[c as usize - 1];
                        self.conn.tx.extend_from_slice(&bytes[..at]);
                        self.deferred = Some(bytes[at..].to_vec());
                        self.deferred_turn = false;
                    }
                    self.conn.pump_write();
                    self.pc += 1;
                    progressed = true;
                    if self.deferred.is_some() {
                        break;
                    }
                }
                Step::ExpectBytes(n) => {
                    if self.conn.rx.len() >= n {
                        self.pc += 1;
                    } else if self.conn.eof || self.conn.reset {
                        // cannot be satisfied any more: give up waiting
                        self.pc += 1;
                    } else {
                        break;
                    }
                }
                Step::ExpectH1 { count, responses } => {
                    let (msgs, _, err) = super::h1::parse_all(&self.conn.rx, responses, self.conn.eof || self.conn.reset);
                    self.h1_seen = msgs.len();
                    if msgs.len() >= count || err.is_some() || self.conn.eof || self.conn.reset {
                        self.pc += 1;
                    } else {
                        break;
                    }
                }
                Step::H2Start { settings, policy } => {
                    let mut ep = super::h2::Endpoint::new(self.listener.is_none(), policy);
                    let hello = ep.hello(&settings);
                    self.conn.tx.extend_from_slice(&hello);
                    // whatever already arrived (a server's SETTINGS) is processed from the start
                    let auto = ep.receive(&self.conn.rx, ctx.now_ns);
                    self.conn.tx.extend_from_slice(&auto);
                    self.h2 = Some(Box::new(ep));
                    self.conn.pump_write();
                    self.pc += 1;
                    progressed = true;
                }
                Step::H2Headers { stream, headers, end_stream, continuation_at } => {
                    if let Some(h2) = self.h2.as_mut() {
                        let hs: Vec<(&str, &str)> = headers.iter().map(|(n, v)| (n.as_str(), v.as_str())).collect();
                        let bytes = h2.encode_headers(stream, &hs, end_stream, continuation_at);
                        self.conn.tx.extend_from_slice(&bytes);
                        self.conn.pump_write();
                    }
                    self.pc += 1;
                    progressed = true;
                }
                Step::H2Data { stream, bytes, end_stream, frame_size, ignore_window } => {
                    let Some(h2) = self.h2.as_mut() else {
                        self.pc += 1;
                        continue;
                    };
                    if self.conn.stream.is_none() || self.conn.reset {
                        self.h2_data_off = 0;
                        self.pc += 1;
                        continue;
                    }
                    let peer_max = h2.peer(super::h2::S_MAX_FRAME_SIZE, 16384) as usize;
                    // padding is flow-controlled: the pad-length octet and the padding count against the windows
                    let overhead = h2.pad_data.map(|p| 1 + p as usize).unwrap_or(0);
                    loop {
                        let left = bytes.len() - self.h2_data_off;
                        let mut n = left.min(frame_size.max(1));
                        if !ignore_window {
                            n = n.min(h2.sendable(stream).saturating_sub(overhead)).min(peer_max.saturating_sub(overhead));
                        }
                        if n == 0 && left > 0 {
                            break;
                        }
                        let last = self.h2_data_off + n == bytes.len();
                        let chunk = &bytes[self.h2_data_off..self.h2_data_off + n];
                        match h2.pad_data {
                            None => self.conn.tx.extend_from_slice(&super::h2::data(stream, chunk, end_stream && last)),
                            Some(pad) => {
                                let mut p = vec![pad];
                                p.extend_from_slice(chunk);
                                p.extend(std::iter::repeat_n(0u8, pad as usize));
                                self.conn.tx.extend_from_slice(&super::h2::frame(super::h2::DATA, super::h2::F_PADDED | if end_stream && last { super::h2::F_END_STREAM } else { 0 }, stream, &p));
                            }
                        }
                        h2.consume_send_window(stream, n + overhead);
                        self.h2_data_off += n;
                        progressed = true;
                        if last {
                            break;
                        }
                    }
                    self.conn.pump_write();
                    if self.h2_data_off == bytes.len() {
                        self.h2_data_off = 0;
                        self.pc += 1;
                    } else {
                        break;
                    }
                }
                Step::H2PadData(pad) => {
                    if let Some(h2) = self.h2.as_mut() {
                        h2.pad_data = pad;
                    }
                    self.pc += 1;
                    progressed = true;
                }
                Step::H2Raw(bytes) => {
                    self.conn.tx.extend_from_slice(&bytes);
                    self.conn.pump_write();
                    self.pc += 1;
                    progressed = true;
                }
                Step::H2Grant { stream, inc } => {
                    if let Some(h2) = self.h2.as_mut() {
                        if stream == 0 {
                            h2.conn_recv_window += inc as i64;
                        } else {
                            let init = h2.local_settings.get(&super::h2::S_INITIAL_WINDOW_SIZE).copied().unwrap_or(65535) as i64;
                            *h2.stream_recv_window.entry(stream).or_insert(init) += inc as i64;
                        }
                        self.conn.tx.extend_from_slice(&super::h2::window_update(stream, inc));
                        self.conn.pump_write();
                    }
                    self.pc += 1;
                    progressed = true;
                }
                Step::H2ShrinkWindow(w) => {
                    if let Some(h2) = self.h2.as_mut() {
                        let old = h2.local_settings.get(&super::h2::S_INITIAL_WINDOW_SIZE).copied().unwrap_or(65535) as i64;
                        h2.local_settings.insert(super::h2::S_INITIAL_WINDOW_SIZE, w);
                        for v in h2.stream_recv_window.values_mut() {
                            *v += w as i64 - old;
                        }
                        // in flight data sent before the peer saw the change is legal: the ledger
                        // only starts judging again once the peer acknowledged the new SETTINGS
                        h2.grace_until_settings_ack = true;
                        self.conn.tx.extend_from_slice(&super::h2::settings(&[(super::h2::S_INITIAL_WINDOW_SIZE, w)]));
                        self.conn.pump_write();
                    }
                    self.pc += 1;
                    progressed = true;
                }
                Step::H2Await(cond) => {
                    let over = self.conn.eof || self.conn.reset || self.conn.stream.is_none();
                    let ok = self.h2.as_ref().is_none_or(|h| match &cond {
                        H2Cond::PeerSettings => h.peer_settings_frames > 0,
                        H2Cond::SettingsAcked => h.our_settings_acked,
                        H2Cond::Headers(s) => h.streams.get(s).is_some_and(|st| !st.headers.is_empty() || st.rst.is_some()),
                        H2Cond::BodyAtLeast(s, n) => h.streams.get(s).is_some_and(|st| st.body.len() >= *n || st.done()),
                        H2Cond::StreamDone(s) => h.streams.get(s).is_some_and(|st| st.done()),
                        H2Cond::AllDone(v) => v.iter().all(|s| h.streams.get(s).is_some_and(|st| st.done())),
                        H2Cond::Goaway => h.goaway.is_some(),
                        H2Cond::PingAcks(n) => h.ping_acks >= *n,
                    });
                    if ok || over {
                        self.pc += 1;
                    } else {
                        break;
                    }
                }
                Step::H2Serve => {
                    // accept every connection; the first one lives in self.conn / self.h2
                    if let Some(l) = self.listener.as_ref() {
                        while let Ok((sock, from)) = l.accept() {
                            let mut ep = super::h2::Endpoint::new(false, super::h2::WindowPolicy::Eager);
                            let hello = ep.hello(&[(super::h2::S_MAX_CONCURRENT_STREAMS, 100)]);
                            let mut conn = Conn::new(sock);
                            conn.tx.extend_from_slice(&hello);
                            if self.h2.is_none() {
                                self.conn = conn;
                                self.accepted_from = Some(from);
                                self.h2 = Some(Box::new(ep));
                            } else {
                                self.h2_more.push(H2ServerConn { conn, h2: Box::new(ep), answered: Default::default(), pending: vec![] });
                            }
                            progressed = true;
                        }
                    }
                    if let Some(h2) = self.h2.as_mut() {
                        progressed |= h2_serve(&mut self.conn, h2, &mut self.h2_answered, &mut self.h2_pending, ctx.now_ns, 0);
                    }
                    for (ci, c) in self.h2_more.iter_mut().enumerate() {
                        progressed |= h2_serve(&mut c.conn, &mut c.h2, &mut c.answered, &mut c.pending, ctx.now_ns, ci + 1);
                    }
                    break;
                }
                Step::StartTls { sni, alpn } => {
                    let a: Vec<&str> = alpn.iter().map(|s| s.as_str()).collect();
                    if self.conn.stream.is_some() {
                        self.conn.start_tls(&sni, &a);
                        self.conn.pump_write();
                    }
                    self.pc += 1;
                    progressed = true;
                }
                Step::ExpectHandshake => {
                    if self.conn.handshaking() {
                        progressed |= self.conn.pump_write();
                        break;
                    }
                    self.pc += 1;
                }
                Step::ExpectEof => {
                    if self.conn.eof || self.conn.reset || self.conn.stream.is_none() {
                        self.pc += 1;
                    } else {
                        break;
                    }
                }
                Step::HalfClose => {
                    if !self.conn.tx.is_empty() {
                        break;
                    }
                    self.conn.half_close();
                    self.pc += 1;
                    progressed = true;
                }
                Step::Close => {
                    if !self.conn.tx.is_empty() && !self.conn.reset {
                        break;
                    }
                    self.conn.close();
                    self.pc += 1;
                    progressed = true;
                }
                Step::Reset => {
                    self.conn.reset_now();
                    self.pc += 1;
                    progressed = true;
                }
                Step::Wait { ms } => match self.wake_ns {
                    None => {
                        self.wake_ns = Some(ctx.now_ns + ms * 1_000_000);
                        break;
                    }
                    Some(t) if ctx.now_ns >= t => {
                        self.wake_ns = None;
                        self.pc += 1;
                        progressed = true;
                    }
                    Some(_) => break,
                },
                Step::ServeH1 { response_head, body } => {
                    if let Some(l) = self.listener.as_ref() {
                        while let Ok((s, from)) = l.accept() {
                            if self.conn.stream.is_none() && self.conn.rx.is_empty() && self.served.is_empty() {
                                self.conn = Conn::new(s);
                                self.accepted_from = Some(from);
                            } else {
                                self.more.push(Conn::new(s));
                            }
                            self.served.push(0);
                            progressed = true;
                        }
                    }
                    let now = ctx.now_ns;
                    let served = &mut self.served;
                    for (ci, c) in std::iter::once(&mut self.conn).chain(self.more.iter_mut()).enumerate() {
                        if ci >= served.len() {
                            break;
                        }
                        progressed |= c.pump_read(now);
                        let (msgs, _, _) = super::h1::parse_all(&c.rx, false, c.eof || c.reset);
                        while served[ci] < msgs.len() {
                            // `/slow/<ms>`: the answer ("slow") comes <ms> of virtual time after the request
                            if let Some(ms) = msgs[served[ci]].target().strip_prefix("/slow/").and_then(|n| n.parse::<u64>().ok()) {
                                if self.slow_until.len() <= ci {
                                    self.slow_until.resize(ci + 1, None);
                                }
                                match self.slow_until[ci] {
                                    None => {
                                        let t = now + ms * 1_000_000;
                                        self.slow_until[ci] = Some(t);
                                        self.wake_ns = Some(self.wake_ns.map_or(t, |w| w.min(t)));
                                        break;
                                    }
                                    Some(t) if now < t => {
                                        self.wake_ns = Some(self.wake_ns.filter(|w| *w > now).map_or(t, |w| w.min(t)));
                                        break;
                                    }
                                    Some(_) => {
                                        self.slow_until[ci] = None;
                                        let r = format!("{response_head}\r\nX-Seq: {ci}.{}\r\nContent-Length: 4\r\n\r\nslow", served[ci]).into_bytes();
                                        c.tx.extend_from_slice(&r);
                                        served[ci] += 1;
                                        progressed = true;
                                        continue;
                                    }
                                }
                            }
                            // `/die/<n>`: the first n bytes of a 1000-byte response, then the connection is closed
                            if let Some(n) = msgs[served[ci]].target().strip_prefix("/die/").and_then(|n| n.parse::<usize>().ok()) {
                                let full = format!("{response_head}\r\nContent-Length: 1000\r\n\r\n{}", "x".repeat(1000)).into_bytes();
                                c.tx.extend_from_slice(&full[..n.min(full.len())]);
                                served[ci] += 1;
                                c.pump_write();
                                c.close();
                                progressed = true;
                                continue;
                            }
                            // `/chunked/<n>/<k>`: an n-byte coded body in chunks of k bytes
                            let chunked_req = msgs[served[ci]].target().strip_prefix("/chunked/").and_then(|r| {
                                let mut it = r.split('/');
                                Some((it.next()?.parse::<usize>().ok()?, it.next()?.parse::<usize>().ok()?))
                            });
                            if let Some((n, k)) = chunked_req {
                                let body = super::h1::coded_body((n % 251) as u8, n);
                                let mut r = format!("{response_head}\r\nX-Seq: {ci}.{}\r\nTransfer-Encoding: chunked\r\n\r\n", served[ci]).into_bytes();
                                for piece in body.chunks(k.max(1)) {
                                    r.extend_from_slice(format!("{:x}\r\n", piece.len()).as_bytes());
                                    r.extend_from_slice(piece);
                                    r.extend_from_slice(b"\r\n");
                                }
                                r.extend_from_slice(b"0\r\n\r\n");
                                c.tx.extend_from_slice(&r);
                                served[ci] += 1;
                                progressed = true;
                                continue;
                            }
                            // `/size/<n>` asks for an n-byte coded body
                            let sized = msgs[served[ci]].target().strip_prefix("/size/").and_then(|n| n.parse::<usize>().ok()).map(|n| super::h1::coded_body((n % 251) as u8, n));
                            let body: &[u8] = sized.as_deref().unwrap_or(&body);
                            let mut r = format!("{response_head}\r\nX-Seq: {ci}.{}\r\nContent-Length: {}\r\n\r\n", served[ci], body.len()).into_bytes();
                            if msgs[served[ci]].method() != "HEAD" {
                                r.extend_from_slice(body);
                            }
                            c.tx.extend_from_slice(&r);
                            served[ci] += 1;
                            progressed = true;
                        }
                        progressed |= c.pump_write();
                    }
                    break;
                }
                Step::Stall | Step::Done => break,
            }
        }
        progressed
    }
}

pub fn bind_reuse(addr: SocketAddr) -> TcpListener {
    // std's TcpListener::bind sets SO_REUSEADDR on unix
    let mut last = None;
    for _ in 0..50 {
        match TcpListener::bind(addr) {
            Ok(l) => return l,
            Err(e) => {
                last = Some(e);
                std::thread::sleep(std::time::Duration::from_millis(2));
            }
        }
    }
    crate::common::machinery_error(&format!("cannot bind {addr}: {last:?}"))
}

/// blocking-style connect on loopback (completes within the syscall), from an
/// optional fixed source address
pub fn connect_from(to: SocketAddr, from: Option<SocketAddr>) -> std::io::Result<TcpStream> {
    match from {
        None => TcpStream::connect(to),
        Some(src) => {
            let domain = if to.is_ipv4() { libc::AF_INET } else { libc::AF_INET6 };
            let fd = unsafe { libc::socket(domain, libc::SOCK_STREAM | libc::SOCK_CLOEXEC, 0) };
            if fd < 0 {
                return Err(std::io::Error::last_os_error());
            }
            let one: libc::c_int = 1;
            unsafe {
                libc::setsockopt(fd, libc::SOL_SOCKET, libc::SO_REUSEADDR, &one as *const _ as *const libc::c_void, 4);
            }
            let s: TcpStream = unsafe { std::os::fd::FromRawFd::from_raw_fd(fd) };
            let (sa, sl) = to_sockaddr(src);
            if unsafe { libc::bind(fd, &sa as *const _ as *const libc::sockaddr, sl) } != 0 {
                return Err(std::io::Error::last_os_error());
            }
            let (da, dl) = to_sockaddr(to);
            if unsafe { libc::connect(fd, &da as *const _ as *const libc::sockaddr, dl) } != 0 {
                return Err(std::io::Error::last_os_error());
            }
            Ok(s)
        }
    }
}

fn to_sockaddr(a: SocketAddr) -> (libc::sockaddr_storage, libc::socklen_t) {
    let mut st: libc::sockaddr_storage = unsafe { std::mem::zeroed() };
    match a {
        SocketAddr::V4(v4) => {
            let sin = libc::sockaddr_in {
                sin_family: libc::AF_INET as u16,
                sin_port: v4.port().to_be(),
                sin_addr: libc::in_addr { s_addr: u32::from_ne_bytes(v4.ip().octets()) },
                sin_zero: [0; 8],
            };
            unsafe { std::ptr::write(&mut st as *mut _ as *mut libc::sockaddr_in, sin) };
            (st, std::mem::size_of::<libc::sockaddr_in>() as u32)
        }
        SocketAddr::V6(v6) => {
            let sin6 = libc::sockaddr_in6 {
                sin6_family: libc::AF_INET6 as u16,
                sin6_port: v6.port().to_be(),
                sin6_flowinfo: 0,
                sin6_addr: libc::in6_addr { s6_addr: v6.ip().octets() },
                sin6_scope_id: 0,
            };
            unsafe { std::ptr::write(&mut st as *mut _ as *mut libc::sockaddr_in6, sin6) };
            (st, std::mem::size_of::<libc::sockaddr_in6>() as u32)
        }
    }
}
