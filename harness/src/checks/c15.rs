//! C15(a) — the HTTP/2 frame decoder consumes exactly header + declared
//! payload or reports an error, for every input of a parameter lattice.
//! ENUM over the real `mux::parser::{frame_header, frame_body}` against a
//! reference decoder written from RFC 9113 §4 and §6.

use std::{collections::BTreeMap, sync::Mutex};

use serde_json::{Value, json};
use sozu_lib::protocol::mux::parser::{self, Frame, FrameType, H2Error, ParserErrorKind};

use crate::common::{Coverage, Ctx, guarded, ncpu, par_map};

const MAX_FRAME: u32 = 16384;

#[derive(Clone, Debug, PartialEq)]
enum Verdict {
    /// accepted; remaining input length after the frame
    Ok { rest: usize, summary: String },
    /// rejected with an H2 error code
    H2(u32),
    /// rejected / incomplete without an H2 code (needs more bytes)
    NeedMore,
}

fn h2code(e: &H2Error) -> u32 {
    *e as u32
}

fn implementation(input: &[u8]) -> Verdict {
    use nom::Err;
    let (rest, header) = match parser::frame_header(input, MAX_FRAME) {
        Ok(x) => x,
        Err(Err::Incomplete(_)) => return Verdict::NeedMore,
        Err(Err::Error(e)) | Err(Err::Failure(e)) => {
            return match e.kind {
                ParserErrorKind::H2(c) => Verdict::H2(h2code(&c)),
                ParserErrorKind::Nom(_) => Verdict::NeedMore,
            };
        }
    };
    match parser::frame_body(rest, &header) {
        Ok((after, frame)) => Verdict::Ok { rest: after.len(), summary: summarize(&frame, rest) },
        Err(Err::Incomplete(_)) => Verdict::NeedMore,
        Err(Err::Error(e)) | Err(Err::Failure(e)) => match e.kind {
            ParserErrorKind::H2(c) => Verdict::H2(h2code(&c)),
            ParserErrorKind::Nom(_) => Verdict::NeedMore,
        },
    }
}

fn summarize(f: &Frame, body: &[u8]) -> String {
    match f {
        Frame::Data(d) => format!("DATA sid={} es={} payload={:?}", d.stream_id, d.end_stream, d.payload.data(body)),
        Frame::Headers(h) => format!(
            "HEADERS sid={} es={} eh={} prio={} frag={:?}",
            h.stream_id,
            h.end_stream,
            h.end_headers,
            h.priority.is_some(),
            h.header_block_fragment.data(body)
        ),
        Frame::Priority(p) => format!("PRIORITY sid={}", p.stream_id),
        Frame::RstStream(r) => format!("RST sid={} code={}", r.stream_id, r.error_code),
        Frame::Settings(s) => format!("SETTINGS ack={} {:?}", s.ack, s.settings.iter().map(|x| (x.identifier, x.value)).collect::<Vec<_>>()),
        Frame::PushPromise(_) => "PUSH_PROMISE".into(),
        Frame::Ping(p) => format!("PING ack={} {:?}", p.ack, p.payload),
        Frame::GoAway(g) => format!("GOAWAY last={} code={} debug={}", g.last_stream_id, g.error_code, g.additional_debug_data.len()),
        Frame::WindowUpdate(w) => format!("WINDOW_UPDATE sid={} inc={}", w.stream_id, w.increment),
        Frame::Continuation(_) => "CONTINUATION".into(),
        Frame::PriorityUpdate(p) => format!("PRIORITY_UPDATE sid={} value={:?}", p.prioritized_stream_id, p.priority_field_value),
        Frame::Unknown(t) => format!("UNKNOWN {t}"),
    }
}

/// Reference decoder (RFC 9113 §4.1, §4.2, §6.1-§6.10, RFC 9218 §7.1).
fn reference(input: &[u8]) -> Verdict {
    if input.len() < 9 {
        return Verdict::NeedMore;
    }
    let len = ((input[0] as u32) << 16) | ((input[1] as u32) << 8) | input[2] as u32;
    let ty = input[3];
    let flags = input[4];
    let sid = u32::from_be_bytes([input[5], input[6], input[7], input[8]]) & 0x7fff_ffff;
    if len > MAX_FRAME {
        return Verdict::H2(6);
    }
    let sid_ok = match ty {
        0 | 1 | 2 | 3 | 5 | 9 => sid != 0,
        4 | 6 | 7 | 0x10 => sid == 0,
        _ => true,
    };
    if !sid_ok {
        return Verdict::H2(1);
    }
    let body = &input[9..];
    let l = len as usize;
    // fixed-size checks come before the payload is needed
    match ty {
        2 if l != 5 => return Verdict::H2(6),
        3 if l != 4 => return Verdict::H2(6),
        4 if (flags & 1 != 0 && l != 0) || l % 6 != 0 || l / 6 > 64 => return Verdict::H2(6),
        6 if l != 8 => return Verdict::H2(6),
        7 if l < 8 => return Verdict::H2(6),
        8 if l != 4 => return Verdict::H2(6),
        0x10 if l < 4 => return Verdict::H2(6),
        0x10 if l - 4 > 1024 => return Verdict::H2(1),
        _ => {}
    }
    if body.len() < l {
        return Verdict::NeedMore;
    }
    let p = &body[..l];
    let rest = body.len() - l;
    let ok = |s: String| Verdict::Ok { rest, summary: s };
    match ty {
        0 | 1 => {
            let mut q = p;
            let mut pad = 0usize;
            if flags & 0x8 != 0 {
                if q.is_empty() {
                    return Verdict::NeedMore; // pad length byte missing: frame cannot be decoded
                }
                pad = q[0] as usize;
                q = &q[1..];
                if pad > q.len() {
                    return Verdict::H2(1);
                }
            }
            let mut prio = false;
            if ty == 1 && flags & 0x20 != 0 {
                if q.len() < 5 {
                    return Verdict::NeedMore;
                }
                q = &q[5..];
                prio = true;
                if pad > q.len() {
                    return Verdict::H2(1);
                }
            }
            let content = &q[..q.len() - pad];
            if ty == 0 {
                ok(format!("DATA sid={sid} es={} payload={content:?}", flags & 1 != 0))
            } else {
                ok(format!("HEADERS sid={sid} es={} eh={} prio={prio} frag={content:?}", flags & 1 != 0, flags & 4 != 0))
            }
        }
        2 => ok(format!("PRIORITY sid={sid}")),
        3 => ok(format!("RST sid={sid} code={}", u32::from_be_bytes([p[0], p[1], p[2], p[3]]))),
        4 => {
            let s: Vec<(u16, u32)> = p.chunks(6).map(|c| (u16::from_be_bytes([c[0], c[1]]), u32::from_be_bytes([c[2], c[3], c[4], c[5]]))).collect();
            ok(format!("SETTINGS ack={} {s:?}", flags & 1 != 0))
        }
        5 => Verdict::H2(1),
        6 => ok(format!("PING ack={} {:?}", flags & 1 != 0, &p[..8])),
        7 => ok(format!(
            "GOAWAY last={} code={} debug={}",
            u32::from_be_bytes([p[0], p[1], p[2], p[3]]) & 0x7fff_ffff,
            u32::from_be_bytes([p[4], p[5], p[6], p[7]]),
            l - 8
        )),
        8 => ok(format!("WINDOW_UPDATE sid={sid} inc={}", u32::from_be_bytes([p[0], p[1], p[2], p[3]]) & 0x7fff_ffff)),
        9 => ok("CONTINUATION".into()),
        0x10 => ok(format!("PRIORITY_UPDATE sid={} value={:?}", u32::from_be_bytes([p[0], p[1], p[2], p[3]]) & 0x7fff_ffff, &p[4..])),
        t => ok(format!("UNKNOWN {t}")),
    }
}

fn type_name(t: u8) -> &'static str {
    match t {
        0 => "DATA",
        1 => "HEADERS",
        2 => "PRIORITY",
        3 => "RST_STREAM",
        4 => "SETTINGS",
        5 => "PUSH_PROMISE",
        6 => "PING",
        7 => "GOAWAY",
        8 => "WINDOW_UPDATE",
        9 => "CONTINUATION",
        0x10 => "PRIORITY_UPDATE",
        _ => "UNKNOWN",
    }
}

pub fn run_a(ctx: &Ctx) -> Coverage {
    let types: Vec<u8> = (0..=0x11).chain([0xff]).collect();
    let flag_sets: Vec<u8> = {
        let mut v: Vec<u8> = (0..16u8).map(|m| (m & 1) | ((m & 2) << 1) | ((m & 4) << 1) | ((m & 8) << 2)).collect();
        v.push(0xff);
        v.push(0x40);
        v
    };
    let sids: [u32; 6] = [0, 1, 2, 3, 0x7fff_ffff, 0x8000_0001];
    let lens: Vec<u32> = (0..=20).chain([30, 36, 384, 390, 1028, 1029, 16383, 16384, 16385, 0xff_ffff]).collect();
    let outcomes: Mutex<BTreeMap<String, u64>> = Mutex::new(BTreeMap::new());
    let counts = par_map(&types, ncpu(), |_, &ty| {
        let mut n = 0u64;
        let mut local: BTreeMap<String, u64> = BTreeMap::new();
        for &flags in &flag_sets {
            for &sid in &sids {
                for &len in &lens {
                    // payload shapes: number of bytes really present after the header
                    let l = len.min(20000) as usize;
                    let mut avail_set = vec![l, l + 3];
                    if l > 0 {
                        avail_set.push(l - 1);
                        avail_set.push(0);
                    }
                    for avail in avail_set {
                        for pad in [0u8, 1, l.saturating_sub(2) as u8, l.saturating_sub(1) as u8, l as u8, 255] {
                            let mut input = vec![(len >> 16) as u8, (len >> 8) as u8, len as u8, ty, flags];
                            input.extend_from_slice(&sid.to_be_bytes());
                            for i in 0..avail {
                                input.push(if i == 0 { pad } else { (i * 7 + 3) as u8 });
                            }
                            n += 1;
                            let want = reference(&input);
                            let got = guarded(|| implementation(&input));
                            let case = || json!({"part": "a", "frame": type_name(ty), "type": ty, "flags": flags, "stream_id": sid, "declared_len": len, "available": avail, "first_payload_byte": pad});
                            let w = (len as u64).min(100) * 10 + avail as u64 % 10;
                            match got {
                                Err(p) => ctx.violation_w(format!("C15|decoder-panic:{}", type_name(ty)), format!("frame decoder panicked: {p}"), case(), w),
                                Ok(got) => {
                                    let oc = match &got {
                                        Verdict::Ok { .. } => "accepted".to_owned(),
                                        Verdict::H2(c) => format!("h2-error-{c}"),
                                        Verdict::NeedMore => "incomplete".to_owned(),
                                    };
                                    *local.entry(format!("{}:{oc}", type_name(ty))).or_insert(0) += 1;
                                    if got != want {
                                        let class = match (&got, &want) {
                                            (Verdict::Ok { rest: a, .. }, Verdict::Ok { rest: b, .. }) if a != b => "consumed-wrong-length",
                                            (Verdict::Ok { .. }, Verdict::Ok { .. }) => "decoded-wrong-content",
                                            (Verdict::Ok { .. }, _) => "accepted-invalid",
                                            (_, Verdict::Ok { .. }) => "rejected-valid",
                                            (Verdict::H2(_), Verdict::H2(_)) => "wrong-error-code",
                                            (Verdict::H2(_), Verdict::NeedMore) => "error-on-incomplete",
                                            _ => "incomplete-on-error",
                                        };
                                        ctx.violation_w(
                                            format!("C15|{class}:{}", type_name(ty)),
                                            format!("decoder says {got:?}, RFC 9113 reference says {want:?}"),
                                            case(),
                                            w,
                                        );
                                    }
                                }
                            }
                        }
                    }
                }
            }
        }
        let mut g = outcomes.lock().unwrap();
        for (k, v) in local {
            *g.entry(k).or_insert(0) += v;
        }
        n
    });
    let n: u64 = counts.iter().sum();
    let oc = outcomes.lock().unwrap().clone();
    ctx.sample(json!({"part": "a", "frame": "HEADERS", "flags": 0x28, "stream_id": 1, "declared_len": 6, "available": 6, "first_payload_byte": 0}));
    Coverage {
        states: n,
        transitions: n,
        evaluations: n,
        distinct_nontrivial: oc.len() as u64,
        distinct_outcomes: oc.len() as u64,
        rule: "every frame of the lattice type 0..=0x11,0xff x 18 flag bytes x 6 stream ids (incl. reserved bit) x 31 declared lengths (0..20, settings/priority-update/max-frame boundaries, 2^24-1) x payload present {exact, +3, -1, none} x first payload byte (pad length) in {0, 1, len-2, len-1, len, 255}, decoded by frame_header + frame_body with max frame size 16384 and compared with a reference decoder on accept / reject class, error code, consumed length and decoded content".into(),
        exhaustive: true,
        bound: json!({"types": types.len(), "flags": flag_sets.len(), "stream_ids": sids.len(), "lengths": lens.len()}),
        extra: json!({"decoder_outcomes": oc}),
        assumptions: vec!["stateless decoder only: stream-state dependent rules (RFC 9113 §5, §6 per-state errors, floods) are the SIM part of C15".into()],
        ..Default::default()
    }
}

pub fn run(ctx: &Ctx) -> Coverage {
    if std::env::var("VERIF_SHARD").is_ok() {
        // shard child: only the SIM part is sharded
        super::c15b::run(ctx);
        unreachable!();
    }
    let mut cov = Coverage::aggregate();
    cov.absorb("a-frame-decoder", run_a(ctx));
    cov.absorb("b-live-connection", super::c15b::run(ctx));
    cov
}

pub fn replay(ctx: &Ctx, case: &Value) -> Coverage {
    if case["part"] == "b" {
        return super::c15b::replay_case(ctx, case);
    }
    let len = case["declared_len"].as_u64().unwrap_or(0) as u32;
    let mut input = vec![(len >> 16) as u8, (len >> 8) as u8, len as u8, case["type"].as_u64().unwrap_or(0) as u8, case["flags"].as_u64().unwrap_or(0) as u8];
    input.extend_from_slice(&(case["stream_id"].as_u64().unwrap_or(0) as u32).to_be_bytes());
    let avail = case["available"].as_u64().unwrap_or(0) as usize;
    let pad = case["first_payload_byte"].as_u64().unwrap_or(0) as u8;
    for i in 0..avail {
        input.push(if i == 0 { pad } else { (i * 7 + 3) as u8 });
    }
    let want = reference(&input);
    match guarded(|| implementation(&input)) {
        Err(p) => ctx.violation("C15|decoder-panic", p, case.clone()),
        Ok(got) => {
            if got != want {
                ctx.violation("C15|replayed-mismatch", format!("decoder says {got:?}, reference says {want:?}"), case.clone());
            }
        }
    }
    Coverage { states: 1, transitions: 1, evaluations: 1, distinct_nontrivial: 1, distinct_outcomes: 1, rule: "replay".into(), ..Default::default() }
}
