//! C11 — command channels deliver every message once, intact, within memory
//! bounds. Bounded-exhaustive enumeration on the real `Channel` over a real
//! unix socket pair with tiny buffers (24 initial / 96 max) so that every
//! shift / grow / shrink threshold is within reach of short messages.

use std::{
    collections::BTreeMap,
    io::{Read, Write},
    sync::atomic::{AtomicU64, Ordering},
};

use mio::net::UnixStream;
use serde_json::{Value, json};
use sozu_command_lib::{
    channel::Channel, proto::command::QueryCertificatesFilters as Msg, ready::Ready,
};

use crate::common::{Coverage, Ctx, guarded, machinery_error, ncpu, par_map};

const BUF: u64 = 24;
const MAX: u64 = 96;

/// message whose protobuf encoding is exactly `payload` bytes (0 or 2..=129)
fn msg(payload: usize, tag: u8) -> Msg {
    if payload == 0 {
        Msg { domain: None, fingerprint: None }
    } else {
        assert!((2..=129).contains(&payload));
        let mut s = String::new();
        for i in 0..payload - 2 {
            s.push((b'a' + ((i as u8 + tag) % 26)) as char);
        }
        Msg { domain: Some(s), fingerprint: None }
    }
}

fn frame(m: &Msg) -> Vec<u8> {
    use prost::Message;
    let p = m.encode_to_vec();
    let mut v = (p.len() + 8).to_le_bytes().to_vec();
    v.extend_from_slice(&p);
    v
}

#[derive(Clone, Copy, Debug, PartialEq, Eq, serde::Serialize, serde::Deserialize)]
enum Driver {
    /// lib/src/server.rs read_channel_messages_and_notify
    Worker,
    /// bin/src/command/sessions.rs extract_messages
    Main,
}

struct Outcome {
    got: Vec<Msg>,
    max_capacity: usize,
    livelock: bool,
    terminal: bool,
    /// where undelivered bytes sit once the reader is quiescent
    stuck: &'static str,
}

fn drive(ch: &mut Channel<Msg, Msg>, d: Driver, out: &mut Outcome) {
    ch.handle_events(Ready::READABLE);
    let mut guard = 0;
    match d {
        Driver::Worker => {
            // Server::run, Token(0) arm: loop while readiness & interest is
            // non-empty, each turn running read_channel_messages_and_notify
            'outer: loop {
                if ch.readiness() == Ready::EMPTY {
                    break;
                }
                if !ch.readiness().is_readable() {
                    break;
                }
                let _ = ch.readable();
                loop {
                    guard += 1;
                    if guard > 5000 {
                        out.livelock = true;
                        break 'outer;
                    }
                    out.max_capacity = out.max_capacity.max(ch.front_buf.capacity());
                    match ch.read_message() {
                        Ok(m) => out.got.push(m),
                        Err(_) => {
                            if (ch.interest & ch.readiness).is_readable() {
                                let _ = ch.readable();
                                continue;
                            }
                            break;
                        }
                    }
                }
            }
        }
        Driver::Main => {
            // the real loop of the main process (ClientSession / WorkerSession)
            let before = ch.front_buf.capacity();
            let msgs = sozu::command::sessions::extract_messages(ch);
            out.max_capacity = out.max_capacity.max(before);
            out.got.extend(msgs);
        }
    }
    out.max_capacity = out.max_capacity.max(ch.front_buf.capacity());
    out.terminal = ch.readiness.is_hup() || ch.readiness.is_error();
    let mut unread: libc::c_int = 0;
    unsafe { libc::ioctl(std::os::fd::AsRawFd::as_raw_fd(&ch.sock), libc::FIONREAD, &mut unread) };
    out.stuck = if !ch.interest.is_readable() {
        "read-interest-dropped"
    } else if unread > 0 {
        "bytes-left-in-socket-without-pending-event"
    } else if ch.front_buf.available_data() > 0 {
        "complete-frame-left-in-buffer"
    } else {
        "bytes-lost"
    };
}

/// feed `chunks` to a fresh channel, driving the reader after each chunk
fn feed(chunks: &[&[u8]], d: Driver) -> Outcome {
    let (a, mut b) = UnixStream::pair().unwrap_or_else(|e| machinery_error(&format!("socketpair: {e}")));
    let mut ch: Channel<Msg, Msg> = Channel::new(a, BUF, MAX);
    let mut out = Outcome { got: vec![], max_capacity: 0, livelock: false, terminal: false, stuck: "" };
    for c in chunks {
        if !c.is_empty() {
            b.write_all(c).unwrap_or_else(|e| machinery_error(&format!("peer write: {e}")));
        }
        drive(&mut ch, d, &mut out);
    }
    out
}

fn check_delivery(ctx: &Ctx, sizes: &[usize], cuts: &[usize], d: Driver, stream: &[u8], msgs: &[Msg]) -> bool {
    let mut chunks: Vec<&[u8]> = vec![];
    let mut prev = 0;
    for &c in cuts {
        chunks.push(&stream[prev..c]);
        prev = c;
    }
    chunks.push(&stream[prev..]);
    let case = || json!({"part": "a", "frame_sizes": sizes, "cuts": cuts, "driver": d});
    let w = (sizes.len() * 1000 + cuts.len() * 100) as u64 + sizes.iter().sum::<usize>() as u64;
    match guarded(|| feed(&chunks, d)) {
        Err(p) => {
            ctx.violation_w(format!("C11|reader-panic:{d:?}"), format!("channel panicked: {p}"), case(), w);
            false
        }
        Ok(o) => {
            let mut ok = true;
            if o.livelock {
                ctx.violation_w(format!("C11|reader-livelock:{d:?}"), "read loop did not terminate".to_string(), case(), w);
                ok = false;
            }
            if o.max_capacity > MAX as usize {
                ctx.violation_w("C11|capacity-exceeded", format!("front buffer reached {} > max {}", o.max_capacity, MAX), case(), w);
                ok = false;
            }
            if o.got != msgs {
                let kind = if o.got.len() < msgs.len() && o.got[..] == msgs[..o.got.len()] {
                    format!("message-not-delivered:{d:?}:{}", o.stuck)
                } else if o.got.len() > msgs.len() {
                    format!("message-duplicated:{d:?}")
                } else {
                    format!("message-corrupted:{d:?}")
                };
                ctx.violation_w(
                    format!("C11|{kind}"),
                    format!("sent {} messages (frames {:?}), channel delivered {} after all bytes were available", msgs.len(), sizes, o.got.len()),
                    case(),
                    w,
                );
                ok = false;
            }
            ok
        }
    }
}

fn part_a(ctx: &Ctx) -> Coverage {
    // frame sizes (8-byte prefix included); payload = size - 8 must be 0 or >= 2
    let sizes_full: Vec<usize> = vec![8, 10, 15, 16, 17, 23, 24, 25, 47, 48, 49, 88, 95, 96];
    let sizes_small: Vec<usize> = vec![8, 16, 24, 25, 48, 96];
    let thorough = ctx.tier() == crate::common::Tier::Thorough;
    let mut seqs: Vec<Vec<usize>> = vec![];
    for &a in &sizes_full {
        seqs.push(vec![a]);
        for &b in &sizes_full {
            seqs.push(vec![a, b]);
        }
    }
    for &a in &sizes_small {
        for &b in &sizes_small {
            for &c in &sizes_small {
                seqs.push(vec![a, b, c]);
            }
        }
    }
    let evals = AtomicU64::new(0);
    let passed = AtomicU64::new(0);
    par_map(&seqs, ncpu(), |_, sizes| {
        let msgs: Vec<Msg> = sizes.iter().enumerate().map(|(i, s)| msg(s - 8, i as u8 * 7)).collect();
        let mut stream = vec![];
        for m in &msgs {
            stream.extend_from_slice(&frame(m));
        }
        let len = stream.len();
        for d in [Driver::Worker, Driver::Main] {
            // no cut, every single cut, every pair of cuts
            let mut run = |cuts: &[usize]| {
                evals.fetch_add(1, Ordering::Relaxed);
                if check_delivery(ctx, sizes, cuts, d, &stream, &msgs) {
                    passed.fetch_add(1, Ordering::Relaxed);
                }
            };
            run(&[]);
            for i in 1..len {
                run(&[i]);
            }
            let pairs = sizes.len() <= 2 || thorough;
            if pairs {
                for i in 1..len {
                    for j in i + 1..len {
                        run(&[i, j]);
                    }
                }
            } else {
                // 3-message sequences, quick tier: pairs of cuts on frame
                // boundaries +-1 only
                let mut marks = vec![];
                let mut off = 0;
                for s in sizes {
                    for m in [off + 1, off + 7, off + 8, off + 9, off + s - 1, off + s] {
                        if m > 0 && m < len && !marks.contains(&m) {
                            marks.push(m);
                        }
                    }
                    off += s;
                }
                marks.sort();
                for (x, &i) in marks.iter().enumerate() {
                    for &j in &marks[x + 1..] {
                        run(&[i, j]);
                    }
                }
            }
        }
    });
    ctx.sample(json!({"part": "a", "frame_sizes": [24, 25, 96], "cuts": [23, 50], "driver": "Worker"}));
    let e = evals.load(Ordering::Relaxed);
    Coverage {
        states: seqs.len() as u64,
        transitions: e,
        evaluations: e,
        distinct_nontrivial: seqs.len() as u64,
        distinct_outcomes: passed.load(Ordering::Relaxed).min(e),
        rule: "message sequences of length 1-3 with frame sizes straddling the 24-byte initial buffer, its doubling steps and the 96-byte maximum; the byte stream is cut at every position and every pair of positions (3-message sequences in the quick tier: pairs restricted to frame/prefix boundaries +-1) and fed to the real Channel, driven after each chunk by the worker's and by the main process's read loops".into(),
        exhaustive: true,
        bound: json!({"buffer_size": BUF, "max_buffer_size": MAX, "sequences": seqs.len()}),
        ..Default::default()
    }
}

// ------------------------------------------------------------------ (c) malformed

fn part_c(ctx: &Ctx) -> Coverage {
    let follow = msg(10, 3);
    let follow_frame = frame(&follow);
    // a second valid message sent later: "not permanently wedged" means it
    // (and the first one before it) is eventually delivered
    let later = msg(12, 9);
    let later_frame = frame(&later);
    let lens: Vec<u64> = vec![0, 1, 2, 3, 4, 5, 6, 7, 8, 9, 10, 24, 25, 96, 97, 1 << 20, 1 << 63, u64::MAX];
    let mut evals = 0u64;
    let mut outcomes: BTreeMap<String, u64> = BTreeMap::new();
    for &l in &lens {
        for payload_kind in ["undecodable", "valid"] {
            for d in [Driver::Worker, Driver::Main] {
                for split in [false, true] {
                    // build the bad frame
                    let mut bytes = l.to_le_bytes().to_vec();
                    let body_len = if (8..=MAX).contains(&l) { (l - 8) as usize } else { 0 };
                    let body: Vec<u8> = if payload_kind == "valid" {
                        if body_len == 1 {
                            continue;
                        }
                        let m = msg(body_len, 1);
                        use prost::Message;
                        m.encode_to_vec()
                    } else {
                        if body_len == 0 {
                            if payload_kind == "undecodable" && (8..=MAX).contains(&l) {
                                continue; // an empty payload always decodes
                            }
                            vec![]
                        } else {
                            // field 1, length-delimited, declared longer than what follows
                            let mut v = vec![0x0a, 0x7f];
                            v.resize(body_len, 0xff);
                            v.truncate(body_len);
                            if body_len == 1 {
                                vec![0x0a]
                            } else {
                                v
                            }
                        }
                    };
                    if payload_kind == "valid" && !(8..=MAX).contains(&l) {
                        continue;
                    }
                    bytes.extend_from_slice(&body);
                    evals += 1;
                    let chunks: Vec<Vec<u8>> = if split {
                        vec![bytes.clone(), follow_frame.clone(), later_frame.clone()]
                    } else {
                        let mut all = bytes.clone();
                        all.extend_from_slice(&follow_frame);
                        vec![all, later_frame.clone()]
                    };
                    let refs: Vec<&[u8]> = chunks.iter().map(|c| c.as_slice()).collect();
                    let case = json!({"part": "c", "declared_len": l.to_string(), "payload": payload_kind, "driver": d, "split": split});
                    let w = lens.iter().position(|x| *x == l).unwrap() as u64 * 10 + split as u64;
                    match guarded(|| feed(&refs, d)) {
                        Err(p) => ctx.violation_w(format!("C11|malformed-panic:{}", class(l)), format!("channel panicked: {p}"), case, w),
                        Ok(o) => {
                            let n = o.got.len();
                            let delivered_follow = n >= 2 && o.got[n - 2] == follow && o.got[n - 1] == later;
                            let oc = format!("{}:{}:{}", class(l), payload_kind, if delivered_follow { "next-delivered" } else if o.terminal { "terminal" } else { "wedged" });
                            *outcomes.entry(oc).or_insert(0) += 1;
                            if o.livelock {
                                ctx.violation_w(format!("C11|malformed-livelock:{}", class(l)), "read loop did not terminate".to_string(), case.clone(), w);
                            }
                            if o.max_capacity > MAX as usize {
                                ctx.violation_w("C11|capacity-exceeded", format!("front buffer reached {}", o.max_capacity), case.clone(), w);
                            }
                            if payload_kind == "valid" {
                                if o.got.len() != 3 || !delivered_follow {
                                    ctx.violation_w(format!("C11|valid-frame-not-delivered:{}", class(l)), format!("delivered {} of 3 messages", o.got.len()), case.clone(), w);
                                }
                            } else if !delivered_follow && !o.terminal {
                                ctx.violation_w(
                                    format!("C11|wedged-after-bad-frame:{}", class(l)),
                                    format!("after a frame with declared length {l} ({payload_kind} payload) the channel neither delivers the valid messages that follow (one coalesced or adjacent, one sent later) nor reports HUP/ERROR"),
                                    case.clone(),
                                    w,
                                );
                            }
                            if payload_kind == "undecodable" && o.got.len() > 2 {
                                ctx.violation_w("C11|bad-frame-delivered", "an undecodable frame produced a message".to_string(), case, w);
                            }
                        }
                    }
                }
            }
        }
    }
    ctx.sample(json!({"part": "c", "declared_len": "9", "payload": "undecodable", "driver": "Worker", "split": true}));
    Coverage {
        states: evals,
        transitions: evals,
        evaluations: evals,
        distinct_nontrivial: outcomes.len() as u64,
        distinct_outcomes: outcomes.len() as u64,
        rule: "malformed frames: declared length in {0..10, 24, 25, max, max+1, 2^20, 2^63, u64::MAX} x {undecodable, valid} payload x 2 read loops x {coalesced with, separated from} a following valid message".into(),
        exhaustive: true,
        bound: json!({"declared_lengths": lens.len()}),
        extra: json!({"malformed_outcomes": outcomes}),
        ..Default::default()
    }
}

fn class(l: u64) -> &'static str {
    if l < 8 {
        "below-prefix"
    } else if l <= MAX {
        "in-range"
    } else {
        "above-max"
    }
}

// ------------------------------------------------------------------ (b) writer

/// write `sizes` messages through the real writer with the peer reading in
/// scripted bursts; checks order/integrity and the back-buffer ceiling.
fn part_b(ctx: &Ctx) -> Coverage {
    let sizes_set: Vec<usize> = vec![8, 16, 24, 25, 48, 88];
    let mut seqs: Vec<Vec<usize>> = vec![];
    for &a in &sizes_set {
        seqs.push(vec![a]);
        for &b in &sizes_set {
            seqs.push(vec![a, b]);
            for &c in &sizes_set {
                seqs.push(vec![a, b, c]);
            }
        }
    }
    let evals = AtomicU64::new(0);
    par_map(&seqs, ncpu(), |_, sizes| {
        let msgs: Vec<Msg> = sizes.iter().enumerate().map(|(i, s)| msg(s - 8, i as u8 * 5)).collect();
        // flush schedule: after which writes `writable()` is driven (bitmask)
        for mask in 0..(1u32 << sizes.len()) {
            evals.fetch_add(1, Ordering::Relaxed);
            let case = json!({"part": "b", "frame_sizes": sizes, "flush_mask": mask});
            let r = guarded(|| {
                let (a, mut b) = UnixStream::pair().unwrap();
                let mut ch: Channel<Msg, Msg> = Channel::new(a, BUF, MAX);
                let mut accepted = vec![];
                let mut maxcap = 0;
                for (i, m) in msgs.iter().enumerate() {
                    match ch.write_message(m) {
                        Ok(()) => accepted.push(m.clone()),
                        Err(_) => {}
                    }
                    maxcap = maxcap.max(ch.back_buf.capacity());
                    if mask & (1 << i) != 0 {
                        ch.handle_events(Ready::WRITABLE);
                        let _ = ch.writable();
                    }
                }
                ch.handle_events(Ready::WRITABLE);
                let _ = ch.writable();
                maxcap = maxcap.max(ch.back_buf.capacity());
                let mut bytes = vec![];
                let mut buf = [0u8; 4096];
                loop {
                    match b.read(&mut buf) {
                        Ok(0) => break,
                        Ok(n) => bytes.extend_from_slice(&buf[..n]),
                        Err(_) => break,
                    }
                }
                (accepted, bytes, maxcap, ch.back_buf.capacity())
            });
            match r {
                Err(p) => ctx.violation_w("C11|writer-panic", format!("channel panicked: {p}"), case, sizes.len() as u64),
                Ok((accepted, bytes, maxcap, endcap)) => {
                    let mut want = vec![];
                    for m in &accepted {
                        want.extend_from_slice(&frame(m));
                    }
                    if bytes != want {
                        ctx.violation_w("C11|writer-stream-mismatch", format!("peer received {} bytes, expected the {} bytes of the {} accepted messages", bytes.len(), want.len(), accepted.len()), case.clone(), sizes.len() as u64);
                    }
                    if maxcap > MAX as usize {
                        ctx.violation_w("C11|capacity-exceeded", format!("back buffer reached {maxcap}"), case.clone(), sizes.len() as u64);
                    }
                    // a message that fits under the ceiling on an empty buffer must be accepted
                    if mask == (1u32 << sizes.len()) - 1 && accepted.len() != msgs.len() {
                        ctx.violation_w("C11|writer-refused-fitting-message", format!("with a flush after every message only {} of {} messages were accepted", accepted.len(), msgs.len()), case.clone(), sizes.len() as u64);
                    }
                    if endcap > BUF as usize && endcap > MAX as usize {
                        ctx.violation_w("C11|capacity-exceeded", format!("back buffer left at {endcap}"), case, sizes.len() as u64);
                    }
                }
            }
        }
    });
    ctx.sample(json!({"part": "b", "frame_sizes": [24, 88, 16], "flush_mask": 2}));
    let e = evals.load(Ordering::Relaxed);
    Coverage {
        states: seqs.len() as u64,
        transitions: e,
        evaluations: e,
        distinct_nontrivial: seqs.len() as u64,
        distinct_outcomes: seqs.len() as u64,
        rule: "writer: sequences of 1-3 messages x every subset of 'flush after this write' points through write_message/writable; the bytes the peer receives must be exactly the frames of the accepted messages in order; back buffer never above the maximum".into(),
        exhaustive: true,
        bound: json!({"sequences": seqs.len()}),
        ..Default::default()
    }
}

pub fn run(ctx: &Ctx) -> Coverage {
    let mut cov = Coverage::aggregate();
    cov.absorb("a-framing", part_a(ctx));
    cov.absorb("b-writer", part_b(ctx));
    cov.absorb("c-malformed", part_c(ctx));
    cov.assumptions = vec![
        "buffer_size 24 / max_buffer_size 96: thresholds are relative (doubling, quarter-full shrink), so small absolute sizes exercise the same code paths as the production 1 MB / 2 MB".into(),
        "would-block at arbitrary offsets inside a single write syscall (short writes) is explored by the SIM part; here the kernel socket buffer never pushes back".into(),
        "a lying length prefix that is in range but longer than the real payload swallows following bytes by construction of length-prefixed framing; that is not counted as a violation".into(),
    ];
    cov
}

pub fn replay(ctx: &Ctx, case: &Value) -> Coverage {
    match case["part"].as_str() {
        Some("a") => {
            let sizes: Vec<usize> = serde_json::from_value(case["frame_sizes"].clone()).unwrap_or_default();
            let cuts: Vec<usize> = serde_json::from_value(case["cuts"].clone()).unwrap_or_default();
            let d: Driver = serde_json::from_value(case["driver"].clone()).unwrap_or(Driver::Worker);
            let msgs: Vec<Msg> = sizes.iter().enumerate().map(|(i, s)| msg(s - 8, i as u8 * 7)).collect();
            let mut stream = vec![];
            for m in &msgs {
                stream.extend_from_slice(&frame(m));
            }
            check_delivery(ctx, &sizes, &cuts, d, &stream, &msgs);
        }
        _ => {
            // parts b and c are tiny: rerun them whole
            part_b(ctx);
            part_c(ctx);
        }
    }
    Coverage { states: 1, transitions: 1, evaluations: 1, distinct_nontrivial: 1, distinct_outcomes: 1, rule: "replay".into(), ..Default::default() }
}
