//! C03 — client and backend always agree on request boundaries (no smuggling).
//! HTTP/1.1 frontend, HTTP/1.1 backend. A lattice of framing / syntax mutations
//! of valid requests (every known smuggling shape that can be spelled in
//! HTTP/1.1), each followed by a marker request, goes through an unmodified
//! worker at every explored segmentation; the backend is an independent strict
//! RFC 9112 reader that answers every request it finds.

use std::collections::BTreeMap;

use serde_json::{Value, json};

use crate::{
    common::{Coverage, Ctx, Tier},
    sim::{
        ChoiceProfile, End, FdClass,
        explore::{self, ItemResult, Run},
        h1, scen,
        peer::{Peer, Step},
        worker::{self, MainStep, WorkerSetup},
    },
};

#[derive(Clone, Debug, serde::Serialize, serde::Deserialize)]
pub struct Case {
    pub family: String,
    pub name: String,
    #[serde(with = "hexbytes")]
    pub bytes: Vec<u8>,
}

mod hexbytes {
    use serde::{Deserialize, Deserializer, Serializer};
    pub fn serialize<S: Serializer>(v: &Vec<u8>, s: S) -> Result<S::Ok, S::Error> {
        // readable: printable ASCII kept, the rest as \xNN
        let mut out = String::new();
        for &b in v {
            match b {
                b'\\' => out.push_str("\\\\"),
                0x20..=0x7e => out.push(b as char),
                _ => out.push_str(&format!("\\x{b:02x}")),
            }
        }
        s.serialize_str(&out)
    }
    pub fn deserialize<'de, D: Deserializer<'de>>(d: D) -> Result<Vec<u8>, D::Error> {
        let s = String::deserialize(d)?;
        let b = s.as_bytes();
        let mut out = vec![];
        let mut i = 0;
        while i < b.len() {
            if b[i] == b'\\' && i + 1 < b.len() && b[i + 1] == b'\\' {
                out.push(b'\\');
                i += 2;
            } else if b[i] == b'\\' && i + 3 < b.len() && b[i + 1] == b'x' {
                out.push(u8::from_str_radix(&s[i + 2..i + 4], 16).unwrap_or(b'?'));
                i += 4;
            } else {
                out.push(b[i]);
                i += 1;
            }
        }
        Ok(out)
    }
}

const AFTER: &[u8] = b"GET /after HTTP/1.1\r\nHost: a.io\r\n\r\n";
const SMUGGLED: &[u8] = b"GET /smuggled HTTP/1.1\r\nHost: a.io\r\nX-S: 1\r\n\r\n";

fn cat(parts: &[&[u8]]) -> Vec<u8> {
    parts.concat()
}

/// request with raw header lines (each given WITHOUT its terminator; `\r\n` is added)
fn raw(line: &str, headers: &[&[u8]], body: &[u8]) -> Vec<u8> {
    let mut v = line.as_bytes().to_vec();
    v.extend_from_slice(b"\r\n");
    for h in headers {
        v.extend_from_slice(h);
        v.extend_from_slice(b"\r\n");
    }
    v.extend_from_slice(b"\r\n");
    v.extend_from_slice(body);
    v
}

fn chunked(payload: &[u8]) -> Vec<u8> {
    let mut v = format!("{:x}\r\n", payload.len()).into_bytes();
    v.extend_from_slice(payload);
    v.extend_from_slice(b"\r\n0\r\n\r\n");
    v
}

pub fn cases(_tier: Tier) -> Vec<Case> {
    let mut v: Vec<Case> = vec![];
    let mut add = |family: &str, name: String, bytes: Vec<u8>| v.push(Case { family: family.into(), name, bytes });
    let host: &[u8] = b"Host: a.io";

    // ---- A. request line
    let lines: Vec<(&str, Vec<u8>)> = vec![
        ("baseline", b"GET /a HTTP/1.1".to_vec()),
        ("two-spaces-after-method", b"GET  /a HTTP/1.1".to_vec()),
        ("tab-after-method", b"GET\t/a HTTP/1.1".to_vec()),
        ("two-spaces-before-version", b"GET /a  HTTP/1.1".to_vec()),
        ("leading-space", b" GET /a HTTP/1.1".to_vec()),
        ("trailing-space", b"GET /a HTTP/1.1 ".to_vec()),
        ("http-1.0", b"GET /a HTTP/1.0".to_vec()),
        ("http-1.2", b"GET /a HTTP/1.2".to_vec()),
        ("http-2.0", b"GET /a HTTP/2.0".to_vec()),
        ("http-0.9", b"GET /a HTTP/0.9".to_vec()),
        ("no-version", b"GET /a".to_vec()),
        ("lowercase-version", b"GET /a http/1.1".to_vec()),
        ("space-in-target", b"GET /a b HTTP/1.1".to_vec()),
        ("nul-in-target", b"GET /a\x00b HTTP/1.1".to_vec()),
        ("cr-in-target", b"GET /a\rb HTTP/1.1".to_vec()),
        ("del-in-target", b"GET /a\x7fb HTTP/1.1".to_vec()),
        ("8bit-in-target", b"GET /a\xffb HTTP/1.1".to_vec()),
        ("lowercase-method", b"get /a HTTP/1.1".to_vec()),
        ("method-with-ctl", b"G\x01T /a HTTP/1.1".to_vec()),
        ("method-with-colon", b"GE:T /a HTTP/1.1".to_vec()),
        ("absolute-form-same-host", b"GET http://a.io/a HTTP/1.1".to_vec()),
        ("absolute-form-other-host", b"GET http://b.io/a HTTP/1.1".to_vec()),
        ("absolute-form-userinfo", b"GET http://b.io@a.io/a HTTP/1.1".to_vec()),
        ("asterisk-get", b"GET * HTTP/1.1".to_vec()),
        ("asterisk-options", b"OPTIONS * HTTP/1.1".to_vec()),
        ("connect", b"CONNECT a.io:80 HTTP/1.1".to_vec()),
        ("fragment", b"GET /a#frag HTTP/1.1".to_vec()),
        ("no-leading-slash", b"GET a HTTP/1.1".to_vec()),
        ("empty-target", b"GET  HTTP/1.1".to_vec()),
    ];
    for (n, l) in &lines {
        let mut b = l.clone();
        b.extend_from_slice(b"\r\nHost: a.io\r\n\r\n");
        add("request-line", (*n).into(), cat(&[&b, AFTER]));
    }
    add("request-line", "leading-crlf".into(), cat(&[b"\r\n", &raw("GET /a HTTP/1.1", &[host], b""), AFTER]));
    add("request-line", "leading-lf-lf".into(), cat(&[b"\n\n", &raw("GET /a HTTP/1.1", &[host], b""), AFTER]));
    add("request-line", "bare-lf-terminated".into(), cat(&[b"GET /a HTTP/1.1\nHost: a.io\r\n\r\n", AFTER]));
    add("request-line", "all-bare-lf".into(), cat(&[b"GET /a HTTP/1.1\nHost: a.io\n\n", AFTER]));
    add("request-line", "bare-cr-terminated".into(), cat(&[b"GET /a HTTP/1.1\rHost: a.io\r\n\r\n", AFTER]));

    // ---- B. Host
    let hosts: Vec<(&str, Vec<&[u8]>)> = vec![
        ("none", vec![]),
        ("twice-same", vec![b"Host: a.io", b"Host: a.io"]),
        ("twice-different", vec![b"Host: a.io", b"Host: b.io"]),
        ("twice-different-rev", vec![b"Host: b.io", b"Host: a.io"]),
        ("empty", vec![b"Host:"]),
        ("with-port", vec![b"Host: a.io:80"]),
        ("with-other-port", vec![b"Host: a.io:8080"]),
        ("uppercase", vec![b"Host: A.IO"]),
        ("trailing-dot", vec![b"Host: a.io."]),
        ("list", vec![b"Host: a.io, b.io"]),
        ("space-inside", vec![b"Host: a.io b.io"]),
        ("userinfo", vec![b"Host: x@a.io"]),
        ("tab-before-value", vec![b"Host:\ta.io"]),
        ("space-before-colon", vec![b"Host : a.io"]),
        ("lowercase-name", vec![b"host: a.io"]),
        ("nul-in-value", vec![b"Host: a.io\x00.b.io"]),
        ("slash-in-value", vec![b"Host: a.io/b"]),
    ];
    for (n, hs) in &hosts {
        add("host", (*n).into(), cat(&[&raw("GET /a HTTP/1.1", hs, b""), AFTER]));
    }

    // ---- C. Content-Length spellings; body = 5 bytes then a smuggled request
    let cl_values: Vec<(&str, Vec<&[u8]>)> = vec![
        ("5", vec![b"Content-Length: 5"]),
        ("05", vec![b"Content-Length: 05"]),
        ("plus5", vec![b"Content-Length: +5"]),
        ("minus5", vec![b"Content-Length: -5"]),
        ("minus0", vec![b"Content-Length: -0"]),
        ("5-trailing-space", vec![b"Content-Length: 5 "]),
        ("5-leading-spaces", vec![b"Content-Length:   5"]),
        ("5-no-space", vec![b"Content-Length:5"]),
        ("5-tab", vec![b"Content-Length:\t5\t"]),
        ("5-comma-5", vec![b"Content-Length: 5,5"]),
        ("5-comma-space-5", vec![b"Content-Length: 5, 5"]),
        ("5-comma-6", vec![b"Content-Length: 5, 6"]),
        ("6-comma-5", vec![b"Content-Length: 6, 5"]),
        ("5-comma-empty", vec![b"Content-Length: 5,"]),
        ("5-semicolon", vec![b"Content-Length: 5;q=1"]),
        ("hex", vec![b"Content-Length: 0x5"]),
        ("decimal-point", vec![b"Content-Length: 5.0"]),
        ("exponent", vec![b"Content-Length: 5e0"]),
        ("space-inside", vec![b"Content-Length: 5 5"]),
        ("underscore", vec![b"Content-Length: 0_5"]),
        ("arabic-digit", vec!["Content-Length: \u{0665}".as_bytes()]),
        ("fullwidth-digit", vec!["Content-Length: \u{ff15}".as_bytes()]),
        ("empty", vec![b"Content-Length:"]),
        ("20-digits", vec![b"Content-Length: 99999999999999999999"]),
        ("2^64", vec![b"Content-Length: 18446744073709551616"]),
        ("2^64+5", vec![b"Content-Length: 18446744073709551621"]),
        ("2^32+5", vec![b"Content-Length: 4294967301"]),
        ("many-zeros-5", vec![b"Content-Length: 0000000000000000000000000000000005"]),
        ("twice-5-5", vec![b"Content-Length: 5", b"Content-Length: 5"]),
        ("twice-5-6", vec![b"Content-Length: 5", b"Content-Length: 6"]),
        ("twice-6-5", vec![b"Content-Length: 6", b"Content-Length: 5"]),
        ("twice-5-empty", vec![b"Content-Length: 5", b"Content-Length:"]),
        ("twice-0-5", vec![b"Content-Length: 0", b"Content-Length: 5"]),
        ("twice-5-0", vec![b"Content-Length: 5", b"Content-Length: 0"]),
        ("name-lowercase", vec![b"content-length: 5"]),
        ("name-uppercase", vec![b"CONTENT-LENGTH: 5"]),
        ("name-space-before-colon", vec![b"Content-Length : 5"]),
        ("name-tab-before-colon", vec![b"Content-Length\t: 5"]),
        ("name-underscore", vec![b"Content_Length: 5"]),
        ("name-leading-space", vec![b" Content-Length: 5"]),
        ("name-nul", vec![b"Content-Length\x00: 5"]),
        ("name-8bit", vec![b"Content-Length\xa0: 5"]),
        ("name-unicode-hyphen", vec!["Content\u{2010}Length: 5".as_bytes()]),
        ("obs-fold-value", vec![b"Content-Length:\r\n 5"]),
        ("obs-fold-after-other", vec![b"X-A: b\r\n Content-Length: 5"]),
        ("after-bare-lf", vec![b"X-A: b\nContent-Length: 5"]),
        ("after-bare-cr", vec![b"X-A: b\rContent-Length: 5"]),
        ("5-then-bare-lf-header", vec![b"Content-Length: 5\nX-B: c"]),
        ("value-with-cr", vec![b"Content-Length: 5\r6"]),
        ("connection-nominates-cl", vec![b"Content-Length: 5", b"Connection: Content-Length"]),
        ("connection-nominates-cl-first", vec![b"Connection: Content-Length", b"Content-Length: 5"]),
        ("connection-close-and-cl", vec![b"Connection: close, Content-Length", b"Content-Length: 5"]),
    ];
    for (n, hs) in &cl_values {
        let mut headers: Vec<&[u8]> = vec![host];
        headers.extend(hs.iter().copied());
        add("content-length", (*n).into(), cat(&[&raw("POST /a HTTP/1.1", &headers, b"AAAAA"), SMUGGLED, AFTER]));
    }
    // body-less methods carrying a body
    for m in ["GET", "HEAD", "DELETE", "OPTIONS", "TRACE"] {
        add("content-length", format!("{m}-with-body"), cat(&[&raw(&format!("{m} /a HTTP/1.1"), &[host, b"Content-Length: 5"], b"AAAAA"), AFTER]));
        add("content-length", format!("{m}-with-chunked-body"), cat(&[&raw(&format!("{m} /a HTTP/1.1"), &[host, b"Transfer-Encoding: chunked"], &chunked(b"AAAAA")), AFTER]));
    }
    add("content-length", "http-1.0-with-cl".into(), cat(&[&raw("POST /a HTTP/1.0", &[host, b"Content-Length: 5", b"Connection: keep-alive"], b"AAAAA"), SMUGGLED, AFTER]));
    add("content-length", "post-without-framing".into(), cat(&[&raw("POST /a HTTP/1.1", &[host], b""), SMUGGLED, AFTER]));

    // ---- D. Transfer-Encoding spellings; body = chunked("AAAAA" + smuggled request inside the chunk)
    let inner = cat(&[b"AAAAA", SMUGGLED]);
    let te_body = chunked(&inner);
    let te_values: Vec<(&str, Vec<&[u8]>)> = vec![
        ("chunked", vec![b"Transfer-Encoding: chunked"]),
        ("Chunked", vec![b"Transfer-Encoding: Chunked"]),
        ("CHUNKED", vec![b"Transfer-Encoding: CHUNKED"]),
        ("trailing-space", vec![b"Transfer-Encoding: chunked "]),
        ("leading-tab", vec![b"Transfer-Encoding:\tchunked"]),
        ("no-space", vec![b"Transfer-Encoding:chunked"]),
        ("trailing-comma", vec![b"Transfer-Encoding: chunked,"]),
        ("leading-comma", vec![b"Transfer-Encoding: ,chunked"]),
        ("chunked-chunked", vec![b"Transfer-Encoding: chunked, chunked"]),
        ("identity", vec![b"Transfer-Encoding: identity"]),
        ("identity-chunked", vec![b"Transfer-Encoding: identity, chunked"]),
        ("chunked-identity", vec![b"Transfer-Encoding: chunked, identity"]),
        ("gzip-chunked", vec![b"Transfer-Encoding: gzip, chunked"]),
        ("gzip", vec![b"Transfer-Encoding: gzip"]),
        ("xchunked", vec![b"Transfer-Encoding: xchunked"]),
        ("chunkedx", vec![b"Transfer-Encoding: chunkedx"]),
        ("chunked-param", vec![b"Transfer-Encoding: chunked;q=1"]),
        ("quoted", vec![b"Transfer-Encoding: \"chunked\""]),
        ("obs-fold", vec![b"Transfer-Encoding: chunked\r\n\tidentity"]),
        ("obs-fold-value", vec![b"Transfer-Encoding:\r\n chunked"]),
        ("nul-inside", vec![b"Transfer-Encoding: chu\x00nked"]),
        ("vertical-tab", vec![b"Transfer-Encoding: \x0bchunked"]),
        ("form-feed", vec![b"Transfer-Encoding: chunked\x0c"]),
        ("8bit-space", vec![b"Transfer-Encoding: chunked\xa0"]),
        ("empty", vec![b"Transfer-Encoding:"]),
        ("twice-chunked", vec![b"Transfer-Encoding: chunked", b"Transfer-Encoding: chunked"]),
        ("twice-chunked-identity", vec![b"Transfer-Encoding: chunked", b"Transfer-Encoding: identity"]),
        ("twice-identity-chunked", vec![b"Transfer-Encoding: identity", b"Transfer-Encoding: chunked"]),
        ("twice-gzip-chunked", vec![b"Transfer-Encoding: gzip", b"Transfer-Encoding: chunked"]),
        ("name-lowercase", vec![b"transfer-encoding: chunked"]),
        ("name-space-before-colon", vec![b"Transfer-Encoding : chunked"]),
        ("name-tab-before-colon", vec![b"Transfer-Encoding\t: chunked"]),
        ("name-underscore", vec![b"Transfer_Encoding: chunked"]),
        ("name-leading-space", vec![b" Transfer-Encoding: chunked"]),
        ("name-nul", vec![b"Transfer-Encoding\x00: chunked"]),
        ("after-bare-lf", vec![b"X-A: b\nTransfer-Encoding: chunked"]),
        ("after-bare-cr", vec![b"X-A: b\rTransfer-Encoding: chunked"]),
        ("obs-fold-after-other", vec![b"X-A: b\r\n Transfer-Encoding: chunked"]),
        ("connection-nominates-te", vec![b"Transfer-Encoding: chunked", b"Connection: Transfer-Encoding"]),
        ("te-header-trailers", vec![b"Transfer-Encoding: chunked", b"TE: trailers"]),
    ];
    for (n, hs) in &te_values {
        let mut headers: Vec<&[u8]> = vec![host];
        headers.extend(hs.iter().copied());
        add("transfer-encoding", (*n).into(), cat(&[&raw("POST /a HTTP/1.1", &headers, &te_body), AFTER]));
    }
    add("transfer-encoding", "http-1.0-chunked".into(), cat(&[&raw("POST /a HTTP/1.0", &[host, b"Transfer-Encoding: chunked", b"Connection: keep-alive"], &te_body), AFTER]));

    // ---- E. both framings. Body read as chunked ends after "0\r\n\r\n"; read by
    // Content-Length it ends elsewhere; each reading leaves a different request.
    let body_cl_te = cat(&[b"0\r\n\r\n", SMUGGLED]); // CL covers everything, TE ends at once
    let cl_all = format!("Content-Length: {}", body_cl_te.len());
    let body_te_cl = cat(&[&chunked(&inner)]); // TE covers everything, CL = 4 ends inside
    let both: Vec<(&str, Vec<Vec<u8>>, Vec<u8>)> = vec![
        ("cl-then-te", vec![cl_all.clone().into_bytes(), b"Transfer-Encoding: chunked".to_vec()], body_cl_te.clone()),
        ("te-then-cl", vec![b"Transfer-Encoding: chunked".to_vec(), cl_all.clone().into_bytes()], body_cl_te.clone()),
        ("cl4-then-te", vec![b"Content-Length: 4".to_vec(), b"Transfer-Encoding: chunked".to_vec()], body_te_cl.clone()),
        ("te-then-cl4", vec![b"Transfer-Encoding: chunked".to_vec(), b"Content-Length: 4".to_vec()], body_te_cl.clone()),
        ("cl0-then-te", vec![b"Content-Length: 0".to_vec(), b"Transfer-Encoding: chunked".to_vec()], body_te_cl.clone()),
        ("cl-and-te-xchunked", vec![cl_all.clone().into_bytes(), b"Transfer-Encoding: xchunked".to_vec()], body_cl_te.clone()),
        ("cl-and-te-identity", vec![cl_all.clone().into_bytes(), b"Transfer-Encoding: identity".to_vec()], body_cl_te.clone()),
        ("cl-and-te-space-before-colon", vec![cl_all.clone().into_bytes(), b"Transfer-Encoding : chunked".to_vec()], body_cl_te.clone()),
        ("cl-and-te-leading-space", vec![cl_all.clone().into_bytes(), b" Transfer-Encoding: chunked".to_vec()], body_cl_te.clone()),
        ("cl-and-te-vertical-tab", vec![cl_all.clone().into_bytes(), b"Transfer-Encoding: \x0bchunked".to_vec()], body_cl_te.clone()),
        ("cl-and-te-after-bare-lf", vec![cl_all.clone().into_bytes(), b"X-A: b\nTransfer-Encoding: chunked".to_vec()], body_cl_te.clone()),
        ("cl-and-te-twice", vec![cl_all.clone().into_bytes(), b"Transfer-Encoding: identity".to_vec(), b"Transfer-Encoding: chunked".to_vec()], body_cl_te.clone()),
        ("te-and-cl-space-before-colon", vec![b"Transfer-Encoding: chunked".to_vec(), b"Content-Length : 4".to_vec()], body_te_cl.clone()),
        ("te-and-cl-after-bare-lf", vec![b"Transfer-Encoding: chunked".to_vec(), b"X-A: b\nContent-Length: 4".to_vec()], body_te_cl.clone()),
        ("te-and-connection-nominated-cl", vec![b"Transfer-Encoding: chunked".to_vec(), b"Content-Length: 4".to_vec(), b"Connection: Content-Length".to_vec()], body_te_cl.clone()),
        ("cl-and-connection-nominated-te", vec![cl_all.clone().into_bytes(), b"Transfer-Encoding: chunked".to_vec(), b"Connection: Transfer-Encoding".to_vec()], body_cl_te.clone()),
    ];
    for (n, hs, body) in &both {
        let mut headers: Vec<&[u8]> = vec![host];
        headers.extend(hs.iter().map(|h| h.as_slice()));
        add("cl-and-te", (*n).into(), cat(&[&raw("POST /a HTTP/1.1", &headers, body), AFTER]));
    }

    // ---- F. chunked body syntax (valid Transfer-Encoding: chunked)
    let sm = String::from_utf8_lossy(SMUGGLED).into_owned();
    let chunk_bodies: Vec<(&str, Vec<u8>)> = vec![
        ("plain", b"5\r\nAAAAA\r\n0\r\n\r\n".to_vec()),
        ("two-chunks", b"2\r\nAA\r\n3\r\nAAA\r\n0\r\n\r\n".to_vec()),
        ("leading-zero", b"05\r\nAAAAA\r\n0\r\n\r\n".to_vec()),
        ("uppercase-hex", b"A\r\nAAAAAAAAAA\r\n0\r\n\r\n".to_vec()),
        ("lowercase-hex", b"a\r\nAAAAAAAAAA\r\n0\r\n\r\n".to_vec()),
        ("extension", b"5;ext\r\nAAAAA\r\n0\r\n\r\n".to_vec()),
        ("extension-value", b"5;ext=val\r\nAAAAA\r\n0\r\n\r\n".to_vec()),
        ("extension-quoted", b"5;ext=\"a b\"\r\nAAAAA\r\n0\r\n\r\n".to_vec()),
        ("extension-quoted-crlf", b"5;ext=\"a\r\nb\"\r\nAAAAA\r\n0\r\n\r\n".to_vec()),
        ("extension-bare-lf", b"5;ext=a\nb\r\nAAAAA\r\n0\r\n\r\n".to_vec()),
        ("space-before-extension", b"5 ;ext\r\nAAAAA\r\n0\r\n\r\n".to_vec()),
        ("trailing-space", b"5 \r\nAAAAA\r\n0\r\n\r\n".to_vec()),
        ("leading-space", b" 5\r\nAAAAA\r\n0\r\n\r\n".to_vec()),
        ("trailing-tab", b"5\t\r\nAAAAA\r\n0\r\n\r\n".to_vec()),
        ("plus", b"+5\r\nAAAAA\r\n0\r\n\r\n".to_vec()),
        ("minus", b"-5\r\nAAAAA\r\n0\r\n\r\n".to_vec()),
        ("0x-prefix", b"0x5\r\nAAAAA\r\n0\r\n\r\n".to_vec()),
        ("size-bare-lf", b"5\nAAAAA\r\n0\r\n\r\n".to_vec()),
        ("size-bare-cr", b"5\rAAAAA\r\n0\r\n\r\n".to_vec()),
        ("data-bare-lf", b"5\r\nAAAAA\n0\r\n\r\n".to_vec()),
        ("data-no-terminator", b"5\r\nAAAAA0\r\n\r\n".to_vec()),
        ("data-wrong-terminator", b"5\r\nAAAAAXX0\r\n\r\n".to_vec()),
        ("data-longer-than-size", b"5\r\nAAAAAAA\r\n0\r\n\r\n".to_vec()),
        ("empty-size", b"\r\nAAAAA\r\n0\r\n\r\n".to_vec()),
        ("non-hex", b"5g\r\nAAAAA\r\n0\r\n\r\n".to_vec()),
        ("size-16-digits-wrap", format!("10000000000000005\r\nAAAAA\r\n0\r\n\r\n{sm}").into_bytes()),
        ("size-2^32+5", format!("100000005\r\nAAAAA\r\n0\r\n\r\n{sm}").into_bytes()),
        ("size-ffffffffffffffff", format!("ffffffffffffffff\r\nAAAAA\r\n0\r\n\r\n{sm}").into_bytes()),
        ("size-many-zeros", b"00000000000000000000000000000005\r\nAAAAA\r\n0\r\n\r\n".to_vec()),
        ("last-chunk-00", b"5\r\nAAAAA\r\n00\r\n\r\n".to_vec()),
        ("last-chunk-extension", b"5\r\nAAAAA\r\n0;ext\r\n\r\n".to_vec()),
        ("last-chunk-bare-lf", b"5\r\nAAAAA\r\n0\n\n".to_vec()),
        ("last-chunk-missing-final-crlf", b"5\r\nAAAAA\r\n0\r\n".to_vec()),
        ("trailer", b"5\r\nAAAAA\r\n0\r\nX-T: v\r\n\r\n".to_vec()),
        ("trailer-content-length", b"5\r\nAAAAA\r\n0\r\nContent-Length: 100\r\n\r\n".to_vec()),
        ("trailer-transfer-encoding", b"5\r\nAAAAA\r\n0\r\nTransfer-Encoding: chunked\r\n\r\n".to_vec()),
        ("trailer-host", b"5\r\nAAAAA\r\n0\r\nHost: evil.io\r\n\r\n".to_vec()),
        ("trailer-no-colon", b"5\r\nAAAAA\r\n0\r\nX-T v\r\n\r\n".to_vec()),
        ("trailer-bare-lf", b"5\r\nAAAAA\r\n0\r\nX-T: v\nX-U: w\r\n\r\n".to_vec()),
        ("trailer-obs-fold", b"5\r\nAAAAA\r\n0\r\nX-T: v\r\n w\r\n\r\n".to_vec()),
        ("trailer-space-before-colon", b"5\r\nAAAAA\r\n0\r\nX-T : v\r\n\r\n".to_vec()),
        ("trailer-nul", b"5\r\nAAAAA\r\n0\r\nX-T: v\x00w\r\n\r\n".to_vec()),
        ("smuggle-in-chunk", chunked(&inner)),
        ("smuggle-after-bad-terminator", format!("5\r\nAAAAA\r\n0\r\n\n{sm}").into_bytes()),
    ];
    for (n, body) in &chunk_bodies {
        add("chunked-body", (*n).into(), cat(&[&raw("POST /a HTTP/1.1", &[host, b"Transfer-Encoding: chunked"], body), AFTER]));
    }

    // ---- G. header field syntax in general
    let fields: Vec<(&str, Vec<&[u8]>)> = vec![
        ("plain", vec![b"X-A: v"]),
        ("bare-lf-between", vec![b"X-A: v\nX-B: w"]),
        ("bare-cr-between", vec![b"X-A: v\rX-B: w"]),
        ("bare-lf-then-request", vec![b"X-A: v\n\nGET /smuggled HTTP/1.1"]),
        ("nul-in-value", vec![b"X-A: v\x00w"]),
        ("space-before-colon", vec![b"X-A : v"]),
        ("tab-before-colon", vec![b"X-A\t: v"]),
        ("empty-name", vec![b": v"]),
        ("space-in-name", vec![b"X A: v"]),
        ("no-colon", vec![b"X-A v"]),
        ("obs-fold", vec![b"X-A: v\r\n\tw"]),
        ("obs-fold-first-header", vec![b" X-A: v"]),
        ("ctl-in-value", vec![b"X-A: v\x01w"]),
        ("del-in-value", vec![b"X-A: v\x7fw"]),
        ("8bit-in-value", vec![b"X-A: v\xffw"]),
        ("8bit-in-name", vec![b"X-\xffA: v"]),
        ("paren-in-name", vec![b"X(A): v"]),
        ("empty-value", vec![b"X-A:"]),
        ("only-spaces-value", vec![b"X-A:    "]),
        ("colon-in-value", vec![b"X-A: a: b"]),
        ("crlf-percent-encoded", vec![b"X-A: a%0d%0aX-B: w"]),
        ("sozu-id-supplied", vec![b"Sozu-Id: 01ARZ3NDEKTSV4RRFFQ69G5FAV"]),
        ("expect-100", vec![b"Expect: 100-continue"]),
        ("upgrade-h2c", vec![b"Connection: Upgrade, HTTP2-Settings", b"Upgrade: h2c", b"HTTP2-Settings: AAMAAABkAAQAAP__"]),
        ("upgrade-websocket-incomplete", vec![b"Connection: Upgrade", b"Upgrade: websocket"]),
        ("connection-nominates-host", vec![b"Connection: Host"]),
        ("connection-keep-alive-garbage", vec![b"Connection: keep-alive\x00, close"]),
    ];
    for (n, hs) in &fields {
        let mut headers: Vec<&[u8]> = vec![host];
        headers.extend(hs.iter().copied());
        add("field-syntax", (*n).into(), cat(&[&raw("GET /a HTTP/1.1", &headers, b""), AFTER]));
        // the same field before Host
        let mut headers2: Vec<&[u8]> = hs.clone();
        headers2.push(host);
        add("field-syntax", format!("{n}-before-host"), cat(&[&raw("GET /a HTTP/1.1", &headers2, b""), AFTER]));
    }
    // many / long headers around the buffer size
    for (n, count, len) in [("200-headers", 200usize, 10usize), ("one-8k-header", 1, 8000), ("one-17k-header", 1, 17000), ("3-6k-headers", 3, 6000)] {
        let hs: Vec<Vec<u8>> = (0..count).map(|i| format!("X-H{i}: {}", "v".repeat(len)).into_bytes()).collect();
        let mut headers: Vec<&[u8]> = vec![host];
        headers.extend(hs.iter().map(|h| h.as_slice()));
        add("field-syntax", n.into(), cat(&[&raw("GET /a HTTP/1.1", &headers, b""), AFTER]));
    }

    // ---- I. valid pipelines (the conformance side of the oracle)
    let p1 = raw("GET /p1 HTTP/1.1", &[host], b"");
    let p2 = raw("POST /p2 HTTP/1.1", &[host, b"Content-Length: 5"], b"BBBBB");
    let p3 = raw("POST /p3 HTTP/1.1", &[host, b"Transfer-Encoding: chunked"], &chunked(b"CCCCC"));
    let p4 = raw("POST /p4 HTTP/1.1", &[host, b"Content-Length: 0"], b"");
    let p5 = raw("POST /p5 HTTP/1.1", &[host, b"Transfer-Encoding: chunked"], b"0\r\n\r\n");
    for (n, seq) in [
        ("get-post-chunked", vec![&p1, &p2, &p3]),
        ("chunked-post-get", vec![&p3, &p2, &p1]),
        ("post-post", vec![&p2, &p2]),
        ("chunked-chunked", vec![&p3, &p3]),
        ("empty-bodies", vec![&p4, &p5, &p1]),
        ("body-looks-like-request", vec![&raw("POST /p6 HTTP/1.1", &[host, format!("Content-Length: {}", SMUGGLED.len()).as_bytes()], SMUGGLED), &p1]),
        ("chunk-looks-like-request", vec![&raw("POST /p7 HTTP/1.1", &[host, b"Transfer-Encoding: chunked"], &chunked(SMUGGLED)), &p1]),
    ] {
        let mut b = vec![];
        for s in seq {
            b.extend_from_slice(s);
        }
        b.extend_from_slice(AFTER);
        add("pipeline", n.into(), b);
    }
    v
}

fn is_ulid(v: &str) -> bool {
    v.len() == 26 && v.bytes().all(|b| b.is_ascii_alphanumeric())
}

fn contains(hay: &[u8], needle: &[u8]) -> bool {
    needle.is_empty() || hay.windows(needle.len()).any(|w| w == needle)
}

pub fn run_case(case: &Case, prefix: Vec<u32>, profile: ChoiceProfile, all_splits: bool) -> Run {
    let front = scen::addr(1, 8080);
    let back = scen::addr(2, 9090);
    let input = &case.bytes;
    // candidate cut positions of the client's single write
    let mut splits: Vec<usize> = if all_splits {
        (1..input.len()).collect()
    } else {
        let mut s = vec![1, input.len() / 3, input.len() / 2, input.len() - 1];
        // around every line terminator of the first 400 bytes
        for (i, b) in input.iter().enumerate().take(400) {
            if *b == b'\n' || *b == b'\r' {
                s.push(i);
                s.push(i + 1);
            }
            if *b == b':' {
                s.push(i);
            }
        }
        s
    };
    splits.sort();
    splits.dedup();
    splits.retain(|s| *s > 0 && *s < input.len());
    if splits.len() > 60 && !all_splits {
        let step = splits.len().div_ceil(60);
        splits = splits.into_iter().step_by(step).collect();
    }
    let client = Peer::client("client", vec![Step::Connect { to: front, from: None }, Step::Send { bytes: input.clone(), splits }, Step::Wait { ms: 1500 }, Step::Close, Step::Done]);
    let backend = Peer::server("backend", back, vec![Step::ServeH1 { response_head: "HTTP/1.1 200 OK".into(), body: b"ok".to_vec() }]);
    let setup = WorkerSetup { config: worker::server_config(|_| {}), initial: scen::http_state(&scen::simple_http(front, back)) };
    let (mut exec, create_err) = worker::run_worker(setup, vec![backend, client], vec![MainStep::AwaitPeers], profile, prefix, 300);
    if let Some(e) = create_err {
        crate::common::machinery_error(&format!("worker creation failed: {e}"));
    }
    let mut violations: Vec<(String, String)> = vec![];
    let id = format!("{}/{}", case.family, case.name);
    let mut flag = |k: String, d: String| violations.push((format!("C03|h1-h1|{id}|{k}"), d));
    if let Some(p) = &exec.subject_panic {
        flag("worker-panic".into(), format!("worker panicked: {p}"));
    }
    let end = exec.end.clone();
    let sc = worker::scenario_of(&mut exec);
    let backend = &sc.peers[0];
    let client = &sc.peers[1];
    // what the client's bytes mean to a canonical reader
    let (client_msgs, client_used, client_err) = h1::parse_all_canonical(input, true);
    let client_valid = client_err.is_none() && client_used == input.len();
    let mut seen: Vec<String> = vec![];
    let mut all_backend: Vec<h1::Message> = vec![];
    for (ci, conn) in backend.conns().iter().enumerate() {
        let (msgs, used, err) = h1::parse_all_canonical(&conn.rx, true);
        if let Some(e) = err.as_ref().filter(|e| !e.starts_with("connection closed")) {
            let class = e.split(|c: char| c == '[' || c == '"' || c == '{').next().unwrap_or(e).trim().replace(' ', "-");
            let ctx: Vec<u8> = conn.rx[used..conn.rx.len().min(used + 160)].to_vec();
            flag(format!("backend-stream-not-canonical:{class}"), format!("backend connection {ci}: after {} well-formed requests the stream is {e}; next bytes {:?}", msgs.len(), String::from_utf8_lossy(&ctx)));
        }
        for m in &msgs {
            let ids: Vec<&str> = m.headers_named("sozu-id").into_iter().filter(|v| is_ulid(v) && !contains(input, v.as_bytes())).collect();
            if ids.is_empty() {
                flag("request-unknown-to-sozu".into(), format!("backend connection {ci} carries a request {:?} that sozu did not label as a request of its own (no Sozu-Id it generated): the backend sees a request sozu did not see", m.start_line));
            }
            if !contains(input, m.method().as_bytes()) || !contains(input, m.target().as_bytes()) {
                flag("request-line-not-from-client".into(), format!("backend sees {:?}, neither spelled by the client", m.start_line));
            }
            seen.push(format!("{} {} body={}", m.method(), m.target(), m.body.len()));
        }
        all_backend.extend(msgs);
    }
    if client_valid {
        // every forwarded request is the client's, in order, with the same target, host and body
        for (i, b) in all_backend.iter().enumerate() {
            match client_msgs.get(i) {
                None => flag("extra-request".into(), format!("backend received request {i} {:?} but the client sent {} requests", b.start_line, client_msgs.len())),
                Some(c) => {
                    if b.method() != c.method() || b.target() != c.target() {
                        flag("different-request-line".into(), format!("request {i}: client sent {:?}, backend received {:?}", c.start_line, b.start_line));
                    }
                    if b.body != c.body {
                        flag("different-body".into(), format!("request {i}: client body {} bytes, backend body {} bytes", c.body.len(), b.body.len()));
                    }
                    // RFC 9112 §3.2.2: the authority of an absolute-form or authority-form target replaces Host
                    let want_host = if c.method() == "CONNECT" {
                        Some(c.target().to_ascii_lowercase())
                    } else if let Some(rest) = c.target().strip_prefix("http://") {
                        Some(rest.split('/').next().unwrap_or("").rsplit('@').next().unwrap_or("").to_ascii_lowercase())
                    } else {
                        c.header("host").map(|h| h.to_ascii_lowercase())
                    };
                    if b.header("host").map(|h| h.to_ascii_lowercase()) != want_host {
                        flag("different-host".into(), format!("request {i}: client Host {:?}, backend Host {:?}", c.header("host"), b.header("host")));
                    }
                }
            }
        }
    }
    // the client side: whatever comes back must itself be a well-formed response stream
    let (resps, _, perr) = h1::parse_all(&client.conn.rx, true, true);
    if let Some(e) = perr {
        // (a response to HEAD has no body; the generic reader cannot know)
        if !e.contains("connection closed") && !contains(input, b"HEAD ") {
            flag("client-stream-malformed".into(), format!("the response stream is malformed after {} responses: {e}", resps.len()));
        }
    }
    drop(flag);
    if end != End::Finished && violations.is_empty() {
        violations.push((format!("C03|h1-h1|{id}|worker-{}", format!("{end:?}").to_lowercase()), format!("run ended {end:?}")));
    }
    if std::env::var("C03_DUMP").is_ok() {
        for (ci, conn) in sc.peers[0].conns().iter().enumerate() {
            eprintln!("---- backend connection {ci} rx ({} bytes):\n{}", conn.rx.len(), String::from_utf8_lossy(&conn.rx[..conn.rx.len().min(3000)]));
        }
        eprintln!("---- client rx ({} bytes):\n{}", sc.peers[1].conn.rx.len(), String::from_utf8_lossy(&sc.peers[1].conn.rx[..sc.peers[1].conn.rx.len().min(3000)]));
    }
    let observation = format!("end={end:?} client_valid={client_valid} backend={seen:?} statuses={:?}", resps.iter().map(|r| r.status()).collect::<Vec<_>>());
    Run { trace: exec.trace, observation, violations, diverged: exec.diverged }
}

fn profile() -> ChoiceProfile {
    ChoiceProfile { read_faults: vec![FdClass::Front], write_faults: vec![FdClass::Back], max_points_per_class: 4, event_order: false, ..Default::default() }
}

pub fn run_item(tier: Tier, item: usize) -> ItemResult {
    let all = cases(tier);
    let case = all[item].clone();
    let mut violations = vec![];
    let c2 = case.clone();
    let thorough = tier != Tier::Quick;
    let stats = explore::search(
        1,
        if thorough { 3000 } else { 120 },
        |prefix| {
            let c = c2.clone();
            let p = prefix.to_vec();
            match worker::isolated(move || run_case(&c, p.clone(), profile(), thorough)) {
                Ok(r) => r,
                Err(status) => {
                    let mut r = super::c01::crashed_run(prefix, &status);
                    for v in r.violations.iter_mut() {
                        v.0 = v.0.replace("C01|any", &format!("C03|h1-h1|{}/{}", c2.family, c2.name));
                    }
                    r
                }
            }
        },
        |vector, key, desc| {
            let weight = vector.iter().filter(|c| **c != 0).count() as u64 * 1000 + case.bytes.len() as u64;
            violations.push((key.to_owned(), desc.to_owned(), json!({"case": case, "choices": vector}), weight));
        },
    );
    let mut counters = BTreeMap::new();
    counters.insert("sim_executions".to_owned(), stats.executions);
    ItemResult { item, label: format!("{}/{}", case.family, case.name), stats, violations, counters, sample: json!({"case": case}) }
}

/// HTTP/2 frontend half: the malformed-request family of C15(b), judged for what reaches the backend
pub fn run_h2_item(tier: Tier, item: usize) -> ItemResult {
    let all = super::c15b::request_cases(tier);
    let case = all[item].clone();
    let mut violations = vec![];
    let c2 = case.clone();
    let stats = explore::search(
        if tier == Tier::Quick { 0 } else { 1 },
        if tier == Tier::Quick { 3 } else { 60 },
        |prefix| {
            let c = c2.clone();
            let p = prefix.to_vec();
            match worker::isolated(move || super::c15b::run_case_tagged("C03|h2-h1", &c, p.clone(), super::c15b::profile())) {
                Ok(r) => r,
                Err(status) => {
                    let mut r = super::c01::crashed_run(prefix, &status);
                    for v in r.violations.iter_mut() {
                        v.0 = v.0.replace("C01|any", &format!("C03|h2-h1|{}|{}", c2.state, c2.name));
                    }
                    r
                }
            }
        },
        |vector, key, desc| {
            violations.push((key.to_owned(), desc.to_owned(), json!({"part": "h2", "state": case.state, "name": case.name, "choices": vector}), vector.iter().filter(|c| **c != 0).count() as u64));
        },
    );
    let mut counters = BTreeMap::new();
    counters.insert("sim_executions".to_owned(), stats.executions);
    ItemResult { item, label: format!("{}/{}", case.state, case.name), stats, violations, counters, sample: json!({"part": "h2", "state": case.state, "name": case.name}) }
}

pub fn run(ctx: &Ctx) -> Coverage {
    let tier = ctx.tier();
    let n = cases(tier).len();
    let results = explore::run_sharded(ctx, n, "c03", |i| run_item(tier, i));
    let nh = super::c15b::request_cases(tier).len();
    let h2_results = explore::run_sharded(ctx, nh, "c03-h2", |i| run_h2_item(tier, i));
    let mut cov = Coverage::aggregate();
    cov.absorb("b-h2-frontend", super::c01::summarize(ctx, &h2_results, "HTTP/2 (TLS) client to HTTP/1.1 backend: the malformed-request family (missing / duplicate / misplaced / unknown pseudo-headers, upper-case and connection-specific fields, CR LF NUL and spaces in names, values, :path and :authority, Host differing from :authority, Content-Length disagreeing with DATA in both directions whether the stream is ended by DATA, by HEADERS or by trailers, non-numeric and duplicate Content-Length, 70 kB header lists, broken header blocks, padded and empty DATA) in two connection states. Every backend connection must parse under the canonical RFC 9112 reader, every request found there must carry the correlation header sozu adds, nothing of a request that must be refused may reach the backend, and the refusal is the stream / connection error RFC 9113 prescribes"));
    cov.absorb("a-h1-frontend", super::c01::summarize(ctx, &results, "HTTP/1.1 client bytes through an unmodified worker to an HTTP/1.1 backend: request-line, Host, Content-Length, Transfer-Encoding, both-framings, chunked-body, field-syntax and pipeline families (every smuggling shape spellable in HTTP/1.1), each followed by a marker request, the client's write cut at the explored positions (quick: line and colon boundaries; thorough: every byte) plus one short / would-block read or write. Oracle: every backend connection parses under an independent canonical RFC 9112 reader (one framing header in its simplest spelling, one Host, no control bytes, no obs-fold, no bare LF); every request found there carries a Sozu-Id sozu generated (so it is a request sozu understood); for canonical client input the forwarded sequence equals the client's in method, target, host and body; the response stream is well formed"));
    cov
}

pub fn replay(ctx: &Ctx, case: &Value) -> Coverage {
    if case["part"] == "h2" {
        let all = super::c15b::request_cases(Tier::Thorough);
        let c = all.iter().find(|c| Some(c.name.as_str()) == case["name"].as_str() && Some(c.state.as_str()) == case["state"].as_str()).cloned().unwrap_or_else(|| crate::common::machinery_error("unknown C03 h2 case in replay"));
        let choices: Vec<u32> = serde_json::from_value(case["choices"].clone()).unwrap_or_default();
        let r = worker::isolated(move || super::c15b::run_case_tagged("C03|h2-h1", &c, choices, super::c15b::profile())).unwrap_or_else(|s| super::c01::crashed_run(&[], &s));
        for (k, d) in r.violations {
            ctx.violation(k, d, case.clone());
        }
        return Coverage { states: 1, transitions: 1, evaluations: 1, distinct_nontrivial: 1, distinct_outcomes: 1, rule: "replay".into(), ..Default::default() };
    }
    let c: Case = serde_json::from_value(case["case"].clone()).unwrap_or_else(|e| crate::common::machinery_error(&format!("bad replay case: {e}")));
    let choices: Vec<u32> = serde_json::from_value(case["choices"].clone()).unwrap_or_default();
    let all = case["all_splits"].as_bool().unwrap_or(false);
    let r = worker::isolated(move || run_case(&c, choices, profile(), all)).unwrap_or_else(|s| super::c01::crashed_run(&[], &s));
    for (k, d) in r.violations {
        ctx.violation(k, d, case.clone());
    }
    Coverage { states: 1, transitions: 1, evaluations: 1, distinct_nontrivial: 1, distinct_outcomes: 1, rule: "replay".into(), ..Default::default() }
}

pub fn debug(args: &crate::common::Args) {
    let all = cases(args.tier);
    let mut choices: Vec<u32> = args.extra.get("choices").map(|s| s.split(',').filter_map(|x| x.parse().ok()).collect()).unwrap_or_default();
    let mut c = match args.extra.get("name") {
        Some(n) => all.iter().find(|c| format!("{}/{}", c.family, c.name) == *n).cloned().unwrap_or_else(|| panic!("no case {n}")),
        None => all[args.extra.get("item").and_then(|s| s.parse().ok()).unwrap_or(0)].clone(),
    };
    if let Some(f) = args.extra.get("file") {
        let j = crate::common::load_replay(&std::path::PathBuf::from(f));
        c = serde_json::from_value(j["case"]["case"].clone()).unwrap();
        choices = serde_json::from_value(j["case"]["choices"].clone()).unwrap();
    }
    println!("{} cases; {}/{}\n{}", all.len(), c.family, c.name, String::from_utf8_lossy(&c.bytes).escape_debug());
    let thorough = args.tier != Tier::Quick;
    let r = worker::isolated(move || run_case(&c, choices, profile(), thorough)).unwrap();
    println!("obs={}", r.observation);
    println!("trace={:?}", r.trace.iter().map(|p| format!("{}:{}/{}", p.kind, p.chosen, p.alternatives)).collect::<Vec<_>>());
    println!("violations={:#?}", r.violations);
}
