//! Shared runner for scenarios with an HTTP/2 side: a scripted HTTP/2 client
//! over TLS (or an HTTP/1.1 client) in front of an unmodified worker, and an
//! HTTP/1.1 or h2c backend behind it. Used by C14 (limits and progress),
//! C15(b) (abusive input) and the HTTP/2 pairs of C01.

use std::collections::BTreeMap;

use crate::sim::{
    ChoiceProfile, End,
    explore::Run,
    h1,
    h2::{self, WindowPolicy},
    peer::{H2Cond, Peer, Step},
    scen,
    worker::{self, MainStep, WorkerSetup},
};

#[derive(Clone, Copy, Debug, PartialEq, Eq, serde::Serialize, serde::Deserialize)]
pub enum Proto {
    H1,
    H2,
}

/// One request/response exchange of a scenario.
#[derive(Clone, Debug, serde::Serialize, serde::Deserialize)]
pub struct Xfer {
    /// upload size (0 = GET)
    pub up: usize,
    /// download size asked from the backend
    pub down: usize,
}

/// How the HTTP/2 client replenishes the windows it offers to sozu.
#[derive(Clone, Debug, PartialEq, Eq, serde::Serialize, serde::Deserialize)]
pub enum Grants {
    /// every byte given back at once
    Eager,
    /// WINDOW_UPDATE of `step` bytes on the stream and on the connection whenever both... (drip)
    Drip { step: u32 },
    /// only the stream windows are replenished eagerly; the connection window gets `conn_step` per round
    ConnectionStarved { conn_step: u32 },
}

#[derive(Clone, Debug, serde::Serialize, serde::Deserialize)]
pub struct PairCase {
    pub front: Proto,
    pub back: Proto,
    pub xfers: Vec<Xfer>,
    /// client SETTINGS: initial window, max frame size (None = defaults)
    pub initial_window: Option<u32>,
    pub max_frame_size: Option<u32>,
    pub header_table_size: Option<u32>,
    pub grants: Grants,
    /// DATA frame size used by the client for uploads
    pub upload_frame: usize,
    pub buffer_size: u64,
    /// mid-connection SETTINGS change of the initial window (sent after the requests)
    pub shrink_window_to: Option<u32>,
    /// a slow client: sozu's writes towards it move at most this many bytes per event-loop turn
    #[serde(default)]
    pub pace_front: Option<usize>,
    /// uploads go out one DATA frame per environment turn instead of all at once
    #[serde(default)]
    pub spread_upload: bool,
    /// the client opens its connection window to 2^31-1 right after its SETTINGS
    #[serde(default)]
    pub huge_conn_window: bool,
    /// HTTP/1.1 client: uploads are chunked (chunks of this many bytes) instead of Content-Length
    #[serde(default)]
    pub h1_chunk: Option<usize>,
    /// HTTP/2 client: DATA frames of uploads carry this much padding
    #[serde(default)]
    pub h2_padding: Option<u8>,
    /// HTTP/2 client: uploads are padded like `h2_padding` but sent under flow control (the padding
    /// counts against sozu's windows, which must be replenished for it too)
    #[serde(default)]
    pub windowed_padding: Option<u8>,
    /// names the scenario family in violation keys (so that a finding is tied to the shape that fails)
    #[serde(default)]
    pub family: Option<String>,
    /// bodies travel without a declared length where the protocol allows it: HTTP/2 uploads and
    /// h2c responses carry no content-length, HTTP/1.1 backends answer chunked (chunks of 1000 bytes)
    #[serde(default)]
    pub no_length: bool,
    /// HTTP/2 senders precede every DATA frame by an empty DATA frame and by one made of padding only
    #[serde(default)]
    pub empty_frames: bool,
    /// the shrinking SETTINGS is sent only once this many body bytes of the first stream arrived
    /// (so that sozu's send window really goes negative)
    #[serde(default)]
    pub shrink_after_bytes: Option<usize>,
    /// the client sends a PING once this many body bytes of the first stream arrived
    #[serde(default)]
    pub ping_after_bytes: Option<usize>,
}

impl PairCase {
    pub fn simple(front: Proto, back: Proto, xfers: Vec<Xfer>) -> PairCase {
        PairCase { front, back, xfers, initial_window: None, max_frame_size: None, header_table_size: None, grants: Grants::Eager, upload_frame: 16384, buffer_size: 16393, shrink_window_to: None, pace_front: None, spread_upload: false, huge_conn_window: false, h1_chunk: None, h2_padding: None, shrink_after_bytes: None, ping_after_bytes: None, no_length: false, empty_frames: false, family: None, windowed_padding: None }
    }
}

pub struct Outcome {
    pub run: Run,
}

fn upload(i: usize, n: usize) -> Vec<u8> {
    h1::coded_body((i as u8).wrapping_mul(7).wrapping_add(3), n)
}

/// the request target that makes the backend answer `down` bytes in the way the case asks for
fn down_path(case: &PairCase, down: usize) -> String {
    match (case.no_length, case.back, case.empty_frames) {
        (false, _, _) => format!("/size/{down}"),
        (true, Proto::H1, _) => format!("/chunked/{down}/1000"),
        (true, Proto::H2, false) => format!("/nolen/{down}"),
        (true, Proto::H2, true) => format!("/nolenpad/{down}"),
    }
}

/// Runs the case; `tag` prefixes violation keys (e.g. "C14").
pub fn run_pair(tag: &str, case: &PairCase, prefix: Vec<u32>, profile: ChoiceProfile) -> Run {
    let front = scen::addr(1, if case.front == Proto::H2 { 8443 } else { 8080 });
    let back = scen::addr(2, 9090);
    let mut setup = if case.front == Proto::H2 { scen::simple_https(front, back) } else { scen::simple_http(front, back) };
    setup.clusters[0].cluster.http2 = Some(case.back == Proto::H2);
    // ---- backend
    let backend = match case.back {
        Proto::H1 => Peer::server("backend", back, vec![Step::ServeH1 { response_head: "HTTP/1.1 200 OK".into(), body: b"ok".to_vec() }]),
        Proto::H2 => Peer::server("backend", back, vec![Step::H2Serve]),
    };
    // ---- client
    let mut script = vec![Step::Connect { to: front, from: None }];
    let stream_ids: Vec<u32> = (0..case.xfers.len()).map(|i| 1 + 2 * i as u32).collect();
    match case.front {
        Proto::H2 => {
            script.push(Step::StartTls { sni: "a.io".into(), alpn: vec!["h2".into()] });
            script.push(Step::ExpectHandshake);
            let mut settings = vec![(h2::S_ENABLE_PUSH, 0)];
            if let Some(w) = case.initial_window {
                settings.push((h2::S_INITIAL_WINDOW_SIZE, w));
            }
            if let Some(m) = case.max_frame_size {
                settings.push((h2::S_MAX_FRAME_SIZE, m));
            }
            if let Some(t) = case.header_table_size {
                settings.push((h2::S_HEADER_TABLE_SIZE, t));
            }
            let policy = if case.grants == Grants::Eager { WindowPolicy::Eager } else { WindowPolicy::Manual };
            script.push(Step::H2Start { settings, policy });
            script.push(Step::H2Await(H2Cond::PeerSettings));
            if case.huge_conn_window {
                script.push(Step::H2Grant { stream: 0, inc: 0x7fff_ffff - 65535 });
            }
            for (i, x) in case.xfers.iter().enumerate() {
                let sid = stream_ids[i];
                let mut hs: Vec<(String, String)> = vec![
                    (":method".into(), if x.up > 0 { "POST" } else { "GET" }.into()),
                    (":scheme".into(), "https".into()),
                    (":path".into(), down_path(case, x.down)),
                    (":authority".into(), "a.io".into()),
                    ("x-xfer".into(), i.to_string()),
                ];
                if x.up > 0 && !case.no_length {
                    hs.push(("content-length".into(), x.up.to_string()));
                }
                script.push(Step::H2Headers { stream: sid, headers: hs, end_stream: x.up == 0, continuation_at: None });
            }
            if case.windowed_padding.is_some() {
                script.push(Step::H2PadData(case.windowed_padding));
            }
            for (i, x) in case.xfers.iter().enumerate() {
                if x.up > 0 && (case.h2_padding.is_some() || case.empty_frames) {
                    let pad = case.h2_padding.unwrap_or(0) as usize;
                    let body = upload(i, x.up);
                    let chunks: Vec<&[u8]> = body.chunks(case.upload_frame.max(1)).collect();
                    let mut raw = vec![];
                    for (k, c) in chunks.iter().enumerate() {
                        if case.empty_frames {
                            raw.extend_from_slice(&h2::frame(h2::DATA, 0, stream_ids[i], &[]));
                            raw.extend_from_slice(&h2::frame(h2::DATA, h2::F_PADDED, stream_ids[i], &[3, 0, 0, 0]));
                        }
                        let mut p = vec![pad as u8];
                        p.extend_from_slice(c);
                        p.extend(std::iter::repeat_n(0u8, pad));
                        raw.extend_from_slice(&h2::frame(h2::DATA, h2::F_PADDED | if k + 1 == chunks.len() { h2::F_END_STREAM } else { 0 }, stream_ids[i], &p));
                    }
                    script.push(Step::H2Raw(raw));
                } else if x.up > 0 && !case.spread_upload {
                    script.push(Step::H2Data { stream: stream_ids[i], bytes: upload(i, x.up), end_stream: true, frame_size: case.upload_frame, ignore_window: false });
                } else if x.up > 0 {
                    let body = upload(i, x.up);
                    let chunks: Vec<&[u8]> = body.chunks(case.upload_frame.max(1)).collect();
                    for (k, c) in chunks.iter().enumerate() {
                        script.push(Step::H2Data { stream: stream_ids[i], bytes: c.to_vec(), end_stream: k + 1 == chunks.len(), frame_size: case.upload_frame, ignore_window: false });
                        script.push(Step::Wait { ms: 0 });
                    }
                }
            }
            if let Some(n) = case.ping_after_bytes {
                script.push(Step::H2Await(H2Cond::BodyAtLeast(stream_ids[0], n)));
                script.push(Step::H2Raw(h2::ping(false, [7; 8])));
            }
            if let Some(w) = case.shrink_window_to {
                if let Some(n) = case.shrink_after_bytes {
                    script.push(Step::H2Await(H2Cond::BodyAtLeast(stream_ids[0], n)));
                }
                script.push(Step::H2ShrinkWindow(w));
            }
            // window grants: rounds of manual WINDOW_UPDATEs until everything is done
            match &case.grants {
                Grants::Eager => {}
                Grants::Drip { step } => {
                    let total: usize = case.xfers.iter().map(|x| x.down).sum();
                    let rounds = total / (*step as usize).max(1) + case.xfers.len() + 2;
                    for _ in 0..rounds.min(4000) {
                        // stay under sozu's WINDOW_UPDATE flood threshold (100 per second on stream 0)
                        script.push(Step::Wait { ms: 25 });
                        for sid in &stream_ids {
                            script.push(Step::H2Grant { stream: *sid, inc: *step });
                        }
                        script.push(Step::H2Grant { stream: 0, inc: *step * stream_ids.len() as u32 });
                    }
                }
                Grants::ConnectionStarved { conn_step } => {
                    let total: usize = case.xfers.iter().map(|x| x.down).sum();
                    let rounds = total / (*conn_step as usize).max(1) + 2;
                    for sid in &stream_ids {
                        script.push(Step::H2Grant { stream: *sid, inc: (1 << 30) - 65535 });
                    }
                    for _ in 0..rounds.min(4000) {
                        script.push(Step::Wait { ms: 25 });
                        script.push(Step::H2Grant { stream: 0, inc: *conn_step });
                    }
                }
            }
            script.push(Step::H2Await(H2Cond::AllDone(stream_ids.clone())));
        }
        Proto::H1 => {
            for (i, x) in case.xfers.iter().enumerate() {
                let body = upload(i, x.up);
                let req = if x.up > 0 && case.h1_chunk.is_some() {
                    let mut r = format!("POST {} HTTP/1.1\r\nHost: a.io\r\nX-Xfer: {i}\r\nTransfer-Encoding: chunked\r\n\r\n", down_path(case, x.down)).into_bytes();
                    for c in body.chunks(case.h1_chunk.unwrap().max(1)) {
                        r.extend_from_slice(format!("{:x}\r\n", c.len()).as_bytes());
                        r.extend_from_slice(c);
                        r.extend_from_slice(b"\r\n");
                    }
                    r.extend_from_slice(b"0\r\n\r\n");
                    r
                } else if x.up > 0 {
                    let mut r = format!("POST {} HTTP/1.1\r\nHost: a.io\r\nX-Xfer: {i}\r\nContent-Length: {}\r\n\r\n", down_path(case, x.down), x.up).into_bytes();
                    r.extend_from_slice(&body);
                    r
                } else {
                    format!("GET {} HTTP/1.1\r\nHost: a.io\r\nX-Xfer: {i}\r\n\r\n", down_path(case, x.down)).into_bytes()
                };
                let n = req.len();
                script.push(Step::Send { bytes: req, splits: vec![1, n / 2, n - 1] });
                script.push(Step::ExpectH1 { count: i + 1, responses: true });
            }
        }
    }
    script.push(Step::Done);
    let client = Peer::client("client", script);
    let bs = case.buffer_size;
    let ws = WorkerSetup { config: worker::server_config(|c| c.buffer_size = bs), initial: scen::http_state(&setup) };
    let mut profile = profile;
    if let Some(n) = case.pace_front {
        profile.pace_write = Some((crate::sim::FdClass::Front, n));
    }
    let (mut exec, create_err) = worker::run_worker(ws, vec![backend, client], vec![MainStep::AwaitPeersFor { ms: 120_000 }], profile, prefix, 400);
    if let Some(e) = create_err {
        crate::common::machinery_error(&format!("worker creation failed: {e}"));
    }
    let mut violations: Vec<(String, String)> = vec![];
    let pair = match &case.family {
        Some(f) => format!("{}|{f}", format!("{:?}-{:?}", case.front, case.back).to_lowercase()),
        None => format!("{:?}-{:?}", case.front, case.back).to_lowercase(),
    };
    let mut flag = |k: String, d: String| violations.push((format!("{tag}|{pair}|{k}"), d));
    if let Some(p) = &exec.subject_panic {
        flag("worker-panic".into(), format!("worker panicked: {p}"));
    }
    let end = exec.end.clone();
    let vms = exec.stats.virtual_ms;
    if std::env::var_os("VERIF_SIM_TRACE").is_some() {
        for l in exec.log.iter().rev().take(400).rev() {
            eprintln!("{l}");
        }
    }
    let sc = worker::scenario_of(&mut exec);
    let b = &sc.peers[0];
    let c = &sc.peers[1];
    let mut obs = format!("end={end:?} vms={vms}");
    // ---- what the backend received: one request per transfer, bodies intact
    let mut backend_bodies: BTreeMap<usize, Vec<u8>> = BTreeMap::new();
    match case.back {
        Proto::H1 => {
            for conn in b.conns() {
                let (msgs, _, err) = h1::parse_all(&conn.rx, false, true);
                if let Some(e) = err.filter(|e| !e.starts_with("connection closed")) {
                    flag("backend-stream-malformed".into(), format!("the HTTP/1.1 backend stream is malformed: {e}"));
                }
                for m in msgs {
                    if let Some(i) = m.header("x-xfer").and_then(|v| v.parse::<usize>().ok()) {
                        if backend_bodies.insert(i, m.body.clone()).is_some() {
                            flag("request-duplicated".into(), format!("transfer {i} reached the backend twice"));
                        }
                    }
                }
            }
        }
        Proto::H2 => {
            let eps: Vec<&h2::Endpoint> = b.h2.iter().map(|e| &**e).chain(b.h2_more.iter().map(|c| &*c.h2)).collect();
            obs.push_str(&format!(" backend_connections={}", eps.len()));
            for ep in eps {
                for e in &ep.protocol_errors {
                    flag(format!("h2-backend-obligation:{}", class_of(e)), format!("towards the h2c backend: {e}"));
                }
                for st in ep.streams.values() {
                    if let Some(i) = st.header("x-xfer").and_then(|v| v.parse::<usize>().ok()) {
                        if st.end_stream {
                            backend_bodies.insert(i, st.body.clone());
                        }
                    }
                }
                obs.push_str(&format!(" backend_frames={}", ep.frames.len()));
            }
        }
    }
    for (i, x) in case.xfers.iter().enumerate() {
        match backend_bodies.get(&i) {
            None => flag("request:not-delivered".into(), format!("transfer {i} (upload {} bytes) never reached the backend completely", x.up)),
            Some(body) if *body != upload(i, x.up) => flag(format!("request:{}", super::c01::classify_pub(body, &upload(i, x.up))), format!("transfer {i}: backend got {} body bytes, client sent {}", body.len(), x.up)),
            Some(_) => {}
        }
    }
    // ---- what the client received
    match case.front {
        Proto::H2 => match c.h2.as_ref() {
            None => flag("tls-or-h2-not-established".into(), format!("the client never got to HTTP/2 (tls error {:?}, alpn {:?})", c.conn.tls_error, c.conn.tls_alpn)),
            Some(ep) => {
                if c.conn.tls_alpn.as_deref() != Some("h2") {
                    flag("alpn-not-h2".into(), format!("negotiated ALPN {:?}", c.conn.tls_alpn));
                }
                for e in &ep.protocol_errors {
                    flag(format!("h2-client-obligation:{}", class_of(e)), format!("towards the HTTP/2 client: {e}"));
                }
                for f in &ep.frames {
                    if f.payload.len() > case.max_frame_size.unwrap_or(16384) as usize {
                        flag("h2-client-obligation:frame-too-large".into(), format!("frame type {} of {} bytes, our SETTINGS_MAX_FRAME_SIZE is {}", f.ty, f.payload.len(), case.max_frame_size.unwrap_or(16384)));
                    }
                    if f.stream != 0 && (f.stream % 2 == 0 || !stream_ids.contains(&f.stream)) {
                        flag("h2-client-obligation:illegal-stream-id".into(), format!("frame type {} on stream {} which the client never opened", f.ty, f.stream));
                    }
                }
                if let Some((last, code)) = ep.goaway {
                    flag(format!("goaway-{code}"), format!("the client received GOAWAY(last={last}, code={code}) on a well-behaved connection"));
                }
                // what is left unparsed is the beginning of a frame: one that announces more than
                // any frame may carry means the framing of the connection is lost
                {
                    let rest = &c.conn.rx[ep.parsed.min(c.conn.rx.len())..];
                    if rest.len() >= 9 {
                        let announced = ((rest[0] as usize) << 16) | ((rest[1] as usize) << 8) | rest[2] as usize;
                        if announced > case.max_frame_size.unwrap_or(16384) as usize {
                            let ack = [0u8, 0, 0, 4, 1, 0, 0, 0, 0];
                            let inside = c.conn.rx[..ep.parsed].windows(9).rposition(|w| w == ack).filter(|o| *o > 200);
                            flag("h2-client-obligation:framing-lost".into(), format!("after {} bytes the connection carries {:?} where a frame header is due (a {announced}-byte frame of type {}); {} bytes follow{}", ep.parsed, &rest[..9], rest[3], rest.len() - 9, inside.map(|o| format!("; the image of a SETTINGS ACK frame sits at offset {o}, inside a DATA frame's payload")).unwrap_or_default()));
                        }
                    }
                }
                for (i, x) in case.xfers.iter().enumerate() {
                    let want = h1::coded_body((x.down % 251) as u8, x.down);
                    match ep.streams.get(&stream_ids[i]) {
                        None => flag("response:not-delivered".into(), format!("transfer {i}: nothing came back on stream {}", stream_ids[i])),
                        Some(st) => {
                            if let Some(code) = st.rst {
                                flag(format!("response:stream-reset-{code}"), format!("transfer {i}: stream {} was reset with code {code} after {} of {} body bytes", stream_ids[i], st.body.len(), x.down));
                            } else if !st.end_stream {
                                let class = if end != End::Finished || vms >= 100_000 { "stalled" } else { "not-ended" };
                                flag(format!("response:{class}"), format!("transfer {i}: stream {} has {} of {} body bytes and no END_STREAM (run {end:?} after {vms} virtual ms; send windows left: conn {} stream {:?})", stream_ids[i], st.body.len(), x.down, ep.conn_recv_window, ep.stream_recv_window.get(&stream_ids[i])));
                            } else if st.status() != Some(200) {
                                flag(format!("response:status-{}", st.status().unwrap_or(0)), format!("transfer {i}: status {:?}", st.status()));
                            } else if st.body != want {
                                let at = st.body.iter().zip(want.iter()).position(|(a, b)| a != b).unwrap_or(st.body.len().min(want.len()));
                                if std::env::var("H2_DUMP").is_ok() && at + 64 <= st.body.len() {
                                    eprintln!("---- bytes at the difference: got {:02x?} want {:02x?}", &st.body[at..at + 16], &want[at..at + 16]);
                                    for (j, xx) in case.xfers.iter().enumerate() {
                                        let u = upload(j, xx.up);
                                        if let Some(o) = u.windows(10).position(|w| w == &st.body[at..at + 10]) {
                                            eprintln!("---- the 10 bytes received at offset {at} are bytes {o}.. of the UPLOAD of transfer {j}");
                                        }
                                    }
                                    let probe = &st.body[at..at + 64];
                                    let found = want.windows(64).position(|w| w == probe);
                                    eprintln!("---- the 64 bytes received at offset {at} are the backend's bytes at offset {found:?}");
                                    let resync = (at..st.body.len().saturating_sub(64)).find(|&o| st.body[o..o + 64] == want[o..o + 64]);
                                    eprintln!("---- the streams agree again from offset {resync:?}");
                                }
                                flag(format!("response:{}", super::c01::classify_pub(&st.body, &want)), format!("transfer {i}: client got {} body bytes, backend sent {}; first difference at byte {at} (DATA frame sizes so far: {:?})", st.body.len(), x.down, st.data_frames.iter().take(12).collect::<Vec<_>>()));
                            }
                        }
                    }
                }
                obs.push_str(&format!(" client_frames={} errors={} tls_error={:?} eof={} reset={} rx={} tx_left={}", ep.frames.len(), ep.protocol_errors.len(), c.conn.tls_error, c.conn.eof, c.conn.reset, c.conn.rx.len(), c.conn.tx.len()));
            }
        },
        Proto::H1 => {
            let (resps, _, perr) = h1::parse_all(&c.conn.rx, true, true);
            for (i, x) in case.xfers.iter().enumerate() {
                let want = h1::coded_body((x.down % 251) as u8, x.down);
                match resps.get(i) {
                    None => flag(format!("response:{}", if perr.is_some() { "truncated-or-malformed" } else { "not-delivered" }), format!("transfer {i}: {} complete responses, {perr:?}", resps.len())),
                    Some(m) if m.status() != Some(200) => flag(format!("response:status-{}", m.status().unwrap_or(0)), format!("transfer {i}: {:?}", m.start_line)),
                    Some(m) if m.body != want => flag(format!("response:{}", super::c01::classify_pub(&m.body, &want)), format!("transfer {i}: client got {} body bytes, backend sent {}", m.body.len(), x.down)),
                    Some(_) => {}
                }
            }
        }
    }
    drop(flag);
    if std::env::var("H2_DUMP").is_ok() {
        let show = |name: &str, ep: &h2::Endpoint| {
            eprintln!("---- frames received by {name}:");
            for f in &ep.frames {
                eprintln!("  type={} flags={:#x} stream={} len={} {}", f.ty, f.flags, f.stream, f.payload.len(), if f.ty == h2::RST_STREAM || f.ty == h2::GOAWAY { format!("{:?}", f.payload) } else { String::new() });
            }
            for (id, st) in &ep.streams {
                eprintln!("  stream {id}: headers={:?} body={} end={} rst={:?}", st.headers, st.body.len(), st.end_stream, st.rst);
            }
            eprintln!("  errors: {:?}", ep.protocol_errors);
            eprintln!("  peer settings: {:?}", ep.peer_settings);
        };
        if let Some(ep) = sc.peers[0].h2.as_ref() {
            show("backend", ep);
        }
        if let Some(ep) = sc.peers[1].h2.as_ref() {
            show("client", ep);
            let log = &sc.peers[1].conn.sent_log;
            let body = if log.starts_with(h2::PREFACE) { &log[h2::PREFACE.len()..] } else { &log[..] };
            let (frames, used) = h2::split_frames(body);
            if let Some(ep) = sc.peers[1].h2.as_ref() {
                let rx = &sc.peers[1].conn.rx;
                eprintln!("---- client endpoint parsed {} of {} received bytes; next bytes {:?}", ep.parsed, rx.len(), &rx[ep.parsed.min(rx.len())..(ep.parsed + 12).min(rx.len())]);
                let ack = [0u8, 0, 0, 4, 1, 0, 0, 0, 0];
                for (i, w) in rx.windows(9).enumerate() {
                    if w == ack {
                        eprintln!("     a SETTINGS ACK frame image sits at offset {i}");
                    }
                }
            }
            eprintln!("---- frames sent by the client ({} bytes, {} parsed):", body.len(), used);
            for f in &frames {
                eprintln!("  type={} flags={:#x} stream={} len={} {}", f.ty, f.flags, f.stream, f.payload.len(), if f.payload.len() <= 12 { format!("{:?}", f.payload) } else { String::new() });
            }
        }
        if case.front == Proto::H1 {
            eprintln!("---- client rx:\n{}", String::from_utf8_lossy(&sc.peers[1].conn.rx[..sc.peers[1].conn.rx.len().min(1500)]));
        }
    }
    if end != End::Finished && violations.is_empty() {
        violations.push((format!("{tag}|{pair}|worker-{}", format!("{end:?}").to_lowercase()), format!("run ended {end:?}")));
    }
    Run { trace: exec.trace, observation: obs, violations, diverged: exec.diverged }
}

fn class_of(e: &str) -> String {
    let e = e.to_ascii_lowercase();
    for (needle, class) in [
        ("beyond its flow-control window", "flow-control"),
        ("exceeds our settings_max_frame_size", "frame-too-large"),
        ("max_concurrent_streams", "too-many-streams"),
        ("header list", "header-list-too-large"),
        ("does not decode", "hpack"),
        ("inside the header block", "interleaved-header-block"),
        ("push_promise", "push"),
        ("preface", "preface"),
        ("data on finished stream", "data-after-end"),
        ("data before headers", "data-before-headers"),
    ] {
        if e.contains(needle) {
            return class.into();
        }
    }
    "other".into()
}
