//! C20 — a configuration file means exactly what it declares, however large.
//! Bounded-exhaustive enumeration of TOML shapes through the real loader
//! (`Config::load_from_path` -> `generate_config_messages` ->
//! `ConfigState::dispatch`).

use std::{
    collections::{BTreeMap, BTreeSet},
    io::Write,
    sync::atomic::{AtomicU64, Ordering},
};

use serde_json::{Value, json};
use sozu_command_lib::{
    config::Config,
    proto::command::{WorkerRequest, request::RequestType},
    state::ConfigState,
};

use crate::{
    checks::cfgstate::flat,
    common::{Coverage, Ctx, guarded, machinery_error, ncpu, par_map},
};

const CERT: &str = "/repo/lib/assets/certificate.pem";
const KEY: &str = "/repo/lib/assets/key.pem";
const CHAIN: &str = "/repo/lib/assets/certificate_chain.pem";

#[derive(Clone, Debug, Default)]
struct Listener {
    proto: &'static str,
    addr: String,
    extra: Vec<String>, // raw `key = value` lines
}

#[derive(Clone, Debug, Default)]
struct Front {
    addr: String,
    hostname: Option<String>,
    path: Option<String>,
    path_type: Option<&'static str>,
    method: Option<&'static str>,
    position: Option<&'static str>,
    cert: bool,
    extra: Vec<String>,
}

#[derive(Clone, Debug, Default)]
struct Backend {
    addr: String,
    id: Option<String>,
    extra: Vec<String>,
}

#[derive(Clone, Debug, Default)]
struct Cluster {
    name: String,
    proto: &'static str, // "http" | "tcp"
    extra: Vec<String>,
    fronts: Vec<Front>,
    backends: Vec<Backend>,
}

#[derive(Clone, Debug, Default)]
struct Desc {
    label: String,
    top: Vec<String>,
    listeners: Vec<Listener>,
    clusters: Vec<Cluster>,
    /// Some(reason) = a constraint-violating neighbour that must be rejected at load
    must_reject: Option<&'static str>,
}

fn toml_of(d: &Desc) -> String {
    let mut s = String::new();
    s.push_str("command_socket = \"/tmp/sozu-verif.sock\"\n");
    for t in &d.top {
        s.push_str(t);
        s.push('\n');
    }
    for l in &d.listeners {
        s.push_str("\n[[listeners]]\n");
        s.push_str(&format!("protocol = \"{}\"\naddress = \"{}\"\n", l.proto, l.addr));
        for e in &l.extra {
            s.push_str(e);
            s.push('\n');
        }
    }
    if !d.clusters.is_empty() {
        s.push_str("\n[clusters]\n");
    }
    for c in &d.clusters {
        s.push_str(&format!("\n[clusters.{}]\nprotocol = \"{}\"\n", c.name, c.proto));
        for e in &c.extra {
            // table-valued extras ([clusters.x.y]) must come after arrays
            if !e.starts_with('[') {
                s.push_str(e);
                s.push('\n');
            }
        }
        s.push_str("frontends = [\n");
        for f in &c.fronts {
            let mut parts = vec![format!("address = \"{}\"", f.addr)];
            if let Some(h) = &f.hostname {
                parts.push(format!("hostname = \"{h}\""));
            }
            if let Some(p) = &f.path {
                parts.push(format!("path = \"{p}\""));
            }
            if let Some(p) = f.path_type {
                parts.push(format!("path_type = \"{p}\""));
            }
            if let Some(m) = f.method {
                parts.push(format!("method = \"{m}\""));
            }
            if let Some(p) = f.position {
                parts.push(format!("position = \"{p}\""));
            }
            if f.cert {
                parts.push(format!("certificate = \"{CERT}\", key = \"{KEY}\", certificate_chain = \"{CHAIN}\""));
            }
            for e in &f.extra {
                parts.push(e.clone());
            }
            s.push_str(&format!("  {{ {} }},\n", parts.join(", ")));
        }
        s.push_str("]\nbackends = [\n");
        for b in &c.backends {
            let mut parts = vec![format!("address = \"{}\"", b.addr)];
            if let Some(id) = &b.id {
                parts.push(format!("backend_id = \"{id}\""));
            }
            for e in &b.extra {
                parts.push(e.clone());
            }
            s.push_str(&format!("  {{ {} }},\n", parts.join(", ")));
        }
        s.push_str("]\n");
        for e in &c.extra {
            if e.starts_with('[') {
                s.push_str(e);
                s.push('\n');
            }
        }
    }
    s
}

// ------------------------------------------------------------------ families

const A_HTTP: &str = "127.0.0.1:8080";
const A_HTTPS: &str = "[::1]:8443";
const A_HTTPS2: &str = "[::1]:8444";
const A_TCP: &str = "127.0.0.1:9000";
const CERT2: &str = "/repo/lib/assets/cert_test.pem";
const KEY2: &str = "/repo/lib/assets/key_test.pem";

/// `certificate` / `key` lines of a listener table
fn listener_cert(cert: &str, key: &str) -> Vec<String> {
    vec![format!("certificate = \"{cert}\""), format!("key = \"{key}\"")]
}
const A_UDP: &str = "[::1]:5353";

fn front(addr: &str, host: &str, path: Option<&str>, cert: bool) -> Front {
    Front {
        addr: addr.into(),
        hostname: Some(host.into()),
        path: path.map(|p| p.into()),
        cert,
        ..Default::default()
    }
}

fn family_structure() -> Vec<Desc> {
    let mut v = vec![];
    let lst = [("http", A_HTTP), ("https", A_HTTPS), ("tcp", A_TCP), ("udp", A_UDP)];
    for mask in 0..16u32 {
        let listeners: Vec<Listener> = lst
            .iter()
            .enumerate()
            .filter(|(i, _)| mask & (1 << i) != 0)
            .map(|(_, (p, a))| Listener { proto: p, addr: a.to_string(), extra: vec![] })
            .collect();
        // cluster shapes: (protocol, n_fronts, n_backends) for up to 2 clusters
        let shapes: Vec<Vec<(&'static str, usize, usize)>> = {
            let single: Vec<(&'static str, usize, usize)> = ["http", "tcp"]
                .iter()
                .flat_map(|p| (0..3).flat_map(move |f| (0..3).map(move |b| (*p, f, b))))
                .collect();
            let mut out: Vec<Vec<(&'static str, usize, usize)>> = vec![vec![]];
            for s in &single {
                out.push(vec![*s]);
            }
            for a in [("http", 1, 1), ("http", 2, 2), ("tcp", 1, 1)] {
                for b in [("http", 1, 1), ("http", 2, 0), ("tcp", 1, 2), ("tcp", 2, 1)] {
                    out.push(vec![a, b]);
                }
            }
            out
        };
        for (si, shape) in shapes.iter().enumerate() {
            let mut clusters = vec![];
            let mut tcp_port = 9100;
            for (ci, (proto, nf, nb)) in shape.iter().enumerate() {
                let name = format!("c{ci}");
                let mut fronts = vec![];
                for fi in 0..*nf {
                    if *proto == "http" {
                        // alternate between the http and https addresses (whether or not a listener is declared)
                        let https = (fi + ci) % 2 == 1;
                        let addr = if https { A_HTTPS } else { A_HTTP };
                        fronts.push(front(addr, &format!("h{ci}{fi}.example.com"), if fi == 1 { Some("/api") } else { None }, https));
                    } else {
                        // tcp frontends: the tcp listener address, the udp one, or a fresh port
                        let addr = match (fi + ci) % 3 {
                            0 if ci == 0 => A_TCP.to_string(),
                            1 if mask & 8 != 0 && ci == 0 => A_UDP.to_string(),
                            _ => {
                                tcp_port += 1;
                                format!("127.0.0.1:{tcp_port}")
                            }
                        };
                        fronts.push(Front { addr, ..Default::default() });
                    }
                }
                let backends = (0..*nb)
                    .map(|bi| Backend {
                        addr: format!("127.0.0.1:{}", 1000 + 10 * ci + bi),
                        id: if bi == 0 { Some(format!("{name}-b{bi}")) } else { None },
                        extra: vec![],
                    })
                    .collect();
                clusters.push(Cluster { name, proto, extra: vec![], fronts, backends });
            }
            // a frontend on an address whose declared listener has another
            // protocol is a documented constraint violation
            let mut must_reject = None;
            for c in &clusters {
                for f in &c.fronts {
                    let declared = lst.iter().enumerate().find(|(i, (_, a))| mask & (1 << i) != 0 && *a == f.addr).map(|(_, (p, _))| *p);
                    match (c.proto, declared) {
                        ("http", Some("tcp")) | ("http", Some("udp")) => must_reject = Some("http frontend on a tcp/udp listener"),
                        ("tcp", Some("http")) | ("tcp", Some("https")) => must_reject = Some("tcp frontend on an http(s) listener"),
                        ("http", Some("http")) if f.cert => must_reject = Some("certificate on a plain http listener"),
                        _ => {}
                    }
                }
            }
            v.push(Desc {
                label: format!("structure:listeners={mask:04b}:shape={si}"),
                top: vec![],
                listeners: listeners.clone(),
                clusters,
                must_reject,
            });
        }
    }
    v
}

fn base() -> Desc {
    Desc {
        label: "base".into(),
        top: vec![],
        listeners: vec![
            Listener { proto: "http", addr: A_HTTP.into(), extra: vec![] },
            Listener { proto: "https", addr: A_HTTPS.into(), extra: vec![] },
        ],
        clusters: vec![Cluster {
            name: "app".into(),
            proto: "http",
            extra: vec![],
            fronts: vec![front(A_HTTP, "a.example.com", None, false), front(A_HTTPS, "a.example.com", Some("/x"), true)],
            backends: vec![
                Backend { addr: "127.0.0.1:1001".into(), id: Some("b1".into()), extra: vec![] },
                Backend { addr: "127.0.0.1:1002".into(), id: None, extra: vec![] },
            ],
        }],
        must_reject: None,
    }
}

fn family_options() -> Vec<Desc> {
    let mut v = vec![base()];
    // two HTTPS listeners, each with a certificate of its own, frontends without one: each inherits its listener's
    for first_has_cert_only in [false, true] {
        let mut d = base();
        d.label = format!("two-https-listeners{}", if first_has_cert_only { "-second-front-brings-its-own" } else { "" });
        d.listeners[1].extra.extend(listener_cert(CERT, KEY));
        d.listeners.push(Listener { proto: "https", addr: A_HTTPS2.into(), extra: if first_has_cert_only { vec![] } else { listener_cert(CERT2, KEY2) } });
        d.clusters[0].fronts[1].cert = false;
        let mut f = front(A_HTTPS2, "b.example.com", None, first_has_cert_only);
        f.path = None;
        d.clusters[0].fronts.push(f);
        v.push(d);
    }
    let top_opts = [
        "activate_listeners = false",
        "front_timeout = 11",
        "back_timeout = 12",
        "connect_timeout = 2",
        "request_timeout = 4",
        "max_connections_per_ip = 3",
        "retry_after = 9",
        "disable_cluster_metrics = true",
        "buffer_size = 32768",
    ];
    for o in top_opts {
        let mut d = base();
        d.label = format!("option:top:{o}");
        d.top.push(o.into());
        v.push(d);
    }
    let http_l = ["expect_proxy = true", "sticky_name = \"SID\"", "public_address = \"10.0.0.1:80\"", "front_timeout = 7", "sozu_id_header = \"X-Id\"", "h2_max_concurrent_streams = 50", "elide_x_real_ip = true", "send_x_real_ip = true"];
    for o in http_l {
        let mut d = base();
        d.label = format!("option:http-listener:{o}");
        d.listeners[0].extra.push(o.into());
        v.push(d);
    }
    let https_l = ["alpn_protocols = [\"http/1.1\"]", "alpn_protocols = [\"h2\", \"http/1.1\"]", "strict_sni_binding = false", "alpn_protocols = [\"h2\"]\ndisable_http11 = true", "tls_versions = [\"TLS_V13\"]", "send_tls13_tickets = 2", "h2_max_rst_stream_per_window = 10"];
    for o in https_l {
        let mut d = base();
        d.label = format!("option:https-listener:{o}");
        d.listeners[1].extra.push(o.into());
        v.push(d);
    }
    let cl = ["sticky_session = true", "https_redirect = true", "load_balancing = \"RANDOM\"", "load_balancing = \"LEAST_LOADED\"", "load_metric = \"REQUESTS\"", "http2 = true", "https_redirect_port = 8443", "max_connections_per_ip = 5", "retry_after = 3", "www_authenticate = \"Basic realm=x\"", "authorized_hashes = [\"u:0000000000000000000000000000000000000000000000000000000000000000\"]", "[clusters.app.health_check]\nuri = \"/health\"\ninterval = 5"];
    for o in cl {
        let mut d = base();
        d.label = format!("option:cluster:{}", o.lines().next().unwrap_or(""));
        d.clusters[0].extra.push(o.into());
        v.push(d);
    }
    let fr: Vec<(&str, Box<dyn Fn(&mut Front)>)> = vec![
        ("path_type=PREFIX", Box::new(|f: &mut Front| { f.path = Some("/p".into()); f.path_type = Some("PREFIX"); })),
        ("path_type=REGEX", Box::new(|f: &mut Front| { f.path = Some("/r.*".into()); f.path_type = Some("REGEX"); })),
        ("path_type=EQUALS", Box::new(|f: &mut Front| { f.path = Some("/e".into()); f.path_type = Some("EQUALS"); })),
        ("method=GET", Box::new(|f: &mut Front| f.method = Some("GET"))),
        ("position=pre", Box::new(|f: &mut Front| f.position = Some("PRE"))),
        ("position=post", Box::new(|f: &mut Front| f.position = Some("POST"))),
        ("tags", Box::new(|f: &mut Front| f.extra.push("tags = { owner = \"x\", k = \"v\" }".into()))),
        ("redirect", Box::new(|f: &mut Front| f.extra.push("redirect = \"permanent\"".into()))),
        ("rewrite", Box::new(|f: &mut Front| { f.extra.push("rewrite_host = \"b.example.com\"".into()); f.extra.push("rewrite_path = \"/y\"".into()); f.extra.push("rewrite_port = 8081".into()); })),
        ("required_auth", Box::new(|f: &mut Front| f.extra.push("required_auth = true".into()))),
        ("headers", Box::new(|f: &mut Front| f.extra.push("headers = [{ position = \"request\", key = \"X-A\", value = \"1\" }]".into()))),
    ];
    for (name, m) in &fr {
        for fi in 0..2 {
            let mut d = base();
            d.label = format!("option:frontend{fi}:{name}");
            m(&mut d.clusters[0].fronts[fi]);
            v.push(d);
        }
    }
    let bk = ["weight = 50", "sticky_id = \"s1\"", "backup = true"];
    for o in bk {
        let mut d = base();
        d.label = format!("option:backend:{o}");
        d.clusters[0].backends[1].extra.push(o.into());
        v.push(d);
    }
    // udp cluster
    let mut d = base();
    d.label = "option:udp-cluster".into();
    d.listeners.push(Listener { proto: "udp", addr: A_UDP.into(), extra: vec!["max_flows = 10".into()] });
    d.clusters.push(Cluster {
        name: "dns".into(),
        proto: "tcp",
        extra: vec!["[clusters.dns.udp]\naffinity_key = \"SOURCE_IP_PORT\"\nresponses = 1".into()],
        fronts: vec![Front { addr: A_UDP.into(), ..Default::default() }],
        backends: vec![Backend { addr: "127.0.0.1:53".into(), id: None, extra: vec![] }],
    });
    v.push(d);
    // two tcp clusters claiming one listener address: accepted by design
    // (the code carries a FIXME, no documented constraint forbids it)
    let mut d = base();
    d.label = "option:two-tcp-clusters-one-address".into();
    for n in ["t1", "t2"] {
        d.clusters.push(Cluster { name: n.into(), proto: "tcp", extra: vec![], fronts: vec![Front { addr: A_TCP.into(), ..Default::default() }], backends: vec![] });
    }
    v.push(d);
    v
}

fn family_scale() -> Vec<Desc> {
    let mut v = vec![];
    for n in [1usize, 2, 100, 254, 255, 256, 257, 1000] {
        // n backends in one cluster
        let mut d = base();
        d.label = format!("scale:backends={n}");
        d.clusters[0].backends = (0..n).map(|i| Backend { addr: format!("127.0.{}.{}:1000", i / 250, 1 + i % 250), id: None, extra: vec![] }).collect();
        v.push(d);
        // n frontends in one cluster
        let mut d = base();
        d.label = format!("scale:frontends={n}");
        d.clusters[0].fronts = (0..n).map(|i| front(A_HTTP, &format!("h{i}.example.com"), None, false)).collect();
        v.push(d);
        // n clusters
        let mut d = base();
        d.label = format!("scale:clusters={n}");
        d.clusters = (0..n)
            .map(|i| Cluster {
                name: format!("c{i}"),
                proto: "http",
                extra: vec![],
                fronts: vec![front(A_HTTP, &format!("c{i}.example.com"), None, false)],
                backends: vec![Backend { addr: format!("127.0.{}.{}:1000", i / 250, 1 + i % 250), id: None, extra: vec![] }],
            })
            .collect();
        v.push(d);
        // n tcp listeners
        let mut d = Desc { label: format!("scale:listeners={n}"), ..Default::default() };
        d.listeners = (0..n).map(|i| Listener { proto: "tcp", addr: format!("127.0.0.1:{}", 10000 + i), extra: vec![] }).collect();
        v.push(d);
    }
    v
}

fn family_neighbours() -> Vec<Desc> {
    let mut v = vec![];
    let mut add = |label: &str, why: &'static str, m: &dyn Fn(&mut Desc)| {
        let mut d = base();
        d.label = format!("neighbour:{label}");
        d.must_reject = Some(why);
        m(&mut d);
        v.push(d);
    };
    add("unknown-protocol", "unknown listener protocol", &|d| d.listeners[0].proto = "quic");
    add("duplicate-listener-address", "two listeners on one address", &|d| d.listeners.push(Listener { proto: "tcp", addr: A_HTTP.into(), extra: vec![] }));
    add("h2-with-small-buffer", "h2 ALPN with buffer_size below 16393", &|d| d.top.push("buffer_size = 8192".into()));
    add("h2-with-small-buffer-on-implied-listener", "h2 ALPN with buffer_size below 16393", &|d| {
        // the HTTPS listener is not declared: the frontend carrying a certificate on its address implies it
        d.top.push("buffer_size = 8192".into());
        d.listeners.remove(1);
    });
    add("hsts-on-http-listener", "hsts on a plain http listener", &|d| d.listeners[0].extra.push("[listeners.hsts]\nenabled = true\nmax_age = 10".into()));
    add("public-address-with-expect-proxy", "public_address with expect_proxy", &|d| {
        d.listeners[0].extra.push("public_address = \"10.0.0.1:80\"".into());
        d.listeners[0].extra.push("expect_proxy = true".into());
    });
    add("https-frontend-without-certificate", "https frontend without any certificate", &|d| d.clusters[0].fronts[1].cert = false);
    add("https-frontend-without-certificate-beside-a-listener-that-has-one", "https frontend without any certificate", &|d| {
        // another HTTPS listener, declared first, has a certificate of its own: it is not this frontend's
        d.listeners.insert(0, Listener { proto: "https", addr: A_HTTPS2.into(), extra: listener_cert(CERT, KEY) });
        d.clusters[0].fronts[1].cert = false;
    });
    add("certificate-on-http-listener", "certificate on a plain http listener", &|d| d.clusters[0].fronts[0].cert = true);
    add("tcp-cluster-on-http-listener", "tcp frontend on an http listener", &|d| {
        d.clusters.push(Cluster { name: "t".into(), proto: "tcp", extra: vec![], fronts: vec![Front { addr: A_HTTP.into(), ..Default::default() }], backends: vec![] })
    });
    add("http-frontend-without-hostname", "http frontend without hostname", &|d| d.clusters[0].fronts[0].hostname = None);
    add("tcp-frontend-with-hostname", "tcp frontend with a hostname", &|d| {
        d.clusters.push(Cluster { name: "t".into(), proto: "tcp", extra: vec![], fronts: vec![Front { addr: A_TCP.into(), hostname: Some("x.io".into()), ..Default::default() }], backends: vec![] })
    });
    add("unknown-field", "unknown field in a frontend", &|d| d.clusters[0].fronts[0].extra.push("colour = \"blue\"".into()));
    add("bad-path-type", "unknown path_type", &|d| d.clusters[0].fronts[0].path_type = Some("GLOB"));
    add("bad-load-balancing", "unknown load balancing policy", &|d| d.clusters[0].extra.push("load_balancing = \"FASTEST\"".into()));
    add("weight-out-of-range", "backend weight above 255", &|d| d.clusters[0].backends[0].extra.push("weight = 300".into()));
    add("bad-alpn", "unknown ALPN protocol", &|d| d.listeners[1].extra.push("alpn_protocols = [\"spdy\"]".into()));
    add("bad-health-check", "health check uri without leading slash", &|d| d.clusters[0].extra.push("[clusters.app.health_check]\nuri = \"health\"".into()));
    add("same-frontend-in-two-clusters", "one (address, hostname, path) frontend declared by two clusters", &|d| {
        let mut c2 = d.clusters[0].clone();
        c2.name = "app2".into();
        c2.fronts.truncate(1);
        d.clusters.push(c2);
    });
    add("duplicate-frontend-in-one-cluster", "the same frontend twice in one cluster", &|d| {
        let f = d.clusters[0].fronts[0].clone();
        d.clusters[0].fronts.push(f);
    });
    v
}

// ------------------------------------------------------------------ oracle

struct Outcome {
    class: String,
    bad: Vec<(String, String)>,
}

fn run_desc(d: &Desc) -> Outcome {
    let text = toml_of(d);
    let mut f = tempfile::Builder::new()
        .prefix("sozu-verif-c20-")
        .suffix(".toml")
        .tempfile_in("/dev/shm")
        .or_else(|_| tempfile::NamedTempFile::new())
        .unwrap_or_else(|e| machinery_error(&format!("tempfile: {e}")));
    f.write_all(text.as_bytes()).unwrap();
    f.flush().unwrap();
    let path = f.path().to_str().unwrap().to_owned();
    let mut bad = vec![];
    let loaded = Config::load_from_path(&path);
    let config = match loaded {
        Err(e) => {
            if d.must_reject.is_none() {
                bad.push(("valid-file-rejected".to_owned(), format!("loader rejected a well-formed file: {e}")));
            }
            return Outcome { class: "rejected-at-load".into(), bad };
        }
        Ok(c) => c,
    };
    let messages: Vec<WorkerRequest> = match config.generate_config_messages() {
        Err(e) => {
            if d.must_reject.is_none() {
                bad.push(("valid-file-rejected".to_owned(), format!("generate_config_messages failed: {e}")));
            }
            return Outcome { class: "rejected-at-generate".into(), bad };
        }
        Ok(m) => m,
    };
    // ids unique
    let ids: BTreeSet<&str> = messages.iter().map(|m| m.id.as_str()).collect();
    if ids.len() != messages.len() {
        bad.push(("duplicate-message-ids".to_owned(), format!("{} messages carry only {} distinct ids", messages.len(), ids.len())));
    }
    let mut state = ConfigState::new();
    let mut rejected = vec![];
    for m in &messages {
        if let Err(e) = state.dispatch(&m.content) {
            rejected.push(format!("{}: {e}", m.content.short_name()));
        }
    }
    if let Some(why) = d.must_reject {
        let detail = if rejected.is_empty() {
            "and every message was applied".to_owned()
        } else {
            format!("and the state then refused {} of its messages ({})", rejected.len(), rejected[0])
        };
        bad.push((format!("invalid-file-accepted:{}", d.label.trim_start_matches("neighbour:").split(':').next().unwrap_or("")), format!("a file violating '{why}' was accepted by the loader {detail}")));
        return Outcome { class: "accepted-invalid".into(), bad };
    }
    if !rejected.is_empty() {
        bad.push(("message-rejected-by-fresh-state".to_owned(), format!("{} of {} generated messages were refused by a fresh state, first: {}", rejected.len(), messages.len(), rejected[0])));
    }
    // ---- the state contains exactly what the file declares
    let activate = !d.top.iter().any(|t| t == "activate_listeners = false");
    let fl = flat(&state, false);
    let count = |prefix: &str| fl.keys().filter(|k| k.starts_with(prefix)).count();
    // listeners: declared ones plus one default listener per frontend address without listener
    let mut want_listeners: BTreeMap<String, &str> = BTreeMap::new();
    for l in &d.listeners {
        want_listeners.insert(norm_addr(&l.addr), l.proto);
    }
    for c in &d.clusters {
        for f in &c.fronts {
            let a = norm_addr(&f.addr);
            if !want_listeners.contains_key(&a) {
                want_listeners.insert(a, if c.proto == "tcp" { "tcp" } else if f.cert { "https" } else { "http" });
            }
        }
    }
    for (a, p) in &want_listeners {
        let key = format!("{p}_listener/{a}");
        match fl.get(&key) {
            None => bad.push(("listener-missing".to_owned(), format!("declared {p} listener {a} is not in the resulting configuration"))),
            Some(body) => {
                let active = body.contains("\"active\":true");
                if active != activate {
                    bad.push(("listener-activation".to_owned(), format!("listener {a}: active={active}, file says activate_listeners={activate}")));
                }
            }
        }
    }
    let total_listeners = count("http_listener/") + count("https_listener/") + count("tcp_listener/") + count("udp_listener/");
    if total_listeners != want_listeners.len() {
        bad.push(("listener-count".to_owned(), format!("{} listeners in the configuration, {} declared/implied", total_listeners, want_listeners.len())));
    }
    if count("cluster/") != d.clusters.len() {
        bad.push(("cluster-count".to_owned(), format!("{} clusters in the configuration, {} declared", count("cluster/"), d.clusters.len())));
    }
    let mut want_fronts = 0;
    let mut want_backends = 0;
    let mut want_certs: BTreeSet<String> = BTreeSet::new();
    for c in &d.clusters {
        if !fl.contains_key(&format!("cluster/{}", c.name)) {
            bad.push(("cluster-missing".to_owned(), format!("cluster {} missing", c.name)));
        }
        want_backends += c.backends.len();
        for (bi, b) in c.backends.iter().enumerate() {
            let a = norm_addr(&b.addr);
            let id = b.id.clone().unwrap_or_else(|| format!("{}-{}-{}", c.name, bi, a));
            let key = format!("backend/{}/{}@{}", c.name, id, a);
            match fl.get(&key) {
                None => bad.push(("backend-missing".to_owned(), format!("declared backend {key} is not in the configuration"))),
                Some(body) => {
                    let w = b.extra.iter().find_map(|e| e.strip_prefix("weight = ")).unwrap_or("100");
                    if !body.contains(&format!("\"weight\":{w}")) {
                        bad.push(("backend-weight".to_owned(), format!("{key}: expected weight {w}, got {body}")));
                    }
                }
            }
        }
        for f in &c.fronts {
            want_fronts += 1;
            let a = norm_addr(&f.addr);
            let proto = want_listeners.get(&a).copied().unwrap_or("?");
            let found = match proto {
                "tcp" => fl.keys().any(|k| k.starts_with(&format!("tcp_front/{}/{}/", c.name, a))),
                "udp" => fl.keys().any(|k| k.starts_with(&format!("udp_front/{}/{}/", c.name, a))),
                p => {
                    let kind = match f.path_type {
                        Some("REGEX") => "R",
                        Some("EQUALS") => "=",
                        _ => "P",
                    };
                    let mut key = format!("{}_front/{};{};{}{}", p, a, f.hostname.clone().unwrap_or_default(), kind, f.path.clone().unwrap_or_default());
                    if let Some(m) = f.method {
                        key.push_str(&format!(";{m}"));
                    }
                    if f.cert {
                        want_certs.insert(a.clone());
                    }
                    match fl.get(&key) {
                        None => false,
                        Some(body) => {
                            if !body.contains(&format!("\"cluster_id\":\"{}\"", c.name)) {
                                bad.push(("frontend-wrong-cluster".to_owned(), format!("{key} belongs to another cluster: {body}")));
                            }
                            true
                        }
                    }
                }
            };
            if !found {
                bad.push(("frontend-missing".to_owned(), format!("declared frontend {} {} {:?} of cluster {} is not in the configuration", a, f.hostname.clone().unwrap_or_default(), f.path, c.name)));
            }
        }
    }
    let got_fronts = count("http_front/") + count("https_front/") + count("tcp_front/") + count("udp_front/");
    if got_fronts != want_fronts {
        bad.push(("frontend-count".to_owned(), format!("{got_fronts} frontends in the configuration, {want_fronts} declared")));
    }
    if count("backend/") != want_backends {
        bad.push(("backend-count".to_owned(), format!("{} backends in the configuration, {want_backends} declared", count("backend/"))));
    }
    for a in &want_certs {
        if !fl.keys().any(|k| k.starts_with(&format!("cert/{a}/"))) {
            bad.push(("certificate-missing".to_owned(), format!("no certificate loaded for {a}")));
        }
    }
    // a frontend without a certificate of its own gets its own listener's, never another listener's
    let fp_of = |path: &str| std::fs::read_to_string(path).ok().map(|pem| crate::cfgspace::fp(&pem));
    let listener_fp: BTreeMap<String, String> = d
        .listeners
        .iter()
        .filter_map(|l| {
            let path = l.extra.iter().find_map(|e| e.strip_prefix("certificate = \""))?.trim_end_matches('"').to_owned();
            Some((norm_addr(&l.addr), fp_of(&path)?))
        })
        .collect();
    for l in d.listeners.iter().filter(|l| l.proto == "https") {
        let a = norm_addr(&l.addr);
        let own = listener_fp.get(&a);
        let fronts_here: Vec<&Front> = d.clusters.iter().flat_map(|c| c.fronts.iter()).filter(|f| norm_addr(&f.addr) == a).collect();
        let loaded: Vec<String> = fl.keys().filter_map(|k| k.strip_prefix(&format!("cert/{a}/"))).map(|s| s.to_owned()).collect();
        if fronts_here.iter().any(|f| !f.cert) {
            match own {
                Some(fp) if !loaded.iter().any(|l| l.eq_ignore_ascii_case(fp)) => bad.push(("listener-certificate-not-inherited".to_owned(), format!("a frontend on {a} has no certificate of its own; its listener's ({fp}) is not loaded there (loaded: {loaded:?})"))),
                _ => {}
            }
        }
        for fp in &loaded {
            let is_own = own.is_some_and(|o| o.eq_ignore_ascii_case(fp));
            let from_front = fronts_here.iter().any(|f| f.cert) && fp_of(CERT).is_some_and(|c| c.eq_ignore_ascii_case(fp));
            let elsewhere = listener_fp.iter().any(|(other, ofp)| *other != a && ofp.eq_ignore_ascii_case(fp));
            if !is_own && !from_front && elsewhere {
                bad.push(("certificate-of-another-listener".to_owned(), format!("{a} serves certificate {fp}, which the file gives to another listener only")));
            }
        }
    }
    // ---- loading the same file again changes nothing
    let mut again = state.clone();
    for m in &messages {
        let _ = again.dispatch(&m.content);
    }
    if flat(&again, false) != fl {
        bad.push(("reload-changes-state".to_owned(), "dispatching the same command list over the state it produced changed the state".to_owned()));
    }
    match Config::load_from_path(&path).and_then(|c| c.generate_config_messages()) {
        Ok(m2) => {
            let mut s2 = ConfigState::new();
            for m in &m2 {
                let _ = s2.dispatch(&m.content);
            }
            let diff = state.diff(&s2);
            if !diff.is_empty() {
                bad.push(("reload-diff-nonempty".to_owned(), format!("loading the same file twice gives configurations that differ by {} commands, first: {}", diff.len(), diff[0].short_name())));
            }
        }
        Err(e) => bad.push(("reload-failed".to_owned(), e.to_string())),
    }
    // activation must come after the listener exists (checked by 'message-rejected'); also check order of cluster before its parts
    let mut seen_clusters: BTreeSet<String> = BTreeSet::new();
    for m in &messages {
        match &m.content.request_type {
            Some(RequestType::AddCluster(c)) => {
                seen_clusters.insert(c.cluster_id.clone());
            }
            Some(RequestType::AddBackend(b)) if !seen_clusters.contains(&b.cluster_id) => {
                bad.push(("backend-before-cluster".to_owned(), format!("AddBackend for {} precedes its AddCluster", b.cluster_id)));
            }
            _ => {}
        }
    }
    Outcome { class: "accepted".into(), bad }
}

fn norm_addr(a: &str) -> String {
    a.parse::<std::net::SocketAddr>().map(|s| s.to_string()).unwrap_or_else(|_| a.to_owned())
}

pub fn run(ctx: &Ctx) -> Coverage {
    let mut all = vec![];
    all.extend(family_options());
    all.extend(family_neighbours());
    all.extend(family_structure());
    all.extend(family_scale());
    if ctx.tier() == crate::common::Tier::Thorough {
        // pairwise option combinations on the base file
        let opts = family_options();
        for (i, a) in opts.iter().enumerate().skip(1) {
            for b in opts.iter().skip(i + 1) {
                if a.label.split(':').nth(1) == b.label.split(':').nth(1) && a.label.contains("frontend") {
                    continue;
                }
                let mut d = a.clone();
                d.label = format!("{}+{}", a.label, b.label);
                d.top.extend(b.top.iter().cloned());
                let keys = |e: &str| -> Vec<String> { e.lines().map(|l| l.split('=').next().unwrap_or("").trim().to_owned()).collect() };
                let mut clash = false;
                for (la, lb) in d.listeners.iter_mut().zip(b.listeners.iter()) {
                    for e in &lb.extra {
                        if la.extra.iter().any(|x| keys(x).iter().any(|k| keys(e).contains(k))) {
                            clash = true;
                        } else {
                            la.extra.push(e.clone());
                        }
                    }
                    // documented incompatibility
                    if la.extra.iter().any(|x| x.starts_with("expect_proxy = true")) && la.extra.iter().any(|x| x.starts_with("public_address")) {
                        clash = true;
                    }
                }
                if clash {
                    continue;
                }
                if d.listeners.len() < b.listeners.len() || d.clusters.len() != b.clusters.len() {
                    continue;
                }
                for e in &b.clusters[0].extra {
                    let k = e.split('=').next().unwrap_or("").trim().to_owned();
                    if !d.clusters[0].extra.iter().any(|x| x.split('=').next().unwrap_or("").trim() == k) {
                        d.clusters[0].extra.push(e.clone());
                    }
                }
                all.push(d);
            }
        }
    }
    let evals = AtomicU64::new(0);
    let classes = std::sync::Mutex::new(BTreeMap::<String, u64>::new());
    par_map(&all, ncpu(), |_, d| {
        evals.fetch_add(1, Ordering::Relaxed);
        let weight = (d.listeners.len() + d.clusters.iter().map(|c| 1 + c.fronts.len() + c.backends.len()).sum::<usize>()) as u64;
        match guarded(|| run_desc(d)) {
            Err(p) => {
                let fam = d.label.split(':').next().unwrap_or("").to_owned();
                let class = if p.contains("overflow") { "arithmetic-overflow" } else { "other" };
                ctx.violation_w(format!("C20|loader-panic:{fam}:{class}"), format!("{}: loader panicked: {p}", d.label), json!({"label": d.label, "toml": toml_of(d).chars().take(4000).collect::<String>()}), weight);
                *classes.lock().unwrap().entry("panic".into()).or_insert(0) += 1;
            }
            Ok(o) => {
                *classes.lock().unwrap().entry(o.class.clone()).or_insert(0) += 1;
                for (k, desc) in o.bad {
                    ctx.violation_w(format!("C20|{k}"), format!("{}: {desc}", d.label), json!({"label": d.label, "toml": toml_of(d).chars().take(4000).collect::<String>()}), weight);
                }
            }
        }
    });
    ctx.sample(json!({"label": all[0].label, "toml": toml_of(&all[0])}));
    let n = all.len() as u64;
    let cl = classes.lock().unwrap().clone();
    Coverage {
        states: n,
        transitions: n,
        evaluations: evals.load(Ordering::Relaxed),
        distinct_nontrivial: n,
        distinct_outcomes: cl.len() as u64,
        rule: "generated TOML files: (structure) every subset of {http, https, tcp, udp} listeners x 0-2 clusters x protocol x 0-2 frontends (on declared listeners, on undeclared addresses, on listeners of the wrong protocol) x 0-2 backends; (options) every optional top-level / listener / cluster / frontend / backend field toggled on a base file (pairwise in the thorough tier); (scale) 1, 2, 100, 254, 255, 256, 257, 1000 backends / frontends / clusters / listeners; (neighbours) 20 constraint-violating files. Each accepted file must yield commands a fresh ConfigState accepts in full, the resulting state must contain exactly the declared objects, and reloading must change nothing; each violating file must be rejected at load".into(),
        exhaustive: true,
        bound: json!({"files": n}),
        extra: json!({"load_outcomes": cl}),
        assumptions: vec![
            "documented defaults are checked for the fields the oracle names (activation, backend id pattern, weight 100, path kind, listener implied by a frontend); other defaults are covered only through reload idempotence and the C05 round trips".into(),
        ],
        ..Default::default()
    }
}

pub fn replay(ctx: &Ctx, case: &Value) -> Coverage {
    let label = case["label"].as_str().unwrap_or("");
    let mut all = vec![];
    all.extend(family_options());
    all.extend(family_neighbours());
    all.extend(family_structure());
    all.extend(family_scale());
    if let Some(d) = all.iter().find(|d| d.label == label) {
        match guarded(|| run_desc(d)) {
            Err(p) => ctx.violation(format!("C20|loader-panic:{}:{}", label.split(':').next().unwrap_or(""), if p.contains("overflow") { "arithmetic-overflow" } else { "other" }), p, case.clone()),
            Ok(o) => {
                for (k, desc) in o.bad {
                    ctx.violation(format!("C20|{k}"), desc, case.clone());
                }
            }
        }
    } else {
        machinery_error("replay: unknown file label");
    }
    Coverage { states: 1, transitions: 1, evaluations: 1, distinct_nontrivial: 1, distinct_outcomes: 1, rule: "replay".into(), ..Default::default() }
}
