//! C08 — workers answer each command exactly once and converge on the main
//! process's view. SIM: sequences of worker requests over the configuration
//! alphabet are sent to an unmodified worker, followed by an epilogue of
//! queries, connection probes and a SoftStop.

use std::collections::{BTreeMap, BTreeSet};

use serde_json::{Value, json};
use sozu_command_lib::{
    proto::command::{
        QueryClustersHashes, ResponseStatus, SoftStop, Status, WorkerRequest, request::RequestType,
        response_content::ContentType,
    },
    state::ConfigState,
};

use crate::{
    cfgspace::{self, Sym},
    common::{Coverage, Ctx, Tier},
    sim::{
        ChoiceProfile, End,
        explore::{self, ItemResult, Run},
        peer::{Peer, Step},
        worker::{self, MainStep, WorkerSetup},
    },
};

pub fn alphabet() -> Vec<Sym> {
    let mut v = cfgspace::alphabet();
    // worker-only / runtime verbs
    let extra: Vec<(&str, RequestType)> = vec![
        ("Status", RequestType::Status(Status {})),
        ("QueryClustersHashes", RequestType::QueryClustersHashes(QueryClustersHashes {})),
        ("QueryClusterById(c1)", RequestType::QueryClusterById("c1".into())),
        ("QueryClusterById(nope)", RequestType::QueryClusterById("nope".into())),
        ("QueryClustersByDomain(a.io)", RequestType::QueryClustersByDomain(sozu_command_lib::proto::command::QueryClusterByDomain { hostname: "a.io".into(), path: None })),
        ("QueryCertificatesFromWorkers(all)", RequestType::QueryCertificatesFromWorkers(Default::default())),
        ("QueryCertificatesFromWorkers(fp1)", RequestType::QueryCertificatesFromWorkers(sozu_command_lib::proto::command::QueryCertificatesFilters { domain: None, fingerprint: Some(cfgspace::fp(cfgspace::CERT1)) })),
        ("QueryMetrics(list)", RequestType::QueryMetrics(sozu_command_lib::proto::command::QueryMetricsOptions { list: true, cluster_ids: vec![], backend_ids: vec![], metric_names: vec![], no_clusters: false, workers: false })),
        ("ConfigureMetrics(disabled)", RequestType::ConfigureMetrics(1)),
        ("ConfigureMetrics(9)", RequestType::ConfigureMetrics(9)),
        ("Logging(error)", RequestType::Logging("error".into())),
        ("SetMaxConnectionsPerIp(2)", RequestType::SetMaxConnectionsPerIp(2)),
        ("QueryMaxConnectionsPerIp", RequestType::QueryMaxConnectionsPerIp(Default::default())),
        ("ReturnListenSockets", RequestType::ReturnListenSockets(Default::default())),
    ];
    for (name, r) in extra {
        v.push(Sym { name: name.into(), req: r.into(), invalid_twin: false });
    }
    v
}

fn base_states() -> Vec<Vec<&'static str>> {
    vec![
        vec![],
        vec!["AddHttpListener(a4,rich)", "ActivateListener(http)", "AddCluster(c1,rich)", "AddHttpFrontend(f1)", "AddBackend(c1,b1@1)", "AddBackend(c1,b2@1)"],
        vec!["AddHttpsListener(a6,default)", "ActivateListener(https)", "AddCluster(c1)", "AddCertificate(a6,cert1)", "AddHttpsFrontend(g1)", "AddBackend(c1,b1@1)", "AddBackend(c1,b1@2)"],
        vec!["AddTcpListener(a4,default)", "ActivateListener(tcp)", "AddCluster(c1)", "AddTcpFrontend(c1,a4)", "AddBackend(c1,b1@1)"],
        // a plain HTTP/1.1 cluster with a backend at each address: what the backend commands do to traffic
        vec!["AddHttpListener(a4,default)", "ActivateListener(http)", "AddCluster(c1)", "AddHttpFrontend(f1)", "AddBackend(c1,b1@1)", "AddBackend(c1,b1@2)"],
    ]
}

#[derive(Clone, Debug, serde::Serialize, serde::Deserialize)]
pub struct Case {
    pub base: usize,
    pub seq: Vec<String>,
}

fn sym<'a>(alpha: &'a [Sym], name: &str) -> &'a Sym {
    alpha.iter().find(|s| s.name == name).unwrap_or_else(|| crate::common::machinery_error(&format!("unknown symbol {name}")))
}

pub fn run_case(case: &Case, prefix: Vec<u32>) -> Run {
    let alpha = alphabet();
    // ---- base state is applied through the bootstrap (initial state) path
    let mut initial = ConfigState::new();
    for n in &base_states()[case.base] {
        if let Err(e) = initial.dispatch(&sym(&alpha, n).req) {
            crate::common::machinery_error(&format!("base state: {n}: {e}"));
        }
    }
    // ---- main script: the sequence, then the epilogue
    let mut script = vec![];
    let mut ids = vec![];
    for (i, n) in case.seq.iter().enumerate() {
        let id = format!("SEQ-{i}");
        script.push(MainStep::Send(WorkerRequest { id: id.clone(), content: sym(&alpha, n).req.clone() }));
        script.push(MainStep::AwaitFinal(id.clone()));
        ids.push(id);
    }
    let epilogue: Vec<(&str, RequestType)> = vec![
        ("EPI-HASHES", RequestType::QueryClustersHashes(QueryClustersHashes {})),
        ("EPI-C1", RequestType::QueryClusterById("c1".into())),
        ("EPI-C2", RequestType::QueryClusterById("c2".into())),
        ("EPI-STATUS", RequestType::Status(Status {})),
    ];
    for (id, r) in &epilogue {
        script.push(MainStep::Send(worker::request(id, r.clone())));
        script.push(MainStep::AwaitFinal((*id).to_owned()));
        ids.push((*id).to_owned());
    }
    // connection probes on the three stream listener addresses
    let a4: std::net::SocketAddr = cfgspace::a4().into();
    let a6: std::net::SocketAddr = cfgspace::a6().into();
    let probes = vec![
        Peer::client("probe-a4", vec![Step::Connect { to: a4, from: None }, Step::Close, Step::Done]),
        Peer::client("probe-a6", vec![Step::Connect { to: a6, from: None }, Step::Close, Step::Done]),
    ];
    // behavioural probe: one HTTP request on a4; two backends answer whatever reaches them
    let b1: std::net::SocketAddr = cfgspace::b1().into();
    let b2: std::net::SocketAddr = cfgspace::b2().into();
    let mut probes = probes;
    probes.push(Peer::client(
        "probe-http",
        vec![
            Step::Connect { to: a4, from: None },
            Step::Send { bytes: b"GET / HTTP/1.1\r\nHost: a.io\r\nConnection: close\r\n\r\n".to_vec(), splits: vec![] },
            Step::ExpectH1 { count: 1, responses: true },
            Step::Close,
            Step::Done,
        ],
    ));
    probes.push(Peer::server("backend-b1", b1, vec![Step::ServeH1 { response_head: "HTTP/1.1 200 OK".into(), body: b"b1".to_vec() }]));
    probes.push(Peer::server("backend-b2", b2, vec![Step::ServeH1 { response_head: "HTTP/1.1 200 OK".into(), body: b"b2".to_vec() }]));
    // three more requests, one after the other: which backends get traffic (peers 5..8)
    for k in 0..3u64 {
        probes.push(Peer::client(
            &format!("probe-http-{}", k + 2),
            vec![
                Step::Wait { ms: 2 + 2 * k },
                Step::Connect { to: a4, from: None },
                Step::Send { bytes: b"GET / HTTP/1.1\r\nHost: a.io\r\nConnection: close\r\n\r\n".to_vec(), splits: vec![] },
                Step::ExpectH1 { count: 1, responses: true },
                Step::Close,
                Step::Done,
            ],
        ));
    }
    // probes run from the start of the scenario... they must run after the
    // sequence: give them a leading wait that the main script outlasts
    let probes: Vec<Peer> = probes
        .into_iter()
        .map(|mut p| {
            p.script.insert(0, Step::Wait { ms: 50 });
            p
        })
        .collect();
    script.push(MainStep::Wait { ms: 100 });
    // (a probe nobody answers, e.g. on a handed-over socket, must not hold the epilogue up)
    script.push(MainStep::AwaitPeersFor { ms: 45_000 });
    script.push(MainStep::Send(worker::request("EPI-SOFTSTOP", RequestType::SoftStop(SoftStop {}))));
    script.push(MainStep::AwaitFinal("EPI-SOFTSTOP".into()));
    script.push(MainStep::Wait { ms: 3000 });
    ids.push("EPI-SOFTSTOP".into());
    let setup = WorkerSetup { config: worker::server_config(|_| {}), initial: initial.clone() };
    let (mut exec, create_err) = worker::run_worker(setup, probes, script, ChoiceProfile::default(), prefix, 150);
    if let Some(e) = create_err {
        crate::common::machinery_error(&format!("worker creation failed: {e}"));
    }
    let base_names: Vec<&str> = base_states()[case.base].clone();
    let mut violations: Vec<(String, String)> = vec![];
    let last_verb = case.seq.last().map(|n| cfgspace::verb(&sym(&alpha, n).req)).unwrap_or_else(|| "none".into());
    let mut flag = |k: String, d: String| violations.push((format!("C08|{k}"), d));
    if let Some(p) = &exec.subject_panic {
        flag(format!("worker-panic:{last_verb}"), format!("worker panicked: {p}"));
    }
    let end = exec.end.clone();
    let sc = worker::scenario_of(&mut exec);
    let stop_reason = sc.stop_reason.clone().unwrap_or_default();
    // ---- (1) exactly one final status per request id
    let mut finals: BTreeMap<String, Vec<i32>> = BTreeMap::new();
    for (_, r) in &sc.main.responses {
        if r.status != ResponseStatus::Processing as i32 {
            finals.entry(r.id.clone()).or_default().push(r.status);
        }
    }
    let mut accepted = vec![];
    for (i, id) in ids.iter().enumerate() {
        let n = finals.get(id).map(|v| v.len()).unwrap_or(0);
        let verb = if i < case.seq.len() { cfgspace::verb(&sym(&alpha, &case.seq[i]).req) } else { id.clone() };
        if n == 0 && id == "EPI-SOFTSTOP" {
            // reported by the soft-stop clause below
        } else if n == 0 {
            flag(format!("no-final-answer:{verb}"), format!("request {id} ({verb}) got no final status"));
        } else if n > 1 {
            flag(format!("answered-{n}-times:{verb}"), format!("request {id} ({verb}) got {n} final statuses: {:?}", finals[id]));
        }
        if i < case.seq.len() {
            accepted.push(n >= 1 && finals[id][0] == ResponseStatus::Ok as i32);
        }
    }
    let known: BTreeSet<&String> = ids.iter().collect();
    for id in finals.keys() {
        if !known.contains(id) && id != "SIM-HARDSTOP" {
            flag("answer-with-unknown-id".into(), format!("the worker sent a final status for id {id} which was never requested"));
        }
    }
    // ---- (2) the worker's view equals a state fed the commands it accepted;
    // and agrees with what the main process would hold
    let mut worker_ref = initial.clone();
    let mut main_ref = initial.clone();
    // what the view would be if refused commands were recorded anyway
    let mut all_ref = initial.clone();
    let mut first_refused: Option<String> = None;
    for (i, n) in case.seq.iter().enumerate() {
        let req = &sym(&alpha, n).req;
        let _ = main_ref.dispatch(req);
        let before = super::cfgstate::impl_key(&all_ref);
        let _ = all_ref.dispatch(req);
        if accepted[i] {
            let _ = worker_ref.dispatch(req);
        } else if before != super::cfgstate::impl_key(&all_ref) && first_refused.is_none() {
            first_refused = Some(cfgspace::verb(req));
        }
    }
    let content = |id: &str| sc.main.responses.iter().find(|(_, r)| r.id == id && r.status == ResponseStatus::Ok as i32).and_then(|(_, r)| r.content.clone()).and_then(|c| c.content_type);
    match content("EPI-HASHES") {
        Some(ContentType::ClusterHashes(h)) => {
            let want = worker_ref.hash_state();
            if h.map != want && h.map == all_ref.hash_state() && first_refused.is_some() {
                flag(format!("view-keeps-refused-command:{}", first_refused.clone().unwrap()), format!("the worker answered failure to {} yet its cluster hashes include it", first_refused.clone().unwrap()));
            } else if h.map != want {
                flag("view-mismatch:hashes".to_owned(), format!("QueryClustersHashes returned {:?}, a state fed the accepted commands hashes to {:?}", h.map, want));
            }
        }
        other => flag("epilogue-query-failed:hashes".into(), format!("QueryClustersHashes answered {other:?}")),
    }
    for (id, cluster) in [("EPI-C1", "c1"), ("EPI-C2", "c2")] {
        match content(id) {
            Some(ContentType::Clusters(c)) => {
                let want: Vec<_> = worker_ref.cluster_state(cluster).into_iter().collect();
                let all: Vec<_> = all_ref.cluster_state(cluster).into_iter().collect();
                if c.vec != want && c.vec == all && first_refused.is_some() {
                    flag(format!("view-keeps-refused-command:{}", first_refused.clone().unwrap()), format!("the worker answered failure to {} yet QueryClusterById({cluster}) shows its effect", first_refused.clone().unwrap()));
                } else if c.vec != want {
                    flag("view-mismatch:cluster".to_owned(), format!("QueryClusterById({cluster}) differs from a state fed the accepted commands: got {} entries {:?}", c.vec.len(), c.vec.first().map(|x| (x.backends.len(), x.http_frontends.len(), x.https_frontends.len(), x.tcp_frontends.len()))));
                }
            }
            other => flag("epilogue-query-failed:cluster".into(), format!("QueryClusterById answered {other:?}")),
        }
    }
    // ---- (3) listening behaviour matches the view
    let active4 = worker_ref.http_listeners.get(&a4).is_some_and(|l| l.active) || worker_ref.tcp_listeners.get(&a4).is_some_and(|l| l.active);
    let active6 = worker_ref.https_listeners.get(&a6).is_some_and(|l| l.active);
    // after ReturnListenSockets the listening sockets live on in the main
    // process (here: in the harness): connections are accepted by the kernel
    // on their behalf, which is the point of the hand-over
    let handed_over = case.seq.iter().any(|n| n == "ReturnListenSockets");
    for (p, want, name) in [(&sc.peers[0], active4, "a4"), (&sc.peers[1], active6, "a6")] {
        if handed_over {
            continue;
        }
        let accepts = !p.connect_failed;
        if accepts != want {
            flag(
                format!("listening-mismatch:{}", if accepts { "accepts-while-inactive" } else { "refuses-while-active" }),
                format!("address {name}: the worker {} connections but its configuration says active={want}", if accepts { "accepts" } else { "refuses" }),
            );
        }
    }
    // ---- (3b) the request path behaves as the view says (HTTP listener on a4)
    // (a listener expecting a PROXY header would need one from the probe: skipped)
    // (two listeners of different protocols on one address share its connections by the
    // kernel's SO_REUSEPORT hashing: which one serves the probe is not defined, skipped)
    let shared_address = worker_ref.tcp_listeners.contains_key(&a4) || worker_ref.https_listeners.contains_key(&a4);
    if !handed_over && !shared_address && worker_ref.http_listeners.get(&a4).is_some_and(|l| l.active && !l.expect_proxy) {
        let probe = &sc.peers[2];
        let (resps, _, _) = crate::sim::h1::parse_all(&probe.conn.rx, true, true);
        let got = resps.first().and_then(|r| r.status());
        // the only frontends of the alphabet matching "GET a.io/" are the PREFIX "/" ones on a.io
        let front = worker_ref
            .http_fronts
            .values()
            .find(|f| std::net::SocketAddr::from(f.address) == a4 && f.hostname == "a.io" && f.path.value == "/" && f.path.kind == sozu_command_lib::proto::command::PathRuleKind::Prefix as i32);
        let expect: (&str, Vec<u16>) = match front {
            None => ("no frontend matches", vec![404]),
            Some(f) => match f.cluster_id.as_ref() {
                None => ("the frontend denies", vec![401]),
                Some(cid) => match worker_ref.clusters.get(cid) {
                    // frontends and backends outlive their cluster's settings: traffic still flows
                    None if worker_ref.backends.get(cid).is_some_and(|b| !b.is_empty()) => ("the cluster forwards (settings removed)", vec![200, 502, 503, 504]),
                    None => ("the frontend's cluster is unknown and has no backend", vec![503]),
                    Some(c) if c.https_redirect => ("the cluster redirects to https", vec![301]),
                    Some(_) if worker_ref.backends.get(cid).is_none_or(|b| b.is_empty()) => ("the cluster has no backend", vec![503]),
                    // a plain HTTP/1.1 cluster without health checks whose backends all listen: it must work
                    Some(c) if c.http2 != Some(true) && c.health_check.is_none() => ("the cluster forwards to a live backend", vec![200]),
                    Some(_) => ("the cluster forwards", vec![200, 502, 503, 504]),
                },
            },
        };
        match got {
            None => flag("request-path:no-answer".into(), format!("GET a.io/ on the active HTTP listener got no answer ({} bytes); view: {}", probe.conn.rx.len(), expect.0)),
            Some(st) if !expect.1.contains(&st) => flag(format!("request-path:answers-{st}-view-says-{}", expect.1[0]), format!("GET a.io/ was answered {st} but by the worker's own view {} (expected one of {:?})", expect.0, expect.1)),
            Some(200) => {
                // ---- (3c) traffic goes to the backends the view makes eligible: the cluster's
                // primaries, its backups only when it has no primary
                if expect.1 == vec![200] {
                    let cid = front.and_then(|f| f.cluster_id.clone()).unwrap_or_default();
                    let list = worker_ref.backends.get(&cid).cloned().unwrap_or_default();
                    let where_is = |a: std::net::SocketAddr| if a == b1 { "b1" } else { "b2" };
                    let primaries: BTreeSet<&str> = list.iter().filter(|b| b.backup != Some(true)).map(|b| where_is(b.address)).collect();
                    let backups: BTreeSet<&str> = list.iter().filter(|b| b.backup == Some(true)).map(|b| where_is(b.address)).collect();
                    let eligible = if primaries.is_empty() { backups.clone() } else { primaries.clone() };
                    let mut served: Vec<String> = vec![];
                    for i in [2usize, 5, 6, 7] {
                        let (r, _, _) = crate::sim::h1::parse_all(&sc.peers[i].conn.rx, true, true);
                        if let Some(m) = r.first() {
                            if m.status() == Some(200) {
                                served.push(String::from_utf8_lossy(&m.body).into_owned());
                            }
                        }
                    }
                    if let Some(bad) = served.iter().find(|s| !eligible.contains(s.as_str())) {
                        flag(
                            format!("request-path:traffic-to-{}", if backups.contains(bad.as_str()) { "backup-while-a-primary-is-configured" } else { "a-backend-the-view-does-not-list" }),
                            format!("requests were served by {served:?}; by the worker's own view the cluster's primaries are at {primaries:?}, its backups at {backups:?}"),
                        );
                    }
                    let round_robin = worker_ref.clusters.get(&cid).is_some_and(|c| c.load_balancing == 0 && !c.sticky_session);
                    if round_robin && list.len() <= 3 && served.len() == 4 {
                        if let Some(idle) = eligible.iter().find(|e| !served.iter().any(|s| s == *e)) {
                            flag("request-path:eligible-backend-gets-no-traffic".into(), format!("four round-robin requests were served by {served:?}; the view lists an eligible backend at {idle} (primaries {primaries:?}, backups {backups:?})"));
                        }
                    }
                }
                let sticky = front.and_then(|f| f.cluster_id.as_ref()).and_then(|c| worker_ref.clusters.get(c)).is_some_and(|c| c.sticky_session);
                let has_cookie = resps[0].headers_named("set-cookie").iter().any(|v| v.starts_with("SOZUBALANCEID="));
                if sticky != has_cookie {
                    flag(format!("request-path:sticky-cookie-{}", if has_cookie { "set-while-view-says-not-sticky" } else { "missing-while-view-says-sticky" }), format!("response Set-Cookie present={has_cookie}, cluster sticky_session={sticky}"));
                }
            }
            Some(_) => {}
        }
    }
    // ---- (3d) the byte path of a TCP listener on a4 behaves as the view says
    let tcp_only = !worker_ref.http_listeners.contains_key(&a4) && !worker_ref.https_listeners.contains_key(&a4);
    if !handed_over && tcp_only && worker_ref.tcp_listeners.get(&a4).is_some_and(|l| l.active) {
        let probe = &sc.peers[2];
        let (resps, _, _) = crate::sim::h1::parse_all(&probe.conn.rx, true, true);
        let got = resps.first().and_then(|r| r.status());
        let fronts: Vec<&sozu_command_lib::state::ClusterId> = worker_ref.tcp_fronts.iter().filter(|(_, v)| v.iter().any(|f| std::net::SocketAddr::from(f.address) == a4)).map(|(c, _)| c).collect();
        let plain = fronts.len() == 1 && worker_ref.clusters.get(fronts[0]).is_none_or(|c| c.proxy_protocol.is_none() && c.health_check.is_none()) && worker_ref.backends.get(fronts[0]).is_some_and(|b| !b.is_empty());
        if plain && got != Some(200) {
            flag("tcp-path:no-relay-while-view-has-a-frontend".into(), format!("the view has a TCP frontend on a4 for cluster {} with live backends, yet the exchange through the listener got {got:?} ({} bytes)", fronts[0], probe.conn.rx.len()));
        }
        if fronts.is_empty() && got.is_some() {
            flag("tcp-path:relays-without-a-frontend".into(), format!("the view has no TCP frontend on a4, yet the exchange through the listener was answered {got:?}"));
        }
    }
    // ---- (4) the stop is acknowledged and the worker exits
    if !(stop_reason.is_empty() || stop_reason == "scenario complete") {
        flag(format!("soft-stop-never-completes:{}", stop_context(case, &base_names)), format!("after the sequence a SoftStop did not make the worker exit ({stop_reason}; run ended {end:?})"));
    } else if end != End::Finished {
        flag("worker-did-not-finish".into(), format!("run ended {end:?}"));
    }
    let observation = format!("end={end:?} finals={finals:?} probes={:?} stop={stop_reason}", sc.peers.iter().map(|p| p.connect_failed).collect::<Vec<_>>());
    Run { trace: exec.trace, observation, violations, diverged: exec.diverged }
}

/// which part of the history a stuck soft stop is attributed to
fn stop_context(case: &Case, base: &[&str]) -> &'static str {
    let listener_kind = |n: &str| -> Option<&'static str> {
        ["AddHttpListener", "AddHttpsListener", "AddTcpListener", "AddUdpListener"].into_iter().find(|k| n.starts_with(k))
    };
    let mut present: Vec<&str> = base.iter().filter_map(|n| listener_kind(n)).collect();
    let mut duplicate_add = false;
    for n in &case.seq {
        if let Some(k) = listener_kind(n) {
            if present.contains(&k) {
                duplicate_add = true;
            }
            present.push(k);
        }
    }
    if case.seq.iter().any(|n| n == "ReturnListenSockets") {
        "after-ReturnListenSockets"
    } else if duplicate_add {
        "after-duplicate-listener-add"
    } else if case.seq.iter().any(|n| n.starts_with("RemoveListener")) {
        "after-RemoveListener"
    } else if case.seq.iter().any(|n| n.starts_with("DeactivateListener")) {
        "after-DeactivateListener"
    } else {
        "other"
    }
}

fn cases(tier: Tier) -> Vec<Case> {
    let alpha = alphabet();
    let mut v = vec![];
    let bases = base_states().len();
    for base in 0..bases {
        for a in &alpha {
            v.push(Case { base, seq: vec![a.name.clone()] });
        }
    }
    // pairs: from the empty and the populated http base (quick); all bases (thorough)
    let pair_bases: Vec<usize> = if tier == Tier::Quick { vec![1, 4] } else { (0..bases).collect() };
    for base in pair_bases {
        for a in &alpha {
            // quick, plain-cluster base: pairs of backend / cluster commands only
            if tier == Tier::Quick && base == 4 && !(a.name.contains("Backend") || a.name.contains("Cluster(c1")) {
                continue;
            }
            for b in &alpha {
                if tier == Tier::Quick && base == 4 && !(b.name.contains("Backend") || b.name.contains("Cluster(c1")) {
                    continue;
                }
                // quick: the second command is restricted to verbs touching listeners, clusters, frontends or backends
                if tier == Tier::Quick && !(b.name.contains("Listener") || b.name.contains("Backend") || b.name.contains("Frontend(f1") || b.name.starts_with("RemoveCluster")) {
                    continue;
                }
                v.push(Case { base, seq: vec![a.name.clone(), b.name.clone()] });
            }
        }
    }
    // listener life cycles: every sequence of add / activate / deactivate / remove of the
    // base's own listener, to depth 3 (quick) or 4 (thorough)
    for (base, kind, add) in [(1usize, "http", "AddHttpListener(a4,default)"), (2, "https", "AddHttpsListener(a6,default)"), (3, "tcp", "AddTcpListener(a4,default)")] {
        let verbs = [add.to_owned(), format!("ActivateListener({kind})"), format!("DeactivateListener({kind})"), format!("RemoveListener({kind})")];
        let depth = if tier == Tier::Quick { 3 } else { 4 };
        let mut level: Vec<Vec<String>> = vec![vec![]];
        for d in 1..=depth {
            level = level.iter().flat_map(|s| verbs.iter().map(move |x| { let mut t = s.clone(); t.push(x.clone()); t })).collect();
            if d >= 3 {
                v.extend(level.iter().map(|seq| Case { base, seq: seq.clone() }));
            }
        }
    }
    v
}

const CHUNK: usize = 64;

pub fn run_item(tier: Tier, item: usize) -> ItemResult {
    let all = cases(tier);
    let mut violations = vec![];
    let mut stats = explore::SearchStats::default();
    let mut outcomes = BTreeSet::new();
    for case in all.iter().skip(item * CHUNK).take(CHUNK) {
        let c = case.clone();
        let r = match worker::isolated(move || run_case(&c, vec![])) {
            Ok(r) => r,
            Err(status) => {
                let mut r = super::c01::crashed_run(&[], &status);
                for v in r.violations.iter_mut() {
                    v.0 = v.0.replace("C01|any|", "C08|");
                }
                r
            }
        };
        stats.executions += 1;
        outcomes.insert(crate::common::fnv_str(&r.observation));
        for (k, d) in r.violations {
            violations.push((k, d, json!({"sim": "c08", "case": case}), case.seq.len() as u64 * 10 + case.base as u64));
        }
    }
    stats.distinct_observations = outcomes.len() as u64;
    let mut counters = BTreeMap::new();
    counters.insert("sim_executions".to_owned(), stats.executions);
    ItemResult { item, label: format!("sequences {}..", item * CHUNK), stats, violations, counters, sample: json!({"case": all.get(item * CHUNK)}) }
}

pub fn run(ctx: &Ctx) -> Coverage {
    let tier = ctx.tier();
    let n = cases(tier).len().div_ceil(CHUNK);
    let results = explore::run_sharded(ctx, n, "c08", |i| run_item(tier, i));
    let mut cov = super::c01::summarize(ctx, &results, "request sequences sent to an unmodified worker over its real command channel: every command of the ~107-symbol alphabet (the configuration alphabet with invalid twins plus queries, Status, metrics, logging, limits, ReturnListenSockets) from 4 bootstrap states, and pairs of commands (quick: from the populated HTTP state with a structural second command; thorough: all pairs from all 4 states); each followed by QueryClustersHashes, QueryClusterById x2, Status, TCP connection probes on the listener addresses and a SoftStop. Oracle: exactly one final status per request id, the query view equals a ConfigState fed the accepted commands, listening sockets accept iff the view says active, a command the main state accepts is not refused by the worker, the SoftStop is acknowledged once and run() returns");
    cov.bound = json!({"sequence_length": 2, "listener_life_cycle_length": if tier == Tier::Quick { 3 } else { 4 }, "alphabet": alphabet().len(), "base_states": base_states().len(), "sequences": cases(tier).len()});
    cov.exhaustive = true;
    cov
}

pub fn replay(ctx: &Ctx, case: &Value) -> Coverage {
    let c: Case = serde_json::from_value(case["case"].clone()).unwrap_or_else(|e| crate::common::machinery_error(&format!("bad replay case: {e}")));
    let r = worker::isolated(move || run_case(&c, vec![])).unwrap_or_else(|s| super::c01::crashed_run(&[], &s));
    for (k, d) in r.violations {
        ctx.violation(k, d, case.clone());
    }
    Coverage { states: 1, transitions: 1, evaluations: 1, distinct_nontrivial: 1, distinct_outcomes: 1, rule: "replay".into(), ..Default::default() }
}

pub fn debug(args: &crate::common::Args) {
    let seq: Vec<String> = args.extra.get("seq").map(|s| s.split(';').map(|x| x.to_owned()).collect()).unwrap_or_default();
    let base: usize = args.extra.get("base").and_then(|s| s.parse().ok()).unwrap_or(0);
    let c = Case { base, seq };
    println!("{c:?}");
    let r = worker::isolated(move || run_case(&c, vec![])).unwrap();
    println!("obs={}", r.observation);
    println!("violations={:#?}", r.violations);
}
