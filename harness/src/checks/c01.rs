//! C01 — proxied HTTP bodies arrive complete, unmodified and in order.
//! SIM: an unmodified worker between scripted clients and backends; all
//! environment schedules with at most d deviations (short / would-block
//! reads and writes on both sockets, peer segmentation) per scenario.

use std::collections::BTreeMap;

use serde_json::{Value, json};

use crate::{
    common::{Coverage, Ctx, Tier},
    interpose::VIRTUAL_EPOCH_NS,
    sim::{
        ChoiceProfile, End, FdClass,
        explore::{self, ItemResult, Run},
        h1, scen,
        peer::{Peer, Step},
        worker::{self, MainStep, WorkerSetup},
    },
};

#[derive(Clone, Debug, serde::Serialize, serde::Deserialize, PartialEq)]
pub enum BodyFraming {
    None,
    ContentLength,
    /// chunk size pattern index
    Chunked(u8),
    /// response only: delimited by close
    UntilClose,
}

#[derive(Clone, Debug, serde::Serialize, serde::Deserialize)]
pub struct Case {
    pub pair: String, // "h1-h1"
    pub req: BodyFraming,
    pub req_size: usize,
    pub resp: BodyFraming,
    pub resp_size: usize,
    pub requests: usize,
    pub buffer_size: u64,
}

fn framing_name(f: &BodyFraming) -> &'static str {
    match f {
        BodyFraming::None => "none",
        BodyFraming::ContentLength => "content-length",
        BodyFraming::Chunked(_) => "chunked",
        BodyFraming::UntilClose => "until-close",
    }
}

fn chunk_pattern(p: u8, body: &[u8]) -> Vec<&[u8]> {
    let n = body.len();
    match p {
        0 => vec![body],
        1 if n > 1 => vec![&body[..1], &body[1..]],
        2 if n > 16 => {
            // many small chunks up front, then the rest
            let mut v: Vec<&[u8]> = (0..8).map(|i| &body[i..i + 1]).collect();
            v.push(&body[8..]);
            v
        }
        3 if n > 4096 => vec![&body[..4096], &body[4096..]],
        _ => vec![body],
    }
}

fn encode_body(f: &BodyFraming, body: &[u8]) -> (Vec<(String, String)>, Vec<u8>) {
    match f {
        BodyFraming::None => (vec![], vec![]),
        BodyFraming::ContentLength => (vec![("Content-Length".into(), body.len().to_string())], body.to_vec()),
        BodyFraming::Chunked(p) => (vec![("Transfer-Encoding".into(), "chunked".into())], h1::chunked(&chunk_pattern(*p, body))),
        BodyFraming::UntilClose => (vec![("Connection".into(), "close".into())], body.to_vec()),
    }
}

fn message(start: &str, host: Option<&str>, headers: &[(String, String)], payload: &[u8]) -> (Vec<u8>, usize) {
    let mut s = format!("{start}\r\n");
    if let Some(h) = host {
        s.push_str(&format!("Host: {h}\r\n"));
    }
    for (k, v) in headers {
        s.push_str(&format!("{k}: {v}\r\n"));
    }
    s.push_str("\r\n");
    let head_len = s.len();
    let mut v = s.into_bytes();
    v.extend_from_slice(payload);
    (v, head_len)
}

/// candidate split points of a message: inside the start line, end of the
/// head +-1, first body byte, chunk-size line, last byte
fn splits(total: usize, head_len: usize) -> Vec<usize> {
    let mut v = vec![1, 4, head_len.saturating_sub(2), head_len.saturating_sub(1), head_len, head_len + 1, head_len + 5, (head_len + total) / 2, total.saturating_sub(5), total.saturating_sub(1)];
    v.retain(|x| *x > 0 && *x < total);
    v.sort();
    v.dedup();
    v
}

pub fn run_case(case: &Case, prefix: Vec<u32>, profile: ChoiceProfile) -> Run {
    let front = scen::addr(1, 8080);
    let back = scen::addr(2, 9090);
    let n = case.requests;
    let mut client_script = vec![Step::Connect { to: front, from: None }];
    let mut backend_script = vec![Step::Accept];
    let mut want_req_bodies = vec![];
    let mut want_resp_bodies = vec![];
    for i in 0..n {
        let req_body = h1::coded_body(1 + i as u8, case.req_size);
        let resp_body = h1::coded_body(101 + i as u8, case.resp_size);
        let (rh, rp) = encode_body(&case.req, &req_body);
        let method = if case.req == BodyFraming::None { "GET" } else { "POST" };
        let (req_bytes, req_head) = message(&format!("{method} /r{i} HTTP/1.1"), Some("a.io"), &rh, &rp);
        let (sh, sp) = encode_body(&case.resp, &resp_body);
        let (resp_bytes, resp_head) = message("HTTP/1.1 200 OK", None, &sh, &sp);
        client_script.push(Step::Send { splits: splits(req_bytes.len(), req_head), bytes: req_bytes });
        client_script.push(Step::ExpectH1 { count: i + 1, responses: true });
        backend_script.push(Step::ExpectH1 { count: i + 1, responses: false });
        backend_script.push(Step::Send { splits: splits(resp_bytes.len(), resp_head), bytes: resp_bytes });
        if case.resp == BodyFraming::UntilClose {
            backend_script.push(Step::Close);
        }
        want_req_bodies.push(req_body);
        want_resp_bodies.push(resp_body);
    }
    client_script.push(Step::Done);
    backend_script.push(Step::Done);
    let backend = Peer::server("backend", back, backend_script);
    let client = Peer::client("client", client_script);
    let buffer_size = case.buffer_size;
    let setup = WorkerSetup { config: worker::server_config(|c| c.buffer_size = buffer_size), initial: scen::http_state(&scen::simple_http(front, back)) };
    let (mut exec, create_err) = worker::run_worker(setup, vec![backend, client], vec![MainStep::AwaitPeers], profile, prefix, 300);
    let mut violations: Vec<(String, String)> = vec![];
    let pair = format!("{}|{}/{}", case.pair, framing_name(&case.req), framing_name(&case.resp));
    let mut flag = |k: String, d: String| violations.push((format!("C01|{pair}|{k}"), d));
    if let Some(e) = create_err {
        crate::common::machinery_error(&format!("worker creation failed: {e}"));
    }
    if let Some(p) = &exec.subject_panic {
        flag("worker-panic".into(), format!("worker panicked: {p}"));
    }
    let end = exec.end.clone();
    let vms = exec.stats.virtual_ms;
    let sc = worker::scenario_of(&mut exec);
    let client = &sc.peers[1];
    let backend = &sc.peers[0];
    let client_eof = client.conn.eof || client.conn.reset;
    let (resps, consumed, perr) = h1::parse_all(&client.conn.rx, true, client_eof);
    let (reqs, _, rerr) = h1::parse_all(&backend.conn.rx, false, backend.conn.eof || backend.conn.reset);
    // ---- request direction
    for i in 0..n {
        match reqs.get(i) {
            None => flag(
                format!("request:{}", if rerr.is_some() { "malformed-at-backend" } else { "not-delivered" }),
                format!("request {i}: backend received {} complete requests ({} bytes), parse error {rerr:?}", reqs.len(), backend.conn.rx.len()),
            ),
            Some(m) => {
                if m.body != want_req_bodies[i] {
                    flag(format!("request:{}", classify(&m.body, &want_req_bodies[i])), format!("request {i}: backend got a {}-byte body, client sent {}", m.body.len(), want_req_bodies[i].len()));
                }
            }
        }
    }
    if reqs.len() > n {
        flag("request:duplicated".into(), format!("backend received {} requests, client sent {n}", reqs.len()));
    }
    // ---- response direction
    for i in 0..n {
        match resps.get(i) {
            None => {
                let class = if perr.is_some() { "truncated-or-malformed" } else if end != End::Finished || vms >= 1000 { "stalled" } else { "not-delivered" };
                flag(format!("response:{class}"), format!("response {i}: client received {} complete responses ({} bytes, eof={client_eof}), parse error {perr:?}, end {end:?} after {vms} virtual ms", resps.len(), client.conn.rx.len()));
            }
            Some(m) => {
                if m.status() != Some(200) {
                    flag(format!("response:status-{}", m.status().unwrap_or(0)), format!("response {i}: status line {:?}", m.start_line));
                } else if m.body != want_resp_bodies[i] {
                    flag(format!("response:{}", classify(&m.body, &want_resp_bodies[i])), format!("response {i}: client got a {}-byte body, backend sent {}", m.body.len(), want_resp_bodies[i].len()));
                }
            }
        }
    }
    if resps.len() > n || (perr.is_none() && consumed < client.conn.rx.len() && resps.len() >= n) {
        flag("response:extra-bytes".into(), format!("client received {} responses and {} trailing bytes", resps.len(), client.conn.rx.len() - consumed));
    }
    // a transfer rescued by a timer is a stall
    if let Some(t) = client.conn.last_rx_ns {
        let ms = (t - VIRTUAL_EPOCH_NS) / 1_000_000;
        if ms >= 1000 && resps.len() >= n {
            flag("response:completed-only-after-timer".into(), format!("the last response byte arrived after {ms} ms of virtual time: the transfer stalled until a timer fired"));
        }
    }
    if end != End::Finished && resps.len() >= n {
        flag(format!("worker-{end:?}").to_lowercase(), format!("exchange completed but the run ended with {end:?}"));
    }
    if std::env::var("C01_DUMP").is_ok() {
        eprintln!("---- client rx ({} bytes, eof={client_eof}):\n{}", client.conn.rx.len(), String::from_utf8_lossy(&client.conn.rx[..client.conn.rx.len().min(1500)]));
        eprintln!("---- backend rx ({} bytes):\n{}", backend.conn.rx.len(), String::from_utf8_lossy(&backend.conn.rx[..backend.conn.rx.len().min(800)]));
    }
    let observation = format!(
        "end={end:?} resps={:?} reqs={:?} perr={perr:?} rerr={rerr:?} client_eof={client_eof} vms={vms}",
        resps.iter().map(|m| (m.status(), m.body.len(), crate::common::fnv_of(&m.body))).collect::<Vec<_>>(),
        reqs.iter().map(|m| (m.method().to_owned(), m.body.len(), crate::common::fnv_of(&m.body))).collect::<Vec<_>>(),
    );
    Run { trace: exec.trace, observation, violations, diverged: exec.diverged }
}

/// an execution whose process died (livelock guard, abort, signal)
pub fn crashed_run(prefix: &[u32], status: &str) -> Run {
    let class = if status == "exit:42" || status == "signal:24" { "worker-livelock" } else if status == "exit:3" { "machinery" } else { "worker-crash" };
    if class == "machinery" {
        crate::common::machinery_error("an execution process reported a machinery error");
    }
    Run {
        trace: prefix.iter().map(|c| crate::sim::Point { kind: "replayed".into(), alternatives: c + 1, chosen: *c }).collect(),
        observation: format!("crashed:{status}"),
        violations: vec![(format!("C01|any|{class}"), if status == "signal:24" { "the worker span for 30 s of CPU time without coming back to the event loop's system calls".to_owned() } else { format!("the worker process died ({status}) during this execution") })],
        diverged: None,
    }
}

fn classify(got: &[u8], want: &[u8]) -> &'static str {
    if got.len() < want.len() && want.starts_with(got) {
        "truncated"
    } else if got.len() > want.len() && got.starts_with(want) {
        "duplicated-or-extended"
    } else if got.len() == want.len() {
        "corrupted"
    } else {
        "corrupted-and-resized"
    }
}

pub fn classify_pub(got: &[u8], want: &[u8]) -> &'static str {
    classify(got, want)
}

fn cases(tier: Tier) -> Vec<Case> {
    let mut v = vec![];
    let sizes_quick = [0usize, 1, 100, 4095, 4096, 4097, 16384, 40000];
    let sizes_thorough = [0usize, 1, 8, 9, 10, 100, 4095, 4096, 4097, 8193, 16383, 16384, 16385, 16393, 16394, 32786, 65535, 65536, 131073];
    let sizes: &[usize] = if tier == Tier::Quick { &sizes_quick } else { &sizes_thorough };
    for &bs in &[4096u64, 16393] {
        for &size in sizes {
            // response bodies
            for resp in [BodyFraming::ContentLength, BodyFraming::Chunked(0), BodyFraming::Chunked(1), BodyFraming::Chunked(2), BodyFraming::UntilClose] {
                if tier == Tier::Quick && matches!(resp, BodyFraming::Chunked(1) | BodyFraming::Chunked(2)) && bs != 4096 {
                    continue;
                }
                v.push(Case { pair: "h1-h1".into(), req: BodyFraming::None, req_size: 0, resp: resp.clone(), resp_size: size, requests: if resp == BodyFraming::UntilClose { 1 } else { 2 }, buffer_size: bs });
            }
            // request bodies
            for req in [BodyFraming::ContentLength, BodyFraming::Chunked(0), BodyFraming::Chunked(2)] {
                if tier == Tier::Quick && matches!(req, BodyFraming::Chunked(2)) && bs != 4096 {
                    continue;
                }
                v.push(Case { pair: "h1-h1".into(), req: req.clone(), req_size: size, resp: BodyFraming::ContentLength, resp_size: 5, requests: 2, buffer_size: bs });
            }
        }
        // both directions at once
        for &size in &[4097usize, 16385] {
            v.push(Case { pair: "h1-h1".into(), req: BodyFraming::Chunked(1), req_size: size, resp: BodyFraming::Chunked(3), resp_size: size + 1, requests: 2, buffer_size: bs });
        }
    }
    v
}

fn profile() -> ChoiceProfile {
    ChoiceProfile { read_faults: vec![FdClass::Front, FdClass::Back], write_faults: vec![FdClass::Front, FdClass::Back], max_points_per_class: 6, event_order: true, ..Default::default() }
}

pub fn run_item(tier: Tier, item: usize) -> ItemResult {
    let all = cases(tier);
    let case = all[item].clone();
    let bound = if tier == Tier::Quick { 1 } else { 2 };
    let mut violations = vec![];
    let case_for_run = case.clone();
    let stats = explore::search(
        bound,
        if tier == Tier::Quick { 400 } else { 6000 },
        |prefix| {
            let c = case_for_run.clone();
            let p = prefix.to_vec();
            match worker::isolated(move || run_case(&c, p.clone(), profile())) {
                Ok(r) => r,
                Err(status) => crashed_run(prefix, &status),
            }
        },
        |vector, key, desc| {
            let weight = vector.iter().filter(|c| **c != 0).count() as u64 * 1000 + (case.resp_size + case.req_size) as u64 / 100;
            violations.push((key.to_owned(), desc.to_owned(), json!({"sim": "c01", "case": case, "choices": vector}), weight));
        },
    );
    let mut counters = BTreeMap::new();
    counters.insert("sim_executions".to_owned(), stats.executions);
    ItemResult { item, label: format!("{case:?}"), stats, violations, counters, sample: json!({"case": case}) }
}

/// the HTTP/2 pairs: sizes straddling the frame, window and buffer boundaries, both directions,
/// concurrent streams, padded DATA, chunked HTTP/1.1 uploads towards an h2c backend
pub fn pair_cases(tier: Tier) -> Vec<super::h2pair::PairCase> {
    use super::h2pair::{PairCase, Proto, Xfer};
    let mut v = vec![];
    let x = |up: usize, down: usize| Xfer { up, down };
    let sizes: &[usize] = if tier == Tier::Quick { &[0, 1, 9, 16384, 16385, 65535, 65536, 100000] } else { &[0, 1, 8, 9, 10, 100, 4096, 16383, 16384, 16385, 16393, 32768, 65534, 65535, 65536, 65537, 131073, 300000] };
    for (front, back) in [(Proto::H2, Proto::H1), (Proto::H2, Proto::H2), (Proto::H1, Proto::H2)] {
        for &n in sizes {
            v.push(PairCase::simple(front, back, vec![x(0, n)]));
            if n > 0 {
                v.push(PairCase::simple(front, back, vec![x(n, 7)]));
            }
        }
        v.push(PairCase::simple(front, back, vec![x(30000, 30000), x(0, 70000), x(70000, 0)]));
        // (buffer_size below 16393 is refused at configuration load whenever HTTP/2 is in play)
        for bs in [16393u64, 65536] {
            let mut c = PairCase::simple(front, back, vec![x(40000, 40000)]);
            c.buffer_size = bs;
            v.push(c);
        }
        // bodies without a declared length (re-framed as chunks towards HTTP/1.1, delimited by
        // END_STREAM towards HTTP/2), with and without empty / padding-only DATA frames on the way
        for (up, down) in [(0usize, 20000usize), (20000, 7), (5000, 5000), (0, 0)] {
            for empty_frames in [false, true] {
                if empty_frames && front == Proto::H1 && back == Proto::H1 {
                    continue;
                }
                let mut c = PairCase::simple(front, back, vec![x(up, down)]);
                c.no_length = true;
                c.empty_frames = empty_frames;
                c.upload_frame = 3000;
                if front == Proto::H1 && up > 0 {
                    c.h1_chunk = Some(1000);
                }
                v.push(c);
            }
        }
        if front == Proto::H2 {
            for pad in [1u8, 255] {
                let mut c = PairCase::simple(front, back, vec![x(20000, 5)]);
                c.h2_padding = Some(pad);
                c.upload_frame = 5000;
                v.push(c);
            }
            // the client retunes SETTINGS_INITIAL_WINDOW_SIZE in the middle of a download, from a value
            // that is not the protocol default: the open stream's window moves by new - old
            for (w0, w1, after, pace) in [(1000u32, 30000u32, 1000usize, None), (30000, 65535, 30000, None), (200_000, 70_000, 50_000, Some(5000usize)), (1_000_000, 100_000, 20_000, Some(5000))] {
                let mut c = PairCase::simple(front, back, vec![x(0, 300000)]);
                c.initial_window = Some(w0);
                c.shrink_window_to = Some(w1);
                c.shrink_after_bytes = Some(after);
                c.pace_front = pace;
                c.huge_conn_window = pace.is_some();
                c.family = Some("window-retuned-mid-download".into());
                v.push(c);
            }
            // a slow client with wide windows pings in the middle of a download: sozu is inside a
            // DATA frame (the TLS layer took a part of it) when the PING arrives
            for pace in [5000usize, 700] {
                let mut c = PairCase::simple(front, back, vec![x(0, 300000)]);
                c.initial_window = Some(1_000_000);
                c.huge_conn_window = true;
                c.pace_front = Some(pace);
                c.ping_after_bytes = Some(20_000);
                c.family = Some("ping-mid-download".into());
                v.push(c);
            }
            let mut c = PairCase::simple(front, back, vec![x(50000, 9)]);
            c.upload_frame = 1;
            c.xfers[0].up = 300;
            v.push(c);
        } else {
            for chunk in [1usize, 1000, 16384, 70000] {
                let mut c = PairCase::simple(front, back, vec![x(if chunk == 1 { 200 } else { 70000 }, 9)]);
                c.h1_chunk = Some(chunk);
                v.push(c);
            }
        }
    }
    v
}

fn pair_profile(tier: Tier) -> ChoiceProfile {
    ChoiceProfile { read_faults: vec![FdClass::Front, FdClass::Back], write_faults: vec![FdClass::Front, FdClass::Back], max_points_per_class: if tier == Tier::Quick { 3 } else { 8 }, event_order: false, ..Default::default() }
}

pub fn run_pair_item(tier: Tier, item: usize) -> ItemResult {
    let all = pair_cases(tier);
    let case = all[item].clone();
    let mut violations = vec![];
    let c2 = case.clone();
    let stats = explore::search(
        if tier == Tier::Quick { 1 } else { 2 },
        if tier == Tier::Quick { 14 } else { 1500 },
        |prefix| {
            let c = c2.clone();
            let p = prefix.to_vec();
            match worker::isolated(move || super::h2pair::run_pair("C01", &c, p.clone(), pair_profile(tier))) {
                Ok(r) => r,
                Err(status) => crashed_run(prefix, &status),
            }
        },
        |vector, key, desc| {
            let weight = vector.iter().filter(|c| **c != 0).count() as u64 * 1000 + case.xfers.iter().map(|x| x.up + x.down).sum::<usize>() as u64 / 1000;
            violations.push((key.to_owned(), desc.to_owned(), json!({"part": "pairs", "case": case, "choices": vector}), weight));
        },
    );
    let mut counters = BTreeMap::new();
    counters.insert("sim_executions".to_owned(), stats.executions);
    ItemResult { item, label: format!("{case:?}"), stats, violations, counters, sample: json!({"part": "pairs", "case": case}) }
}

pub fn run(ctx: &Ctx) -> Coverage {
    let tier = ctx.tier();
    let n = cases(tier).len();
    let results = explore::run_sharded(ctx, n, "c01", |i| run_item(tier, i));
    let np = pair_cases(tier).len();
    let pair_results = explore::run_sharded(ctx, np, "c01-pairs", |i| run_pair_item(tier, i));
    let mut cov = Coverage::aggregate();
    cov.absorb("b-h2-pairs", summarize(ctx, &pair_results, "HTTP/2 (TLS) client -> HTTP/1.1 backend, HTTP/2 client -> h2c backend, HTTP/1.1 client -> h2c backend: download and upload sizes straddling the 9-byte frame header, the 16384-byte frame, buffer_size and the 65535-byte windows, three concurrent transfers, session buffers of 16393 and 65536 bytes, padded DATA (1 and 255 bytes), 1-byte DATA frames, chunked HTTP/1.1 uploads (1 / 1000 / 16384 / 70000-byte chunks) towards an h2c backend; every schedule with at most d deviations; bodies at the backend and at the client must equal what was sent and end cleanly"));
    cov.absorb("a-h1-h1", summarize(ctx, &results, "HTTP/1.1 client -> worker -> HTTP/1.1 backend exchanges: body framing {Content-Length, chunked with 4 chunk patterns, close-delimited} x direction {request, response, both} x sizes straddling 4096 / 16384 / buffer_size x buffer_size {4096, 16393} x 2 keep-alive requests; for each scenario every schedule with at most d deviations: short or would-block read/write on the client-side and backend-side sockets (first 6 syscalls of each class), peer messages cut at 10 protocol boundaries, reversed / split readiness delivery"));
    cov
}

pub fn summarize(ctx: &Ctx, results: &[ItemResult], rule: &str) -> Coverage {
    let executions: u64 = results.iter().map(|r| r.stats.executions).sum();
    let points: u64 = results.iter().map(|r| r.stats.choice_points_seen).sum();
    let distinct: u64 = results.iter().map(|r| r.stats.distinct_observations).sum();
    let mut by_kind: BTreeMap<String, u64> = BTreeMap::new();
    let mut capped = vec![];
    for r in results {
        for (k, v) in &r.stats.by_kind {
            *by_kind.entry(k.clone()).or_insert(0) += v;
        }
        if r.stats.capped {
            capped.push(r.label.clone());
        }
        if r.stats.unreproducible_prefixes > 0 {
            capped.push(format!("{} ({} prefixes the environment did not reproduce were left unexplored)", r.label, r.stats.unreproducible_prefixes));
        }
    }
    if let Some(r) = results.first() {
        ctx.sample(r.sample.clone());
    }
    if let Some(r) = results.last() {
        ctx.sample(r.sample.clone());
    }
    let bound = results.first().map(|r| r.stats.bound).unwrap_or(0);
    Coverage {
        states: executions,
        transitions: points.max(executions),
        evaluations: executions,
        distinct_nontrivial: distinct,
        distinct_outcomes: distinct,
        rule: rule.to_owned(),
        exhaustive: capped.is_empty(),
        bound: json!({"deviations": bound, "scenarios": results.len()}),
        caps_hit: capped.iter().map(|c| if c.contains("left unexplored") { c.clone() } else { format!("execution cap reached for {c}") }).collect(),
        assumptions: vec![
            "the simulated kernel only produces behaviours a Linux kernel may produce (short counts, EAGAIN followed by a fresh edge, reordered / split readiness batches); EINTR, ENOBUFS and real TCP timing are not modelled".into(),
            "loopback TCP is used as a lossless ordered pipe; all back-pressure is injected by the interposer".into(),
        ],
        extra: json!({"choice_points_by_kind": by_kind, "scenarios": results.len(), "executions_discarded_and_rerun_because_the_environment_did_not_reproduce_their_prefix": results.iter().map(|r| r.stats.discarded_replays).sum::<u64>()}),
    }
}

pub fn replay(ctx: &Ctx, case: &Value) -> Coverage {
    if case["part"] == "pairs" {
        let c: super::h2pair::PairCase = serde_json::from_value(case["case"].clone()).unwrap_or_else(|e| crate::common::machinery_error(&format!("bad replay case: {e}")));
        let choices: Vec<u32> = serde_json::from_value(case["choices"].clone()).unwrap_or_default();
        let r = worker::isolated(move || super::h2pair::run_pair("C01", &c, choices, pair_profile(Tier::Thorough))).unwrap_or_else(|s| crashed_run(&[], &s));
        for (k, d) in r.violations {
            ctx.violation(k, d, case.clone());
        }
        return Coverage { states: 1, transitions: 1, evaluations: 1, distinct_nontrivial: 1, distinct_outcomes: 1, rule: "replay".into(), ..Default::default() };
    }
    let c: Case = serde_json::from_value(case["case"].clone()).unwrap_or_else(|e| crate::common::machinery_error(&format!("bad replay case: {e}")));
    let choices: Vec<u32> = serde_json::from_value(case["choices"].clone()).unwrap_or_default();
    let r = worker::isolated(move || run_case(&c, choices, profile())).unwrap_or_else(|s| crashed_run(&[], &s));
    for (k, d) in r.violations {
        ctx.violation(k, d, case.clone());
    }
    Coverage { states: 1, transitions: r.trace.len().max(1) as u64, evaluations: 1, distinct_nontrivial: 1, distinct_outcomes: 1, rule: "replay".into(), ..Default::default() }
}

/// debugging aid: `sozu-verif C01DBG --item N [--choices 0,0,5]`
pub fn debug(args: &crate::common::Args) {
    let all = cases(args.tier);
    let item: usize = args.extra.get("item").and_then(|s| s.parse().ok()).unwrap_or(0);
    let mut choices: Vec<u32> = args.extra.get("choices").map(|s| s.split(',').filter_map(|x| x.parse().ok()).collect()).unwrap_or_default();
    let mut c = all[item].clone();
    if let Some(f) = args.extra.get("file") {
        let j = crate::common::load_replay(&std::path::PathBuf::from(f));
        c = serde_json::from_value(j["case"]["case"].clone()).unwrap();
        choices = serde_json::from_value(j["case"]["choices"].clone()).unwrap();
    }
    println!("{} cases; {:?}", all.len(), c);
    for round in 0..2 {
        let cc = c.clone();
        let ch = choices.clone();
        let r = worker::isolated(move || run_case(&cc, ch, profile())).unwrap();
        println!("round {round}: obs={}", r.observation);
        println!("  trace={:?}", r.trace.iter().map(|p| format!("{}:{}/{}", p.kind, p.chosen, p.alternatives)).collect::<Vec<_>>());
        println!("  violations={:?}", r.violations);
    }
}
