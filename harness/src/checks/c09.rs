//! C09 — the main process's verdict to a client matches what the workers
//! did. SIM over an unmodified `CommandHub::run()` with scripted fake workers
//! (every assignment of behaviours, both arrival orders) and clients.

use std::collections::{BTreeMap, BTreeSet};

use serde_json::{Value, json};
use sozu_command_lib::proto::command::{
    QueryClustersHashes, Request, ResponseStatus, SoftStop, request::RequestType,
};

use crate::{
    common::{Coverage, Ctx, Tier},
    interpose::VIRTUAL_EPOCH_NS,
    sim::{
        End,
        explore::{self, ItemResult, Run},
        hub::{self, Behaviour, HubSetup},
        worker,
    },
};

#[derive(Clone, Copy, Debug, PartialEq, Eq, serde::Serialize, serde::Deserialize)]
pub enum Verb {
    AddCluster,
    QueryClustersHashes,
    SoftStop,
    HardStop,
    Status,
    QueryMetrics,
    /// a state file holding two AddCluster requests: every worker receives both
    LoadState,
    /// two clients, each sending AddCluster concurrently
    TwoClients,
    /// one client's LoadState stays pending for ever (a task without a deadline) while another
    /// client's AddCluster waits for the same workers: its own deadline still applies
    AddClusterBesidePendingLoad,
}

#[derive(Clone, Debug, serde::Serialize, serde::Deserialize)]
pub struct Case {
    pub verb: Verb,
    /// behaviour of each worker for the request under test (for TwoClients: per worker, two entries)
    pub workers: Vec<Vec<Behaviour>>,
    pub reverse: bool,
}

const WORKER_TIMEOUT_S: u32 = 10;

fn request(v: Verb, tag: &str) -> Request {
    match v {
        Verb::AddCluster | Verb::TwoClients | Verb::AddClusterBesidePendingLoad => RequestType::AddCluster(crate::cfgspace::cluster(tag)).into(),
        Verb::QueryClustersHashes => RequestType::QueryClustersHashes(QueryClustersHashes {}).into(),
        Verb::SoftStop => RequestType::SoftStop(SoftStop {}).into(),
        Verb::Status => RequestType::Status(Default::default()).into(),
        Verb::QueryMetrics => RequestType::QueryMetrics(sozu_command_lib::proto::command::QueryMetricsOptions { list: false, cluster_ids: vec![], backend_ids: vec![], metric_names: vec![], no_clusters: false, workers: true }).into(),
        Verb::LoadState => RequestType::LoadState(state_file().to_string_lossy().into_owned()).into(),
        Verb::HardStop => RequestType::HardStop(Default::default()).into(),
    }
}

/// the state file of the LoadState verb (one per process: executions are forked one at a time)
fn state_file() -> std::path::PathBuf {
    std::env::temp_dir().join(format!("sozu-verif-c09-{}.state", std::process::id()))
}

fn write_state_file() {
    let mut st = sozu_command_lib::state::ConfigState::new();
    for id in ["la", "lb"] {
        let r: Request = RequestType::AddCluster(crate::cfgspace::cluster(id)).into();
        st.dispatch(&r).unwrap_or_else(|e| crate::common::machinery_error(&format!("state file: {e}")));
    }
    let mut f = std::fs::File::create(state_file()).unwrap_or_else(|e| crate::common::machinery_error(&format!("state file: {e}")));
    st.write_requests_to_file(&mut f).unwrap_or_else(|e| crate::common::machinery_error(&format!("state file: {e}")));
}

pub fn run_case(case: &Case) -> Run {
    if matches!(case.verb, Verb::LoadState | Verb::AddClusterBesidePendingLoad) {
        write_state_file();
    }
    let clients: Vec<Vec<Request>> = match case.verb {
        Verb::AddClusterBesidePendingLoad => vec![vec![request(Verb::LoadState, "")], vec![request(Verb::AddCluster, "cb")]],
        Verb::TwoClients => vec![vec![request(Verb::AddCluster, "ca")], vec![request(Verb::AddCluster, "cb")]],
        v => vec![vec![request(v, "c1")]],
    };
    let setup = HubSetup { workers: case.workers.clone(), clients, reverse_worker_order: case.reverse, worker_timeout_s: WORKER_TIMEOUT_S };
    let (mut exec, _) = hub::run_hub(setup, vec![], 120);
    if matches!(case.verb, Verb::LoadState | Verb::AddClusterBesidePendingLoad) {
        let _ = std::fs::remove_file(state_file());
    }
    let mut violations: Vec<(String, String)> = vec![];
    let verb = format!("{:?}", case.verb);
    let mut flag = |k: String, d: String| violations.push((format!("C09|{verb}|{k}"), d));
    if let Some(p) = &exec.subject_panic {
        flag("main-process-panic".into(), format!("CommandHub::run panicked: {p}"));
    }
    let end = exec.end.clone();
    let sc = hub::scenario_of(&mut exec);
    let stop_reason = sc.stop_reason.clone().unwrap_or_default();
    let mut obs = vec![];
    for (ci, c) in sc.clients.iter().enumerate() {
        // the behaviours that apply to this client's request
        // (a worker that closed its channel while handling an earlier request is gone for this one)
        if case.verb == Verb::AddClusterBesidePendingLoad && ci == 0 {
            obs.push("client0: load state with a worker that never finishes: not judged".into());
            continue;
        }
        let behaviours: Vec<Behaviour> = if case.verb == Verb::AddClusterBesidePendingLoad {
            // every request gets the worker's one behaviour, whatever order they arrive in
            case.workers.iter().map(|w| w.first().copied().unwrap_or(Behaviour::Ok)).collect()
        } else if case.verb == Verb::LoadState {
            // one client request, two worker requests per worker: all of them count
            case.workers
                .iter()
                .flat_map(|w| {
                    let mut first = w.first().copied().unwrap_or(Behaviour::Ok);
                    let second = if matches!(first, Behaviour::Close | Behaviour::OkThenClose) { Behaviour::Close } else { w.get(1).copied().unwrap_or(Behaviour::Ok) };
                    // an answer still pending when the worker closes its channel is never sent
                    if first == Behaviour::OkLate && matches!(second, Behaviour::Close | Behaviour::OkThenClose) {
                        first = Behaviour::Close;
                    }
                    [first, second]
                })
                .collect()
        } else {
            case.workers
                .iter()
                .map(|w| if w.iter().take(ci).any(|b| matches!(b, Behaviour::Close | Behaviour::OkThenClose)) { Behaviour::Close } else { w.get(ci).copied().unwrap_or(Behaviour::Ok) })
                .collect()
        };
        let finals: Vec<&(u64, sozu_command_lib::proto::command::Response)> = c.responses.iter().filter(|(_, r)| r.status != ResponseStatus::Processing as i32).collect();
        // a soft stop has no deadline by design: a worker that answers late
        // acknowledges, and one that is still silent may simply be draining
        // (so has LoadState)
        let soft = matches!(case.verb, Verb::SoftStop | Verb::LoadState);
        if soft && behaviours.iter().any(|b| matches!(b, Behaviour::Silent | Behaviour::ProcessingOnly)) {
            obs.push(format!("client{ci}: soft stop with a worker that never finishes: not judged"));
            continue;
        }
        let all_ack = behaviours.iter().all(|b| b.acknowledges() || (soft && *b == Behaviour::OkLate));
        let worst: String = {
            // one class per kind of missing acknowledgement, worst first
            let class = if behaviours.contains(&Behaviour::Close) {
                "worker-closed-channel"
            } else if behaviours.contains(&Behaviour::Failure) {
                "worker-failure"
            } else {
                "no-answer-before-deadline"
            };
            class.to_owned()
        };
        obs.push(format!("client{ci}: finals={:?}", finals.iter().map(|(t, r)| ((t - VIRTUAL_EPOCH_NS) / 1_000_000, r.status)).collect::<Vec<_>>()));
        if finals.is_empty() {
            flag(format!("no-final-answer:{}", if all_ack { "all-workers-ok".to_owned() } else { worst.clone() }), format!("client {ci} never received a final answer (workers: {behaviours:?}; run ended {end:?}, {stop_reason})"));
            continue;
        }
        if finals.len() > 1 {
            flag(format!("{}-final-answers:{}", finals.len(), if all_ack { "all-workers-ok".to_owned() } else { worst.clone() }), format!("client {ci} received {} final answers: {:?}", finals.len(), finals.iter().map(|(_, r)| (r.status, r.message.clone())).collect::<Vec<_>>()));
        }
        let (t, r) = finals[0];
        let ok = r.status == ResponseStatus::Ok as i32;
        let ms = (t - VIRTUAL_EPOCH_NS) / 1_000_000;
        let sent_ms = c.sent_at.first().map(|s| (s - VIRTUAL_EPOCH_NS) / 1_000_000).unwrap_or(0);
        if ok && !all_ack {
            flag(format!("ok-despite:{worst}"), format!("client {ci} was told OK ({:?}) although the workers behaved {behaviours:?}", r.message));
        }
        if !ok && all_ack {
            flag("failure-despite-all-workers-ok".into(), format!("client {ci} was told FAILURE ({:?}) although every worker acknowledged", r.message));
        }
        // timing: at once when every worker answered; by the worker timeout (+ one loop turn) otherwise
        let everyone_answers = behaviours.iter().all(|b| matches!(b, Behaviour::Ok | Behaviour::Failure | Behaviour::DuplicateOk | Behaviour::ProcessingThenOk | Behaviour::OkThenClose));
        let limit = if everyone_answers { 1_000 } else { WORKER_TIMEOUT_S as u64 * 1000 + 1_500 };
        if ms - sent_ms > limit && !soft {
            flag(format!("answer-late:{}", if everyone_answers { "all-answered" } else { "after-deadline" }), format!("client {ci}: final answer after {} ms, limit {limit} ms (workers {behaviours:?})", ms - sent_ms));
        }
        // answers must not be cross-wired between clients
        if case.verb == Verb::TwoClients {
            // nothing in the Response identifies the cluster; the check is the OK/failure matching above per client
        }
    }
    if end != End::Finished {
        let ctx = if case.workers.iter().flatten().any(|b| *b == Behaviour::Close) {
            "worker-closed-channel"
        } else if case.workers.iter().flatten().any(|b| matches!(b, Behaviour::Silent | Behaviour::ProcessingOnly)) {
            "worker-never-answers"
        } else {
            "other"
        };
        let never = case.workers.iter().flatten().any(|b| matches!(b, Behaviour::Silent | Behaviour::ProcessingOnly));
        if !(matches!(case.verb, Verb::SoftStop | Verb::LoadState | Verb::AddClusterBesidePendingLoad) && never) {
            flag(format!("main-process-{end:?}:{ctx}").to_lowercase(), format!("the run ended with {end:?} ({stop_reason})"));
        }
    }
    let observation = format!("end={end:?} {} stop={stop_reason}", obs.join(" | "));
    Run { trace: exec.trace, observation, violations, diverged: exec.diverged }
}

fn cases(tier: Tier) -> Vec<Case> {
    let mut v = vec![];
    let verbs = [Verb::AddCluster, Verb::QueryClustersHashes, Verb::SoftStop, Verb::HardStop, Verb::Status, Verb::QueryMetrics];
    let max_w = if tier == Tier::Quick { 2 } else { 3 };
    for verb in verbs {
        for w in 1..=max_w {
            let n = Behaviour::ALL.len().pow(w as u32);
            for code in 0..n {
                let mut c = code;
                let mut workers = vec![];
                for _ in 0..w {
                    workers.push(vec![Behaviour::ALL[c % Behaviour::ALL.len()]]);
                    c /= Behaviour::ALL.len();
                }
                for reverse in [false, true] {
                    if w == 1 && reverse {
                        continue;
                    }
                    v.push(Case { verb, workers: workers.clone(), reverse });
                }
            }
        }
    }
    // LoadState: two worker requests per worker, every pair of behaviours (one worker), a reduced set for two workers
    for a0 in Behaviour::ALL {
        for a1 in Behaviour::ALL {
            v.push(Case { verb: Verb::LoadState, workers: vec![vec![a0, a1]], reverse: false });
        }
    }
    let few = [Behaviour::Ok, Behaviour::Failure, Behaviour::DuplicateOk, Behaviour::OkThenClose];
    for a0 in few {
        for a1 in few {
            for b0 in few {
                for b1 in few {
                    v.push(Case { verb: Verb::LoadState, workers: vec![vec![a0, a1], vec![b0, b1]], reverse: false });
                }
            }
        }
    }
    // a request with a deadline next to a task without one: worker 0 never answers anything
    for never in [Behaviour::Silent, Behaviour::ProcessingOnly] {
        v.push(Case { verb: Verb::AddClusterBesidePendingLoad, workers: vec![vec![never; 3]], reverse: false });
        for other in [Behaviour::Ok, Behaviour::Failure, Behaviour::Silent] {
            for reverse in [false, true] {
                v.push(Case { verb: Verb::AddClusterBesidePendingLoad, workers: vec![vec![never; 3], vec![other; 3]], reverse });
            }
        }
    }
    // two concurrent clients, two workers, every pair of behaviours per worker for the two requests
    let pairs: Vec<Behaviour> = if tier == Tier::Quick { vec![Behaviour::Ok, Behaviour::Failure, Behaviour::Silent, Behaviour::DuplicateOk, Behaviour::OkThenClose] } else { Behaviour::ALL.to_vec() };
    for a0 in &pairs {
        for a1 in &pairs {
            for b0 in &pairs {
                for b1 in &pairs {
                    for reverse in [false, true] {
                        v.push(Case { verb: Verb::TwoClients, workers: vec![vec![*a0, *a1], vec![*b0, *b1]], reverse });
                    }
                }
            }
        }
    }
    v
}

const CHUNK: usize = 16;

pub fn run_item(tier: Tier, item: usize) -> ItemResult {
    let all = cases(tier);
    let mut violations = vec![];
    let mut stats = explore::SearchStats::default();
    let mut outcomes = BTreeSet::new();
    for case in all.iter().skip(item * CHUNK).take(CHUNK) {
        let c = case.clone();
        let r = match worker::isolated(move || run_case(&c)) {
            Ok(r) => r,
            Err(status) => {
                let class = if status == "exit:3" { "does-not-stop" } else { "crash" };
                Run { trace: vec![], observation: format!("crashed:{status}"), violations: vec![(format!("C09|{:?}|main-process-{class}", case.verb), format!("the main process died or could not be stopped ({status})"))], diverged: None }
            }
        };
        stats.executions += 1;
        outcomes.insert(crate::common::fnv_str(&r.observation));
        let weight = case.workers.len() as u64 * 10 + case.workers.iter().flatten().filter(|b| **b != Behaviour::Ok).count() as u64;
        for (k, d) in r.violations {
            violations.push((k, d, json!({"sim": "c09", "case": case}), weight));
        }
    }
    stats.distinct_observations = outcomes.len() as u64;
    let mut counters = BTreeMap::new();
    counters.insert("sim_executions".to_owned(), stats.executions);
    ItemResult { item, label: format!("cases {}..", item * CHUNK), stats, violations, counters, sample: json!({"case": all.get(item * CHUNK)}) }
}

pub fn run(ctx: &Ctx) -> Coverage {
    let tier = ctx.tier();
    let n = cases(tier).len().div_ceil(CHUNK);
    let results = explore::run_sharded(ctx, n, "c09", |i| run_item(tier, i));
    let mut cov = super::c01::summarize(ctx, &results, "an unmodified CommandHub::run() (main process) with W fake workers registered on real channels and clients on the real unix command socket: verbs {AddCluster, QueryClustersHashes, SoftStop, HardStop} x every assignment of 8 worker behaviours {ok, failure, silent, close channel, duplicate ok, ok after the deadline, processing+ok, processing only} to W = 1..2 (quick) / 1..3 (thorough) workers x both arrival orders, plus two concurrent clients x 2 workers x behaviour pairs; worker_timeout 10 s of virtual time. Oracle: exactly one final answer per client request; OK only if every worker acknowledged in time, failure otherwise; answered at once or by the deadline + one loop turn; no panic; run() returns after the stop");
    cov.bound = json!({"workers": if tier == Tier::Quick { 2 } else { 3 }, "behaviours": Behaviour::ALL.len(), "cases": cases(tier).len()});
    cov.exhaustive = true;
    cov
}

pub fn replay(ctx: &Ctx, case: &Value) -> Coverage {
    let c: Case = serde_json::from_value(case["case"].clone()).unwrap_or_else(|e| crate::common::machinery_error(&format!("bad replay case: {e}")));
    let r = worker::isolated(move || run_case(&c)).unwrap_or_else(|s| Run { trace: vec![], observation: s.clone(), violations: vec![("C09|replay|main-process-crash".into(), s)], diverged: None });
    for (k, d) in r.violations {
        ctx.violation(k, d, case.clone());
    }
    Coverage { states: 1, transitions: 1, evaluations: 1, distinct_nontrivial: 1, distinct_outcomes: 1, rule: "replay".into(), ..Default::default() }
}

pub fn debug(args: &crate::common::Args) {
    let all = cases(args.tier);
    let item: usize = args.extra.get("item").and_then(|s| s.parse().ok()).unwrap_or(0);
    let mut c = all[item].clone();
    if let Some(f) = args.extra.get("file") {
        let j = crate::common::load_replay(&std::path::PathBuf::from(f));
        c = serde_json::from_value(j["case"]["case"].clone()).unwrap();
    }
    println!("{} cases; {:?}", all.len(), c);
    let r = worker::isolated(move || run_case(&c)).unwrap();
    println!("obs={}", r.observation);
    println!("violations={:#?}", r.violations);
}
