//! C16(c) — the per-address limit holds while it is changed at runtime.
//! Every history, up to a depth, of connections opened and closed from one
//! client address (HTTP/1.1 keep-alive to cluster c1, TCP to cluster t1),
//! further requests on an admitted connection and SetMaxConnectionsPerIp
//! 0 / 1 / 2, run one operation per time slot against an unmodified worker.
//! A counting reference says which connection must be served and which must
//! be refused; after the history every connection is closed, the limit set to
//! one and one connection per cluster must be admitted.

use std::collections::{BTreeMap, BTreeSet};

use serde_json::{Value, json};
use sozu_command_lib::{
    config::ListenerBuilder,
    proto::command::{ActivateListener, AddBackend, ListenerType, RequestTcpFrontend, SocketAddress, request::RequestType},
};

use crate::{
    common::{Coverage, Ctx, Tier},
    sim::{
        ChoiceProfile, End,
        explore::{self, ItemResult, Run},
        peer::{Peer, Step},
        scen,
        worker::{self, MainStep, WorkerSetup},
    },
};

#[derive(Clone, Copy, Debug, PartialEq, Eq, serde::Serialize, serde::Deserialize)]
pub enum Op {
    OpenH,
    OpenT,
    CloseH,
    CloseT,
    /// one more request on the oldest admitted HTTP connection
    ReqH,
    Set(u64),
}

const ALPHABET: [Op; 8] = [Op::OpenH, Op::OpenT, Op::CloseH, Op::CloseT, Op::ReqH, Op::Set(0), Op::Set(1), Op::Set(2)];

#[derive(Clone, Debug, serde::Serialize, serde::Deserialize)]
pub struct Case {
    /// `max_connections_per_ip` of the worker's configuration
    pub initial: u64,
    /// cluster c1's own `max_connections_per_ip`
    pub c1_override: Option<u64>,
    pub ops: Vec<Op>,
}

const SLOT_MS: u64 = 300;
const START_MS: u64 = 600;

struct Client {
    http: bool,
    open_slot: usize,
    admitted: bool,
    /// slots of the further requests
    reqs: Vec<usize>,
    close_slot: Option<usize>,
}

/// the boring reference: one counter per cluster, one limit
fn reference(case: &Case) -> Vec<Client> {
    let mut limit = case.initial;
    let mut clients: Vec<Client> = vec![];
    let (mut open_h, mut open_t): (Vec<usize>, Vec<usize>) = (vec![], vec![]);
    for (k, op) in case.ops.iter().enumerate() {
        match op {
            Op::OpenH | Op::OpenT => {
                let http = *op == Op::OpenH;
                let effective = if http { case.c1_override.unwrap_or(limit) } else { limit };
                let open = if http { &mut open_h } else { &mut open_t };
                let admitted = effective == 0 || (open.len() as u64) < effective;
                if admitted {
                    open.push(clients.len());
                }
                clients.push(Client { http, open_slot: k, admitted, reqs: vec![], close_slot: if admitted { None } else { Some(k) } });
            }
            Op::CloseH | Op::CloseT => {
                let open = if *op == Op::CloseH { &mut open_h } else { &mut open_t };
                if !open.is_empty() {
                    let i = open.remove(0);
                    clients[i].close_slot = Some(k);
                }
            }
            Op::ReqH => {
                if let Some(&i) = open_h.first() {
                    clients[i].reqs.push(k);
                }
            }
            Op::Set(n) => limit = *n,
        }
    }
    clients
}

/// histories in which an operation does nothing, or which end without an observation, are left out
fn useful(ops: &[Op]) -> bool {
    let (mut h, mut t) = (0usize, 0usize);
    for op in ops {
        match op {
            Op::OpenH => h += 1,
            Op::OpenT => t += 1,
            // (an upper bound of what is open: a refused connection is not, but the case is kept)
            Op::CloseH | Op::ReqH if h == 0 => return false,
            Op::CloseT if t == 0 => return false,
            Op::CloseH => h -= 1,
            Op::CloseT => t -= 1,
            _ => {}
        }
    }
    matches!(ops.last(), Some(Op::OpenH | Op::OpenT | Op::ReqH))
}

pub fn run_case(case: &Case) -> Run {
    let http = scen::addr(1, 8080);
    let tcp = scen::addr(1, 7070);
    let back = scen::addr(2, 9090);
    let mut setup = scen::simple_http(http, back);
    setup.clusters[0].cluster.max_connections_per_ip = case.c1_override;
    let mut state = scen::http_state(&setup);
    let ta: SocketAddress = tcp.into();
    for r in [
        RequestType::AddTcpListener(ListenerBuilder::new_tcp(ta).to_tcp(None).unwrap()),
        RequestType::ActivateListener(ActivateListener { address: ta, proxy: ListenerType::Tcp as i32, from_scm: false }),
        RequestType::AddCluster(crate::cfgspace::cluster("t1")),
        RequestType::AddTcpFrontend(RequestTcpFrontend { cluster_id: "t1".into(), address: ta, ..Default::default() }),
        RequestType::AddBackend(AddBackend { cluster_id: "t1".into(), backend_id: "tb1".into(), address: back.into(), sticky_id: None, load_balancing_parameters: None, backup: None }),
    ] {
        if let Err(e) = state.dispatch(&r.into()) {
            crate::common::machinery_error(&format!("C16(c) scenario state: {e}"));
        }
    }
    let n = case.ops.len();
    let at = |slot: usize| START_MS + SLOT_MS * slot as u64;
    let get = |host: &str| format!("GET /size/10 HTTP/1.1\r\nHost: {host}\r\n\r\n").into_bytes();
    let clients = reference(case);
    let mut peers = vec![Peer::server("backend", back, vec![Step::ServeH1 { response_head: "HTTP/1.1 200 OK".into(), body: b"ok".to_vec() }])];
    for (i, c) in clients.iter().enumerate() {
        let (to, host) = if c.http { (http, "a.io") } else { (tcp, "x") };
        let mut script = vec![Step::Wait { ms: at(c.open_slot) }, Step::Connect { to, from: None }, Step::Send { bytes: get(host), splits: vec![] }, Step::ExpectH1 { count: 1, responses: true }];
        let mut now = c.open_slot;
        for (j, slot) in c.reqs.iter().enumerate() {
            script.push(Step::Wait { ms: SLOT_MS * (*slot - now) as u64 });
            script.push(Step::Send { bytes: get(host), splits: vec![] });
            script.push(Step::ExpectH1 { count: j + 2, responses: true });
            now = *slot;
        }
        // whatever is still open is closed one slot after the history
        let close = c.close_slot.unwrap_or(n);
        script.push(Step::Wait { ms: SLOT_MS * (close - now) as u64 });
        script.push(Step::Close);
        script.push(Step::Done);
        peers.push(Peer::client(&format!("{}#{i}", if c.http { "http" } else { "tcp" }), script));
    }
    // epilogue: the limit is one, nothing is open: one connection per cluster is admitted
    for (k, (name, to, host)) in [("c1", http, "a.io"), ("t1", tcp, "x")].into_iter().enumerate() {
        peers.push(Peer::client(
            &format!("admission-probe:{name}"),
            vec![Step::Wait { ms: at(n + 2) + 50 * k as u64 }, Step::Connect { to, from: None }, Step::Send { bytes: get(host), splits: vec![] }, Step::ExpectH1 { count: 1, responses: true }, Step::Close, Step::Done],
        ));
    }
    let mut script = vec![];
    let mut clock = 0u64;
    let mut ids = vec![];
    for (k, op) in case.ops.iter().enumerate().map(|(k, op)| (k, *op)).chain([(n + 1, Op::Set(1))]) {
        if let Op::Set(v) = op {
            let id = format!("SET-{k}");
            script.push(MainStep::Wait { ms: at(k) - clock });
            clock = at(k);
            script.push(MainStep::Send(worker::request(&id, RequestType::SetMaxConnectionsPerIp(v))));
            script.push(MainStep::AwaitFinal(id.clone()));
            ids.push(id);
        }
    }
    script.push(MainStep::Wait { ms: at(n + 3) - clock });
    script.push(MainStep::AwaitPeersFor { ms: 2_000 });
    let initial_limit = case.initial;
    let ws = WorkerSetup { config: worker::server_config(|c| c.max_connections_per_ip = Some(initial_limit)), initial: state };
    let (mut exec, create_err) = worker::run_worker(ws, peers, script, ChoiceProfile::default(), vec![], 60);
    if let Some(e) = create_err {
        crate::common::machinery_error(&format!("worker creation failed: {e}"));
    }
    let mut violations: Vec<(String, String)> = vec![];
    let history = format!("limit {} (c1: {:?}) then {:?}", case.initial, case.c1_override, case.ops);
    let mut flag = |k: String, d: String| violations.push((format!("C16|per-ip|{k}"), format!("{d}; history: {history}")));
    if let Some(p) = &exec.subject_panic {
        flag("worker-panic".into(), format!("worker panicked: {p}"));
    }
    let end = exec.end.clone();
    let sc = worker::scenario_of(&mut exec);
    let mut obs = format!("end={end:?}");
    let statuses = |p: &Peer| -> Vec<u16> { crate::sim::h1::parse_all(&p.conn.rx, true, true).0.iter().filter_map(|m| m.status()).collect() };
    for (i, c) in clients.iter().enumerate() {
        let p = &sc.peers[1 + i];
        let got = statuses(p);
        obs.push_str(&format!(" {}:{got:?}", p.name));
        let kind = if c.http { "http" } else { "tcp" };
        let held = clients.iter().filter(|o| o.http == c.http && o.admitted && o.open_slot < c.open_slot && o.close_slot.is_none_or(|s| s > c.open_slot)).count();
        if c.admitted {
            if got.first() != Some(&200) {
                flag(format!("refused-below-the-limit:{kind}"), format!("connection {} (slot {}) was answered {:?} while the address held {held} connection(s) to the cluster", p.name, c.open_slot, got.first()));
            } else if got.len() != 1 + c.reqs.len() || got.iter().any(|s| *s != 200) {
                flag(format!("admitted-connection-refused-later:{kind}"), format!("connection {} holds a slot since slot {}; its requests at slots {:?} were answered {:?}", p.name, c.open_slot, c.reqs, &got[1.min(got.len())..]));
            }
        } else if got.contains(&200) {
            flag(format!("served-above-the-limit:{kind}"), format!("connection {} (slot {}) was served while the address already held {held} connection(s) to the cluster, the limit in force", p.name, c.open_slot));
        }
    }
    for p in sc.peers.iter().filter(|p| p.name.starts_with("admission-probe:")) {
        let got = statuses(p);
        obs.push_str(&format!(" {}:{got:?}", p.name));
        if got.first() != Some(&200) {
            flag(format!("slot-not-returned:{}", p.name.trim_start_matches("admission-probe:")), format!("every connection is closed and the limit is one: a new connection to {} was answered {:?}", p.name.trim_start_matches("admission-probe:"), got.first()));
        }
    }
    for id in &ids {
        if !sc.main.responses.iter().any(|(_, r)| &r.id == id && r.status == sozu_command_lib::proto::command::ResponseStatus::Ok as i32) {
            flag("set-limit-not-acknowledged".into(), format!("{id} got no OK"));
        }
    }
    drop(flag);
    if end != End::Finished && violations.is_empty() {
        violations.push((format!("C16|per-ip|worker-{}", format!("{end:?}").to_lowercase()), format!("run ended {end:?}; history: {history}")));
    }
    Run { trace: exec.trace, observation: obs, violations, diverged: exec.diverged }
}

pub fn cases(tier: Tier) -> Vec<Case> {
    let depth = tier.pick(4, 5);
    let mut seqs: Vec<Vec<Op>> = vec![];
    let mut level: Vec<Vec<Op>> = vec![vec![]];
    for _ in 0..depth {
        level = level.iter().flat_map(|s| ALPHABET.iter().map(move |o| { let mut t = s.clone(); t.push(*o); t })).collect();
        seqs.extend(level.iter().filter(|s| useful(s)).cloned());
    }
    let mut v = vec![];
    for (initial, c1_override) in [(0u64, None), (2, None), (1, Some(2u64)), (0, Some(1))] {
        for s in &seqs {
            // the cluster's own limit is only exercised by HTTP connections
            if c1_override.is_some() && !s.iter().any(|o| matches!(o, Op::OpenH)) {
                continue;
            }
            v.push(Case { initial, c1_override, ops: s.clone() });
        }
    }
    v
}

const CHUNK: usize = 64;

pub fn run_item(tier: Tier, item: usize) -> ItemResult {
    let all = cases(tier);
    let mut violations = vec![];
    let mut stats = explore::SearchStats::default();
    let mut outcomes = BTreeSet::new();
    for case in all.iter().skip(item * CHUNK).take(CHUNK) {
        let c = case.clone();
        let r = match worker::isolated(move || run_case(&c)) {
            Ok(r) => r,
            Err(status) => {
                let mut r = super::c01::crashed_run(&[], &status);
                for v in r.violations.iter_mut() {
                    v.0 = v.0.replace("C01|any|", "C16|per-ip|");
                }
                r
            }
        };
        stats.executions += 1;
        outcomes.insert(crate::common::fnv_str(&r.observation));
        for (k, d) in r.violations {
            violations.push((k, d, json!({"part": "c", "case": case}), case.ops.len() as u64));
        }
    }
    stats.distinct_observations = outcomes.len() as u64;
    let mut counters = BTreeMap::new();
    counters.insert("sim_executions".to_owned(), stats.executions);
    ItemResult { item, label: format!("histories {}..", item * CHUNK), stats, violations, counters, sample: json!({"part": "c", "case": all.get(item * CHUNK)}) }
}

pub fn run(ctx: &Ctx) -> Coverage {
    let tier = ctx.tier();
    let n = cases(tier).len().div_ceil(CHUNK);
    let results = explore::run_sharded(ctx, n, "c16c", |i| run_item(tier, i));
    let mut cov = super::c01::summarize(ctx, &results, "every history, up to the depth, of {open an HTTP/1.1 keep-alive connection to c1, open a TCP connection to t1, close the oldest of either, one more request on the oldest admitted HTTP connection, SetMaxConnectionsPerIp 0 / 1 / 2} that ends with an observation, one operation per 300 ms slot from one client address, against an unmodified worker started with the limit 0 or 2 (and with cluster c1 carrying its own limit); a counting reference (one counter per cluster, the limit in force) decides for every connection whether it must be served or refused (429 / closed); afterwards everything is closed, the limit set to one, and one connection per cluster must be admitted");
    cov.bound = json!({"history_length": tier.pick(4, 5), "alphabet": ALPHABET.len(), "initial_configurations": 4, "histories": cases(tier).len()});
    cov.exhaustive = true;
    cov
}

pub fn replay_case(ctx: &Ctx, case: &Value) -> Coverage {
    let c: Case = serde_json::from_value(case["case"].clone()).unwrap_or_else(|e| crate::common::machinery_error(&format!("bad replay case: {e}")));
    let r = worker::isolated(move || run_case(&c)).unwrap_or_else(|s| super::c01::crashed_run(&[], &s));
    for (k, d) in r.violations {
        ctx.violation(k, d, case.clone());
    }
    Coverage { states: 1, transitions: 1, evaluations: 1, distinct_nontrivial: 1, distinct_outcomes: 1, rule: "replay".into(), ..Default::default() }
}

pub fn debug(args: &crate::common::Args) {
    let ops: Vec<Op> = args
        .extra
        .get("ops")
        .map(|s| {
            s.split(',')
                .map(|x| match x {
                    "OpenH" => Op::OpenH,
                    "OpenT" => Op::OpenT,
                    "CloseH" => Op::CloseH,
                    "CloseT" => Op::CloseT,
                    "ReqH" => Op::ReqH,
                    other => Op::Set(other.trim_start_matches("Set").parse().unwrap_or(0)),
                })
                .collect()
        })
        .unwrap_or_default();
    let initial = args.extra.get("initial").and_then(|s| s.parse().ok()).unwrap_or(0);
    let c1_override = args.extra.get("c1").and_then(|s| s.parse().ok());
    let c = Case { initial, c1_override, ops };
    println!("{c:?}");
    let r = worker::isolated(move || run_case(&c)).unwrap();
    println!("obs={}", r.observation);
    println!("violations={:#?}", r.violations);
    if args.extra.contains_key("trace") {
        for t in r.trace {
            println!("{t:?}");
        }
    }
}
