//! C04 — routing depends only on the configured frontends, by documented
//! precedence. XS over the real `sozu_lib::router::Router`.

use std::collections::{BTreeMap, HashMap};

use serde_json::{Value, json};
use sozu_command_lib::{
    proto::command::{PathRule, PathRuleKind, RulePosition},
    response::HttpFrontend,
};
use sozu_lib::{protocol::http::parser::Method, router::Router};

use crate::{
    common::{Coverage, Ctx, guarded},
    xs,
};

#[derive(Clone, Debug)]
struct F {
    name: &'static str,
    host: &'static str,
    kind: PathRuleKind,
    path: &'static str,
    method: Option<&'static str>,
    pos: RulePosition,
    policy: bool,
}

fn fronts() -> Vec<F> {
    use PathRuleKind::*;
    use RulePosition::*;
    let f = |name, host, kind, path, method, pos, policy| F {
        name,
        host,
        kind,
        path,
        method,
        pos,
        policy,
    };
    vec![
        f("T1:a.io P''", "a.io", Prefix, "", None, Tree, false),
        f("T2:a.io P/a", "a.io", Prefix, "/a", None, Tree, false),
        f("T3:a.io P/a/b", "a.io", Prefix, "/a/b", None, Tree, false),
        f("T4:a.io E/a", "a.io", Equals, "/a", None, Tree, false),
        f("T5:a.io R^/a/.*", "a.io", Regex, "^/a/.*$", None, Tree, false),
        f("T6:a.io P/a GET", "a.io", Prefix, "/a", Some("GET"), Tree, false),
        f("T7:a.io E/a GET", "a.io", Equals, "/a", Some("GET"), Tree, false),
        f("T8:*.a.io P''", "*.a.io", Prefix, "", None, Tree, false),
        f("T9:b.a.io P/a", "b.a.io", Prefix, "/a", None, Tree, false),
        f("T10:/x+/.a.io P''", "/x+/.a.io", Prefix, "", None, Tree, false),
        f("T11:a.io P/x policy", "a.io", Prefix, "/x", None, Tree, true),
        f("P1:pre * E/x", "*", Equals, "/x", None, Pre, false),
        f("P2:pre a.io P/a/b GET", "a.io", Prefix, "/a/b", Some("GET"), Pre, false),
        f("P3:pre * P''", "*", Prefix, "", None, Pre, false),
        f("P4:pre a.io P/a", "a.io", Prefix, "/a", None, Pre, false),
        f("Q1:post *.a.io P''", "*.a.io", Prefix, "", None, Post, false),
        f("Q2:post * P''", "*", Prefix, "", None, Post, false),
        f("Q3:post a.io P/a", "a.io", Prefix, "/a", None, Post, false),
        f("Q4:post * P/a", "*", Prefix, "/a", None, Post, false),
    ]
}

fn to_front(i: usize, f: &F) -> HttpFrontend {
    HttpFrontend {
        cluster_id: Some(format!("c{i}")),
        address: "127.0.0.1:80".parse().unwrap(),
        hostname: f.host.to_owned(),
        path: PathRule {
            kind: f.kind as i32,
            value: f.path.to_owned(),
        },
        method: f.method.map(|m| m.to_owned()),
        position: f.pos,
        tags: None,
        redirect: if f.policy { Some(1) } else { None },
        redirect_scheme: None,
        redirect_template: None,
        rewrite_host: None,
        rewrite_path: None,
        rewrite_port: None,
        required_auth: None,
        headers: vec![],
        hsts: None,
    }
}

const HOSTS: [&str; 6] = ["a.io", "b.a.io", "c.a.io", "x.b.a.io", "xx.a.io", "z.org"];
const PATHS: [&str; 6] = ["/", "/a", "/a/b", "/a/bc", "/x", "/ab"];
const METHODS: [&str; 2] = ["GET", "POST"];

fn host_matches(rule: &str, host: &str) -> bool {
    if rule == "*" {
        true
    } else if let Some(suffix) = rule.strip_prefix('*') {
        host.strip_suffix(suffix)
            .is_some_and(|p| !p.is_empty() && !p.contains('.'))
    } else if rule == "/x+/.a.io" {
        host.strip_suffix(".a.io")
            .is_some_and(|p| !p.is_empty() && p.bytes().all(|b| b == b'x'))
    } else {
        rule == host
    }
}

/// (class, prefix_len) if the path matches
fn path_matches(f: &F, path: &str) -> Option<(u8, usize)> {
    match f.kind {
        PathRuleKind::Equals => (path == f.path).then_some((3, 0)),
        PathRuleKind::Regex => {
            // the only regex of the alphabet is ^/a/.*$
            path.starts_with("/a/").then_some((2, 0))
        }
        PathRuleKind::Prefix => path.starts_with(f.path).then_some((1, f.path.len())),
    }
}

fn method_matches(f: &F, method: &str) -> Option<u8> {
    match f.method {
        None => Some(0),
        Some(m) => (m == method).then_some(1),
    }
}

/// Reference: the set of acceptable frontends (indices) for a probe given the
/// ordered live list; empty set = no route.
fn reference(all: &[F], live: &[usize], host: &str, path: &str, method: &str) -> Vec<usize> {
    // pre rules, in order
    for &i in live.iter().filter(|&&i| all[i].pos == RulePosition::Pre) {
        let f = &all[i];
        if host_matches(f.host, host) && path_matches(f, path).is_some() && method_matches(f, method).is_some() {
            return vec![i];
        }
    }
    // tree: exact host > wildcard > regex host
    let tree: Vec<usize> = live
        .iter()
        .copied()
        .filter(|&i| all[i].pos == RulePosition::Tree)
        .collect();
    let exact: Vec<usize> = tree.iter().copied().filter(|&i| all[i].host == host).collect();
    let wild: Vec<usize> = tree
        .iter()
        .copied()
        .filter(|&i| all[i].host.starts_with('*') && host_matches(all[i].host, host))
        .collect();
    let rx: Vec<usize> = tree
        .iter()
        .copied()
        .filter(|&i| all[i].host.starts_with('/') && host_matches(all[i].host, host))
        .collect();
    let node = if !exact.is_empty() {
        exact
    } else if !wild.is_empty() {
        wild
    } else {
        rx
    };
    let cands: Vec<(usize, (u8, usize), u8)> = node
        .iter()
        .filter_map(|&i| {
            let p = path_matches(&all[i], path)?;
            let m = method_matches(&all[i], method)?;
            Some((i, p, m))
        })
        .collect();
    if !cands.is_empty() {
        // path-first and method-first readings of the documented precedence
        let w1 = cands.iter().max_by_key(|(_, p, m)| (p.0, p.1, *m)).unwrap().0;
        let w2 = cands.iter().max_by_key(|(_, p, m)| (*m, p.0, p.1)).unwrap().0;
        let mut v = vec![w1];
        if w2 != w1 {
            v.push(w2);
        }
        return v;
    }
    for &i in live.iter().filter(|&&i| all[i].pos == RulePosition::Post) {
        let f = &all[i];
        if host_matches(f.host, host) && path_matches(f, path).is_some() && method_matches(f, method).is_some() {
            return vec![i];
        }
    }
    vec![]
}

#[derive(Clone)]
struct St {
    /// ops applied: (is_add, frontend index)
    hist: Vec<(bool, usize)>,
    /// spec: live frontends in insertion order
    live: Vec<usize>,
}

fn build(all: &[F], hist: &[(bool, usize)]) -> (Router, Vec<Result<(), String>>) {
    let mut r = Router::new();
    let mut res = vec![];
    for &(add, i) in hist {
        let f = to_front(i, &all[i]);
        let x = if add {
            r.add_http_front(&f).map_err(|e| e.to_string())
        } else {
            r.remove_http_front(&f).map_err(|e| e.to_string())
        };
        res.push(x);
    }
    (r, res)
}

/// probe table: for each probe the cluster index returned (or -1)
fn probe_table(r: &Router) -> Vec<i32> {
    let mut t = Vec::with_capacity(HOSTS.len() * PATHS.len() * METHODS.len());
    for h in HOSTS {
        for p in PATHS {
            for m in METHODS {
                let method = Method::new(m.as_bytes());
                let got = match r.lookup(h, p, &method) {
                    Ok(rr) => rr
                        .cluster_id
                        .as_deref()
                        .and_then(|c| c.strip_prefix('c'))
                        .and_then(|n| n.parse::<i32>().ok())
                        .unwrap_or(-2),
                    Err(_) => -1,
                };
                t.push(got);
            }
        }
    }
    t
}

fn hist_names(all: &[F], hist: &[(bool, usize)]) -> Vec<String> {
    hist.iter()
        .map(|&(a, i)| format!("{}({})", if a { "add" } else { "remove" }, all[i].name))
        .collect()
}

fn check_state(ctx: &Ctx, all: &[F], st: &St) -> Vec<i32> {
    let built = guarded(|| {
        let (r, _res) = build(all, &st.hist);
        probe_table(&r)
    });
    let table = match built {
        Ok(t) => t,
        Err(p) => {
            ctx.violation_w(
                "C04|panic",
                format!("router panicked: {p}"),
                json!({"history": hist_names(all, &st.hist), "ops": st.hist}),
                st.hist.len() as u64,
            );
            return vec![];
        }
    };
    let mut k = 0;
    for h in HOSTS {
        for p in PATHS {
            for m in METHODS {
                let got = table[k];
                k += 1;
                let want = reference(all, &st.live, h, p, m);
                let ok = if want.is_empty() {
                    got == -1
                } else {
                    want.iter().any(|&w| w as i32 == got)
                };
                if !ok {
                    let class = if got >= 0 && !st.live.contains(&(got as usize)) {
                        format!("routed-by-removed:{}", all[got as usize].name)
                    } else if got == -1 {
                        format!("no-route-expected:{}", all[want[0]].name)
                    } else if want.is_empty() {
                        format!("unexpected-route:{}", all[got as usize].name)
                    } else {
                        format!("precedence:got={}:want={}", all[got as usize].name, all[want[0]].name)
                    };
                    ctx.violation_w(
                        format!("C04|{class}"),
                        format!(
                            "probe {m} {h}{p}: routed to {} but the configured set {:?} requires {:?}",
                            if got >= 0 { all[got as usize].name } else { "<none>" },
                            st.live.iter().map(|&i| all[i].name).collect::<Vec<_>>(),
                            want.iter().map(|&i| all[i].name).collect::<Vec<_>>()
                        ),
                        json!({"history": hist_names(all, &st.hist), "ops": st.hist,
                               "probe": {"host": h, "path": p, "method": m}}),
                        st.hist.len() as u64,
                    );
                }
            }
        }
    }
    table
}

pub fn run(ctx: &Ctx) -> Coverage {
    let all = fronts();
    let depth = ctx.tier().pick(5, 6);
    let nsym = all.len() * 2;
    let lookups = std::sync::atomic::AtomicU64::new(0);
    let tables: std::sync::Mutex<HashMap<xs::Key, Vec<i32>>> = std::sync::Mutex::new(HashMap::new());
    let ex = xs::bfs(
        vec![St {
            hist: vec![],
            live: vec![],
        }],
        nsym,
        depth,
        12_000_000,
        |s, sym, _| {
            let (add, i) = (sym < all.len(), sym % all.len());
            // spec transition
            let mut n = s.clone();
            let present = n.live.contains(&i);
            if add {
                if present {
                    // duplicate add: spec requires "no change"; still executed
                    // against the implementation through the history
                } else {
                    n.live.push(i);
                }
            } else if present {
                n.live.retain(|&x| x != i);
            } else {
                // removing an absent frontend: only interesting once (keeps
                // the search finite): allow when history has no such op yet
                if s.hist.iter().any(|&(a, j)| !a && j == i) {
                    return None;
                }
            }
            if add && present && s.hist.iter().filter(|&&(a, j)| a && j == i).count() >= 2 {
                return None;
            }
            n.hist.push((add, i));
            Some(n)
        },
        |s| {
            // key: ordered live list ⊕ implementation probe table
            let table = check_state(ctx, &all, s);
            lookups.fetch_add(table.len() as u64, std::sync::atomic::Ordering::Relaxed);
            let mut buf = vec![];
            for &i in &s.live {
                buf.push(i as u8);
            }
            buf.push(0xff);
            for t in &table {
                buf.extend_from_slice(&t.to_le_bytes());
            }
            // order-independence: same *set* of tree frontends + same ordered
            // pre/post lists must give the same table
            let mut tree: Vec<usize> = s.live.iter().copied().filter(|&i| all[i].pos == RulePosition::Tree).collect();
            tree.sort();
            let pre: Vec<usize> = s.live.iter().copied().filter(|&i| all[i].pos == RulePosition::Pre).collect();
            let post: Vec<usize> = s.live.iter().copied().filter(|&i| all[i].pos == RulePosition::Post).collect();
            let set_key = xs::key_of(format!("{tree:?}|{pre:?}|{post:?}").as_bytes());
            let mut g = tables.lock().unwrap();
            match g.get(&set_key) {
                None => {
                    g.insert(set_key, table.clone());
                }
                Some(first) => {
                    if *first != table && !table.is_empty() && !first.is_empty() {
                        let idx = first.iter().zip(table.iter()).position(|(a, b)| a != b).unwrap_or(0);
                        let (h, p, m) = (
                            HOSTS[idx / (PATHS.len() * METHODS.len())],
                            PATHS[(idx / METHODS.len()) % PATHS.len()],
                            METHODS[idx % METHODS.len()],
                        );
                        let a = first[idx];
                        let b = table[idx];
                        let nm = |x: i32| if x >= 0 { all[x as usize].name } else { "<none>" };
                        let mut pair = [nm(a), nm(b)];
                        pair.sort();
                        ctx.violation_w(
                            format!("C04|order-dependent:{}|{}", pair[0], pair[1]),
                            format!("probe {m} {h}{p} routes to {} or {} depending on insertion order of the same frontend set", nm(a), nm(b)),
                            json!({"history": hist_names(&all, &s.hist), "ops": s.hist,
                                   "probe": {"host": h, "path": p, "method": m}, "other_order_routes_to": nm(a)}),
                            s.hist.len() as u64,
                        );
                    }
                }
            }
            xs::key_of(&buf)
        },
    );
    let n = ex.states.len();
    ctx.sample(json!({"history": hist_names(&all, &ex.states[n - 1].hist), "live": ex.states[n-1].live}));
    ctx.sample(json!({"history": hist_names(&all, &ex.states[n / 2].hist), "live": ex.states[n/2].live}));
    let sets = tables.lock().unwrap().len() as u64;
    let per_sym: BTreeMap<String, u64> = (0..nsym)
        .map(|s| {
            (
                format!("{}({})", if s < all.len() { "add" } else { "remove" }, all[s % all.len()].name),
                ex.per_symbol_enabled[s],
            )
        })
        .collect();
    Coverage {
        states: n as u64,
        transitions: ex.transitions,
        evaluations: lookups.load(std::sync::atomic::Ordering::Relaxed),
        distinct_nontrivial: sets,
        distinct_outcomes: sets,
        rule: "all add/remove histories up to the depth over 19 colliding frontends (4 overlapping pre and 4 overlapping post rules) (pre/tree/post; exact, wildcard and regex hosts; PREFIX/EQUALS/REGEX paths; method; policy); state = ordered live list + the router's probe table over 72 probes; every state compared with a precedence reference and with every other insertion order of the same frontend set".into(),
        exhaustive: !ex.capped,
        bound: json!({"depth": depth, "frontends": all.len(), "probes": HOSTS.len()*PATHS.len()*METHODS.len()}),
        caps_hit: if ex.capped { vec!["max_states".into()] } else { vec![] },
        assumptions: vec![
            "frontend alphabet of 19 rules on 4 host patterns; one REGEX path and one regex host (the documented-undefined competition between several regexes is not exercised)".into(),
            "where path specificity and method specificity disagree both readings of the documented precedence are accepted, but the answer must not depend on insertion order".into(),
            "host selection is modelled host-first (no fall back from an exact host node to a wildcard node when no path rule matches), as the property's 'within a host' wording".into(),
        ],
        extra: json!({"distinct_frontend_sets": sets, "per_symbol_enabled": per_sym, "max_depth_reached": ex.max_depth}),
    }
}

pub fn replay(ctx: &Ctx, case: &Value) -> Coverage {
    let all = fronts();
    let hist: Vec<(bool, usize)> = case["ops"]
        .as_array()
        .map(|a| {
            a.iter()
                .map(|x| (x[0].as_bool().unwrap_or(true), x[1].as_u64().unwrap_or(0) as usize))
                .collect()
        })
        .unwrap_or_default();
    let mut live: Vec<usize> = vec![];
    for &(add, i) in &hist {
        if add {
            if !live.contains(&i) {
                live.push(i);
            }
        } else {
            live.retain(|&x| x != i);
        }
    }
    let st = St { hist, live };
    let t = check_state(ctx, &all, &st);
    Coverage {
        states: 1,
        transitions: t.len().max(1) as u64,
        evaluations: t.len() as u64,
        distinct_nontrivial: 1,
        distinct_outcomes: 1,
        rule: "single replayed history".into(),
        ..Default::default()
    }
}
