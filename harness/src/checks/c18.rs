//! C18(a) — PROXY protocol v2 headers are parsed and serialised exactly.
//! ENUM over the real `parse_v2_header` and `HeaderV2::into_bytes`.

use std::{collections::BTreeMap, net::SocketAddr};

use serde_json::{Value, json};
use sozu_lib::protocol::proxy_protocol::{
    header::{Command, HeaderV2, ProxyAddr},
    parser::parse_v2_header,
};

use crate::common::{Coverage, Ctx, guarded};

const SIG: [u8; 12] = [0x0D, 0x0A, 0x0D, 0x0A, 0x00, 0x0D, 0x0A, 0x51, 0x55, 0x49, 0x54, 0x0A];

#[derive(Debug, PartialEq, Clone)]
enum V {
    Ok { consumed: usize, cmd: u8, family: u8, src: Option<SocketAddr>, dst: Option<SocketAddr> },
    Incomplete,
    Reject,
}

fn implementation(input: &[u8]) -> V {
    match parse_v2_header(input) {
        Ok((rest, h)) => V::Ok {
            consumed: input.len() - rest.len(),
            cmd: match h.command {
                Command::Local => 0x20,
                Command::Proxy => 0x21,
            },
            family: h.family,
            src: h.addr.source(),
            dst: h.addr.destination(),
        },
        Err(nom::Err::Incomplete(_)) => V::Incomplete,
        Err(_) => V::Reject,
    }
}

fn reference(input: &[u8]) -> V {
    // signature: a mismatch in the bytes present rejects, a prefix is incomplete
    let n = input.len().min(12);
    if input[..n] != SIG[..n] {
        return V::Reject;
    }
    if input.len() < 13 {
        return V::Incomplete;
    }
    let cmd = input[12];
    if cmd != 0x20 && cmd != 0x21 {
        return V::Reject;
    }
    if input.len() < 16 {
        return V::Incomplete;
    }
    let family = input[13];
    let len = u16::from_be_bytes([input[14], input[15]]) as usize;
    if input.len() < 16 + len {
        return V::Incomplete;
    }
    let a = &input[16..16 + len];
    let (src, dst) = match family >> 4 {
        0 => (None, None),
        1 => {
            if len < 12 {
                // declared block shorter than an IPv4 address block
                return V::RejectOrIncomplete();
            }
            let s = SocketAddr::from(([a[0], a[1], a[2], a[3]], u16::from_be_bytes([a[8], a[9]])));
            let d = SocketAddr::from(([a[4], a[5], a[6], a[7]], u16::from_be_bytes([a[10], a[11]])));
            (Some(s), Some(d))
        }
        2 => {
            if len < 36 {
                return V::RejectOrIncomplete();
            }
            let mut s = [0u8; 16];
            s.copy_from_slice(&a[0..16]);
            let mut d = [0u8; 16];
            d.copy_from_slice(&a[16..32]);
            (
                Some(SocketAddr::from((s, u16::from_be_bytes([a[32], a[33]])))),
                Some(SocketAddr::from((d, u16::from_be_bytes([a[34], a[35]])))),
            )
        }
        3 => {
            // AF_UNIX: two 108-byte paths, no socket addresses
            if len < 216 {
                return V::RejectOrIncomplete();
            }
            (None, None)
        }
        _ => return V::Reject,
    };
    V::Ok { consumed: 16 + len, cmd, family, src, dst }
}

impl V {
    /// a declared address block too short for its family: the parser may call
    /// it an error or (streaming combinators) ask for more bytes; both refuse it
    #[allow(non_snake_case)]
    fn RejectOrIncomplete() -> V {
        V::Reject
    }
}

fn same(got: &V, want: &V, short_block: bool) -> bool {
    if got == want {
        return true;
    }
    short_block && matches!(got, V::Reject | V::Incomplete) && matches!(want, V::Reject)
}

pub fn run_a(ctx: &Ctx) -> Coverage {
    let families: [u8; 9] = [0x00, 0x01, 0x11, 0x12, 0x21, 0x22, 0x31, 0x32, 0x40];
    let cmds: [u8; 5] = [0x20, 0x21, 0x22, 0x10, 0x00];
    let lens: Vec<u16> = (0..=60).chain([216, 232, 1000]).collect();
    let mut evals = 0u64;
    let mut outcomes: BTreeMap<String, u64> = BTreeMap::new();
    for &family in &families {
        for &cmd in &cmds {
            for &len in &lens {
                let mut full = SIG.to_vec();
                full.push(cmd);
                full.push(family);
                full.extend_from_slice(&len.to_be_bytes());
                for i in 0..len as usize {
                    full.push((i * 5 + 1) as u8);
                }
                // trailing payload bytes that must not be consumed
                full.extend_from_slice(b"GET");
                // every truncation, plus a corrupted signature
                for cut in 0..=full.len() {
                    evals += 1;
                    let input = &full[..cut];
                    if input.is_empty() {
                        continue;
                    }
                    let want = reference(input);
                    let short_block = cut >= 16 + len as usize && ((family >> 4 == 1 && len < 12) || (family >> 4 == 2 && len < 36) || (family >> 4 == 3 && len < 216));
                    let case = json!({"part": "a", "family": family, "command": cmd, "declared_len": len, "bytes_available": cut});
                    match guarded(|| implementation(input)) {
                        Err(p) => ctx.violation_w("C18|proxy-parser-panic", format!("parse_v2_header panicked: {p}"), case, len as u64),
                        Ok(got) => {
                            *outcomes.entry(format!("{:?}", std::mem::discriminant(&got))).or_insert(0) += 1;
                            if !same(&got, &want, short_block) {
                                let class = match (&got, &want) {
                                    (V::Ok { consumed: a, .. }, V::Ok { consumed: b, .. }) if a != b => "consumed-wrong-length",
                                    (V::Ok { .. }, V::Ok { .. }) => "wrong-addresses",
                                    (V::Ok { .. }, _) => "accepted-malformed",
                                    (_, V::Ok { .. }) => "rejected-valid",
                                    _ => "reject-vs-incomplete",
                                };
                                ctx.violation_w(format!("C18|proxy-v2-parse:{class}:family={:#x}", family >> 4), format!("parser says {got:?}, reference says {want:?}"), case, len as u64);
                            }
                        }
                    }
                }
            }
        }
    }
    // round trip of every header sozu itself builds
    let addrs: [&str; 4] = ["1.2.3.4:5", "255.255.255.255:65535", "[::1]:1", "[ffff:ffff:ffff:ffff:ffff:ffff:ffff:ffff]:65535"];
    for s in addrs {
        for d in addrs {
            for cmd in [Command::Local, Command::Proxy] {
                evals += 1;
                let (sa, da): (SocketAddr, SocketAddr) = (s.parse().unwrap(), d.parse().unwrap());
                let h = HeaderV2::new(cmd, sa, da);
                let bytes = h.into_bytes();
                let case = json!({"part": "a-roundtrip", "src": s, "dst": d});
                match parse_v2_header(&bytes) {
                    Ok((rest, back)) => {
                        if !rest.is_empty() || back != h {
                            ctx.violation("C18|proxy-v2-roundtrip", format!("serialised header parses back as {back:?} with {} bytes left", rest.len()), case.clone());
                        }
                        let mixed = sa.is_ipv4() != da.is_ipv4();
                        if !mixed && (back.addr.source() != Some(sa) || back.addr.destination() != Some(da)) {
                            ctx.violation("C18|proxy-v2-roundtrip-addresses", format!("addresses changed: {:?} {:?}", back.addr.source(), back.addr.destination()), case.clone());
                        }
                        if bytes.len() != h.len() {
                            ctx.violation("C18|proxy-v2-len", format!("len() = {}, serialised {}", h.len(), bytes.len()), case);
                        }
                        let _ = ProxyAddr::AfUnspec;
                    }
                    Err(e) => ctx.violation("C18|proxy-v2-roundtrip", format!("serialised header does not parse: {e:?}"), case),
                }
            }
        }
    }
    ctx.sample(json!({"part": "a", "family": 0x11, "command": 0x21, "declared_len": 12, "bytes_available": 28}));
    Coverage {
        states: evals,
        transitions: evals,
        evaluations: evals,
        distinct_nontrivial: outcomes.len() as u64,
        distinct_outcomes: outcomes.len() as u64,
        rule: "PROXY v2 headers: 9 family bytes (UNSPEC, INET, INET6, UNIX, invalid; stream/datagram) x 5 version/command bytes x declared address-block lengths 0..=60, 216, 232, 1000 (TLV tails included) followed by payload bytes, every truncation of the byte string fed to parse_v2_header and compared with a reference on accept/incomplete/reject, consumed length and addresses; plus parse(into_bytes(h)) = h for every header sozu builds from 4x4 address pairs and both commands".into(),
        exhaustive: true,
        bound: json!({"families": families.len(), "commands": cmds.len(), "lengths": lens.len()}),
        extra: json!({"parser_outcomes": outcomes}),
        assumptions: vec!["a declared address block shorter than its family needs may be refused as an error or as 'incomplete' (an existing unit test pins the latter); the session-level part (b) checks that such a header still ends the session".into()],
        ..Default::default()
    }
}

// ------------------------------------------------------------------ (b) SIM: TCP relay

use crate::{
    common::Tier,
    interpose::VIRTUAL_EPOCH_NS,
    sim::{
        ChoiceProfile, End, FdClass,
        explore::{self, ItemResult, Run},
        h1, scen,
        peer::{Peer, Step},
        worker::{self, MainStep, WorkerSetup},
    },
};

#[derive(Clone, Copy, Debug, PartialEq, Eq, serde::Serialize, serde::Deserialize)]
pub enum Mode {
    Plain,
    Send,
    Expect,
    Relay,
}

#[derive(Clone, Copy, Debug, PartialEq, Eq, serde::Serialize, serde::Deserialize)]
pub enum Ending {
    /// both sides stay open until everything was received
    Open,
    /// the backend closes right after its payload: the client must receive all of it, then end-of-stream
    BackendClose,
    /// the client closes right after its payload (expects nothing back): the backend must receive all of it, then end-of-stream
    ClientClose,
    /// the client half-closes right after its payload and waits for the answer
    ClientHalfClose,
}

#[derive(Clone, Debug, serde::Serialize, serde::Deserialize)]
pub struct TcpCase {
    pub mode: Mode,
    pub up: usize,
    pub down: usize,
    /// incoming PROXY header variant (expect / relay modes)
    pub header: String,
    /// header and first payload bytes in one segment
    pub coalesced: bool,
    /// how the exchange ends
    pub end: Ending,
    pub buffer_size: u64,
}

fn incoming_header(kind: &str) -> (Vec<u8>, bool) {
    // returns (bytes, well_formed)
    let mut h = SIG.to_vec();
    match kind {
        "v4" => {
            h.extend_from_slice(&[0x21, 0x11, 0, 12, 10, 1, 2, 3, 10, 4, 5, 6, 0x1f, 0x90, 0x01, 0xbb]);
            (h, true)
        }
        "v6" => {
            h.extend_from_slice(&[0x21, 0x21, 0, 36]);
            h.extend_from_slice(&[0x20, 1, 0xd, 0xb8, 0, 0, 0, 0, 0, 0, 0, 0, 0, 0, 0, 1]);
            h.extend_from_slice(&[0x20, 1, 0xd, 0xb8, 0, 0, 0, 0, 0, 0, 0, 0, 0, 0, 0, 2]);
            h.extend_from_slice(&[0x1f, 0x90, 0x01, 0xbb]);
            (h, true)
        }
        "local" => {
            h.extend_from_slice(&[0x20, 0x00, 0, 0]);
            (h, true)
        }
        "v4-tlv" => {
            h.extend_from_slice(&[0x21, 0x11, 0, 19, 10, 1, 2, 3, 10, 4, 5, 6, 0x1f, 0x90, 0x01, 0xbb, 0x04, 0, 4, 1, 2, 3, 4]);
            (h, true)
        }
        "unix" => {
            h.extend_from_slice(&[0x21, 0x31, 0, 216]);
            let mut a = [0u8; 216];
            a[..9].copy_from_slice(b"/tmp/src\0");
            a[108..117].copy_from_slice(b"/tmp/dst\0");
            h.extend_from_slice(&a);
            (h, true)
        }
        "unspec" => {
            // PROXY command, AF_UNSPEC, 5 opaque bytes the receiver must skip
            h.extend_from_slice(&[0x21, 0x00, 0, 5, 1, 2, 3, 4, 5]);
            (h, true)
        }
        "oversized" => {
            // announces 217 address bytes: 233 in total, over the 232-byte maximum
            h.extend_from_slice(&[0x21, 0x31, 0, 217]);
            h.extend_from_slice(&[0u8; 217]);
            (h, false)
        }
        "huge" => {
            // announces 65535 address bytes: larger than any session buffer
            h.extend_from_slice(&[0x21, 0x11, 0xff, 0xff]);
            h.extend_from_slice(&vec![7u8; 65535]);
            (h, false)
        }
        "bad-length" => {
            // TCP4 needs 12 address bytes, announces 8
            h.extend_from_slice(&[0x21, 0x11, 0, 8, 10, 1, 2, 3, 10, 4, 5, 6]);
            (h, false)
        }
        "bad-signature" => {
            h[3] = 0x0b;
            h.extend_from_slice(&[0x21, 0x11, 0, 12, 10, 1, 2, 3, 10, 4, 5, 6, 0x1f, 0x90, 0x01, 0xbb]);
            (h, false)
        }
        "bad-version" => {
            h.extend_from_slice(&[0x31, 0x11, 0, 12, 10, 1, 2, 3, 10, 4, 5, 6, 0x1f, 0x90, 0x01, 0xbb]);
            (h, false)
        }
        _ => (vec![], true),
    }
}

pub fn run_tcp_case(case: &TcpCase, prefix: Vec<u32>, profile: ChoiceProfile) -> Run {
    use sozu_command_lib::proto::command::ProxyProtocolConfig;
    let front = scen::addr(1, 7070);
    let back = scen::addr(2, 7171);
    let mode = case.mode;
    let state = scen::tcp_state(
        front,
        back,
        |l| l.expect_proxy = matches!(mode, Mode::Expect | Mode::Relay),
        |c| {
            c.proxy_protocol = match mode {
                Mode::Plain => None,
                Mode::Send => Some(ProxyProtocolConfig::SendHeader as i32),
                Mode::Expect => Some(ProxyProtocolConfig::ExpectHeader as i32),
                Mode::Relay => Some(ProxyProtocolConfig::RelayHeader as i32),
            }
        },
    );
    let up = h1::coded_body(3, case.up);
    let down = h1::coded_body(9, case.down);
    let (hdr, mut well_formed) = if matches!(mode, Mode::Expect | Mode::Relay) { incoming_header(&case.header) } else { (vec![], true) };
    if mode == Mode::Relay && case.header == "oversized" {
        // 233 bytes exceed the 232-byte window of the expect mode only; the relay
        // mode forwards the header verbatim from the session buffer, and a UNIX
        // header with a one-byte tail is well formed
        well_formed = true;
    }
    // what the backend must receive before the payload
    let backend_header_len = match mode {
        Mode::Plain | Mode::Expect => 0,
        Mode::Send => 28, // v4 listener / v4 client
        Mode::Relay => hdr.len(), // relayed verbatim, TLVs included
    };
    let mut client = vec![Step::Connect { to: front, from: None }];
    let cuts = |n: usize| -> Vec<usize> {
        if n <= 240 { (1..=n).collect() } else { vec![1, 15, 16, 17, 28, 232, 233, 4096, 16393, n / 2, n - 1, n] }
    };
    if !hdr.is_empty() {
        if case.coalesced {
            let mut first = hdr.clone();
            first.extend_from_slice(&up);
            // every byte position of the header is a candidate cut
            client.push(Step::Send { splits: cuts(hdr.len()).into_iter().filter(|c| *c < first.len()).collect(), bytes: first });
        } else {
            client.push(Step::Send { splits: cuts(hdr.len()).into_iter().filter(|c| *c < hdr.len()).collect(), bytes: hdr.clone() });
            client.push(Step::Send { splits: vec![1, up.len() / 2], bytes: up.clone() });
        }
    } else {
        client.push(Step::Send { splits: vec![1, up.len() / 2, up.len().saturating_sub(1)], bytes: up.clone() });
    }
    let end = case.end;
    let down_len = if end == Ending::ClientClose { 0 } else { case.down };
    match end {
        Ending::Open => client.extend([Step::ExpectBytes(down_len), Step::Done]),
        Ending::BackendClose => client.extend([Step::ExpectBytes(down_len), Step::ExpectEof, Step::Done]),
        Ending::ClientClose => client.extend([Step::Close, Step::Done]),
        Ending::ClientHalfClose => client.extend([Step::HalfClose, Step::ExpectBytes(down_len), Step::ExpectEof, Step::Done]),
    }
    let mut backend = vec![Step::Accept, Step::ExpectBytes(backend_header_len + case.up)];
    match end {
        Ending::Open => backend.extend([Step::Send { splits: vec![1, down.len() / 2], bytes: down.clone() }, Step::Done]),
        Ending::BackendClose => backend.extend([Step::Send { splits: vec![1, down.len() / 2], bytes: down.clone() }, Step::Close, Step::Done]),
        Ending::ClientClose => backend.extend([Step::ExpectEof, Step::Done]),
        Ending::ClientHalfClose => backend.extend([Step::ExpectEof, Step::Send { splits: vec![1, down.len() / 2], bytes: down.clone() }, Step::Close, Step::Done]),
    }
    let backend = Peer::server("backend", back, backend);
    let client = Peer::client("client", client);
    let bs = case.buffer_size;
    let ws = WorkerSetup { config: worker::server_config(|c| c.buffer_size = bs), initial: state };
    let (mut exec, create_err) = worker::run_worker(ws, vec![backend, client], vec![MainStep::AwaitPeers], profile, prefix, 200);
    if let Some(e) = create_err {
        crate::common::machinery_error(&format!("worker creation failed: {e}"));
    }
    let mut violations: Vec<(String, String)> = vec![];
    let key_mode = if matches!(end, Ending::ClientClose | Ending::ClientHalfClose) { "any".to_owned() } else { format!("{mode:?}") };
    let mut flag = |k: String, d: String| violations.push((format!("C18|tcp|{end:?}|{key_mode}|{k}"), d));
    if let Some(p) = &exec.subject_panic {
        flag("worker-panic".into(), format!("worker panicked: {p}"));
    }
    let run_end = exec.end.clone();
    let sc = worker::scenario_of(&mut exec);
    let b = &sc.peers[0];
    let c = &sc.peers[1];
    let client_local = c.conn.local_addr();
    let brx = &b.conn.rx;
    let mut obs = format!("end={run_end:?} backend_rx={} client_rx={} client_eof={} backend_eof={}", brx.len(), c.conn.rx.len(), c.conn.eof || c.conn.reset, b.conn.eof || b.conn.reset);
    if !well_formed {
        // malformed header: the session must be closed and nothing forwarded
        if !brx.is_empty() {
            flag(format!("forwarded-after-malformed-header:{}", case.header), format!("the backend received {} bytes although the PROXY header was malformed", brx.len()));
        }
        if !(c.conn.eof || c.conn.reset) {
            flag(format!("not-closed-after-malformed-header:{}", case.header), "the client connection was left open after a malformed PROXY header".into());
        }
        return Run { trace: exec.trace, observation: obs, violations, diverged: exec.diverged };
    }
    // ---- upstream: [exactly one well-formed header] + exactly the payload
    if brx.len() < backend_header_len {
        flag("upstream:header-missing".into(), format!("backend received {} bytes, expected a {backend_header_len}-byte PROXY header first", brx.len()));
    } else {
        let (head, payload) = brx.split_at(backend_header_len);
        if backend_header_len > 0 {
            match parse_v2_header(head) {
                Ok((rest, h)) if rest.is_empty() => {
                    let (src, dst) = (h.addr.source(), h.addr.destination());
                    obs.push_str(&format!(" hdr_family={:#x}", h.family));
                    match mode {
                        Mode::Send => {
                            if src.map(|a| a.ip()) != client_local.map(|a| a.ip()) || src.map(|a| a.port()) != client_local.map(|a| a.port()) {
                                flag("upstream:header-wrong-source".into(), format!("PROXY header names source {src:?}, the client is {client_local:?}"));
                            }
                            if dst != Some(front) {
                                flag("upstream:header-wrong-destination".into(), format!("PROXY header names destination {dst:?}, the listener is {front}"));
                            }
                        }
                        Mode::Relay => {
                            if head != &hdr[..] {
                                flag("upstream:relayed-header-differs".into(), format!("relayed header {:02x?} differs from the incoming one {:02x?}", head, hdr));
                            }
                        }
                        _ => {}
                    }
                }
                other => flag("upstream:header-malformed".into(), format!("the first {backend_header_len} bytes at the backend are not one PROXY v2 header: {:?}", other.map(|(r, _)| r.len()))),
            }
        }
        if payload != &up[..] {
            let class = if payload.len() < up.len() && up.starts_with(payload) {
                "truncated"
            } else if payload.len() > up.len() {
                "extra-bytes"
            } else if payload.windows(12).any(|w| w == &SIG[..]) {
                "second-header"
            } else {
                "corrupted"
            };
            flag(format!("upstream:payload-{class}"), format!("backend payload is {} bytes, client sent {} (header {}, coalesced={})", payload.len(), up.len(), case.header, case.coalesced));
        }
    }
    if c.conn.rx != down[..down_len] {
        let class = if c.conn.rx.len() < down.len() && down.starts_with(&c.conn.rx) { "truncated" } else { "corrupted" };
        flag(format!("downstream:payload-{class}"), format!("client received {} bytes, backend sent {}", c.conn.rx.len(), down_len));
    }
    if matches!(end, Ending::ClientClose | Ending::ClientHalfClose) && !b.conn.eof {
        flag("upstream:eof-not-forwarded".into(), "the client ended its stream after its payload but the backend never saw end-of-stream".into());
    }
    if matches!(end, Ending::BackendClose | Ending::ClientHalfClose) && !(c.conn.eof || c.conn.reset) {
        flag("downstream:eof-not-forwarded".into(), "the backend closed after its payload but the client never saw end-of-stream".into());
    }
    if let Some(t) = c.conn.last_rx_ns {
        if (t - VIRTUAL_EPOCH_NS) / 1_000_000 >= 1000 {
            flag("completed-only-after-timer".into(), format!("the last byte reached the client after {} virtual ms", (t - VIRTUAL_EPOCH_NS) / 1_000_000));
        }
    }
    drop(flag);
    if run_end != End::Finished && violations.is_empty() {
        violations.push((format!("C18|tcp|{end:?}|{key_mode}|worker-{}", format!("{run_end:?}").to_lowercase()), format!("run ended {run_end:?} although every expected byte was delivered")));
    }
    Run { trace: exec.trace, observation: obs, violations, diverged: exec.diverged }
}

fn tcp_cases(tier: Tier) -> Vec<TcpCase> {
    let mut v = vec![];
    let sizes: &[usize] = if tier == Tier::Quick { &[1, 100, 16384, 40000] } else { &[1, 2, 100, 4095, 4096, 4097, 16383, 16384, 16385, 16393, 16394, 40000, 131073] };
    let ends = [Ending::Open, Ending::BackendClose, Ending::ClientClose, Ending::ClientHalfClose];
    for &bs in &[4096u64, 16393] {
        for &n in sizes {
            for end in ends {
                v.push(TcpCase { mode: Mode::Plain, up: n, down: 7, header: String::new(), coalesced: false, end, buffer_size: bs });
                if end != Ending::ClientClose {
                    v.push(TcpCase { mode: Mode::Plain, up: 7, down: n, header: String::new(), coalesced: false, end, buffer_size: bs });
                }
            }
        }
        for end in ends {
            v.push(TcpCase { mode: Mode::Send, up: 100, down: 50, header: String::new(), coalesced: false, end, buffer_size: bs });
            v.push(TcpCase { mode: Mode::Send, up: 20000, down: 20000, header: String::new(), coalesced: false, end, buffer_size: bs });
        }
        for mode in [Mode::Expect, Mode::Relay] {
            for header in ["v4", "v6", "local", "v4-tlv", "unix", "unspec", "oversized", "huge", "bad-signature", "bad-version", "bad-length"] {
                for coalesced in [false, true] {
                    v.push(TcpCase { mode, up: 64, down: 32, header: header.into(), coalesced, end: Ending::Open, buffer_size: bs });
                }
            }
            for end in [Ending::BackendClose, Ending::ClientClose, Ending::ClientHalfClose] {
                v.push(TcpCase { mode, up: 5000, down: 5000, header: "v4".into(), coalesced: true, end, buffer_size: bs });
            }
        }
    }
    v
}

fn tcp_profile() -> ChoiceProfile {
    ChoiceProfile { read_faults: vec![FdClass::Front, FdClass::Back], write_faults: vec![FdClass::Front, FdClass::Back], max_points_per_class: 5, event_order: true, ..Default::default() }
}

pub fn run_item(tier: Tier, item: usize) -> ItemResult {
    let all = tcp_cases(tier);
    let case = all[item].clone();
    let mut violations = vec![];
    let c2 = case.clone();
    let stats = explore::search(
        if tier == Tier::Quick { 1 } else { 2 },
        if tier == Tier::Quick { 300 } else { 4000 },
        |prefix| {
            let c = c2.clone();
            let p = prefix.to_vec();
            match worker::isolated(move || run_tcp_case(&c, p.clone(), tcp_profile())) {
                Ok(r) => r,
                Err(status) => {
                    let mut r = super::c01::crashed_run(prefix, &status);
                    for v in r.violations.iter_mut() {
                        v.0 = v.0.replace("C01|any", &format!("C18|tcp|{:?}", c2.mode));
                    }
                    r
                }
            }
        },
        |vector, key, desc| {
            let weight = vector.iter().filter(|c| **c != 0).count() as u64 * 1000 + (case.up + case.down) as u64 / 100;
            violations.push((key.to_owned(), desc.to_owned(), json!({"part": "b", "case": case, "choices": vector}), weight));
        },
    );
    let mut counters = BTreeMap::new();
    counters.insert("sim_executions".to_owned(), stats.executions);
    ItemResult { item, label: format!("{case:?}"), stats, violations, counters, sample: json!({"case": case}) }
}

pub fn run(ctx: &Ctx) -> Coverage {
    if std::env::var("VERIF_SHARD").is_ok() {
        // shard child: only the SIM part is sharded
        let tier = ctx.tier();
        let n = tcp_cases(tier).len();
        explore::run_sharded(ctx, n, "c18b", |i| run_item(tier, i));
        super::c18c::run(ctx);
        unreachable!();
    }
    let mut cov = Coverage::aggregate();
    cov.absorb("a-proxy-v2-codec", run_a(ctx));
    let tier = ctx.tier();
    let n = tcp_cases(tier).len();
    let results = explore::run_sharded(ctx, n, "c18b", |i| run_item(tier, i));
    cov.absorb("b-tcp-relay", super::c01::summarize(ctx, &results, "TCP sessions through an unmodified worker: plain relay in both directions (sizes straddling buffer boundaries, with and without client half-close), PROXY-protocol send mode, and expect / relay modes with incoming v2 headers {TCP4, TCP6, LOCAL, TCP4+TLV, bad signature, bad version} either separate from or coalesced with the first payload bytes and cut at every byte position; each with every schedule of at most d deviations (short / would-block reads and writes on both sockets, readiness order). Oracle: backend stream = [exactly one well-formed header with the true or relayed addresses] + exactly the client payload; client stream = exactly the backend payload; end-of-stream forwarded after all bytes; malformed header: closed, nothing forwarded; nothing completes only after a timer"));
    cov.absorb("c-websocket", super::c18c::run(ctx));
    cov
}

pub fn replay(ctx: &Ctx, case: &Value) -> Coverage {
    if case["part"] == "c" {
        return super::c18c::replay(ctx, case);
    }
    if case["part"] == "b" {
        let c: TcpCase = serde_json::from_value(case["case"].clone()).unwrap_or_else(|e| crate::common::machinery_error(&format!("bad replay case: {e}")));
        let choices: Vec<u32> = serde_json::from_value(case["choices"].clone()).unwrap_or_default();
        let r = worker::isolated(move || run_tcp_case(&c, choices, tcp_profile())).unwrap_or_else(|s| super::c01::crashed_run(&[], &s));
        for (k, d) in r.violations {
            ctx.violation(k, d, case.clone());
        }
        return Coverage { states: 1, transitions: 1, evaluations: 1, distinct_nontrivial: 1, distinct_outcomes: 1, rule: "replay".into(), ..Default::default() };
    }
    run(ctx)
}

pub fn debug(args: &crate::common::Args) {
    let all = tcp_cases(args.tier);
    let item: usize = args.extra.get("item").and_then(|s| s.parse().ok()).unwrap_or(0);
    let mut choices: Vec<u32> = args.extra.get("choices").map(|s| s.split(',').filter_map(|x| x.parse().ok()).collect()).unwrap_or_default();
    let mut c = all[item].clone();
    if let Some(f) = args.extra.get("file") {
        let j = crate::common::load_replay(&std::path::PathBuf::from(f));
        c = serde_json::from_value(j["case"]["case"].clone()).unwrap();
        choices = serde_json::from_value(j["case"]["choices"].clone()).unwrap();
    }
    println!("{} cases; {:?}", all.len(), c);
    let r = worker::isolated(move || run_tcp_case(&c, choices, tcp_profile())).unwrap();
    println!("obs={}", r.observation);
    println!("trace={:?}", r.trace.iter().map(|p| format!("{}:{}/{}", p.kind, p.chosen, p.alternatives)).collect::<Vec<_>>());
    println!("violations={:#?}", r.violations);
}
