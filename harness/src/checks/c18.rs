//! C18(a) — PROXY protocol v2 headers are parsed and serialised exactly.
//! ENUM over the real `parse_v2_header` and `HeaderV2::into_bytes`.

use std::{collections::BTreeMap, net::SocketAddr};

use serde_json::{Value, json};
use sozu_lib::protocol::proxy_protocol::{
    header::{Command, HeaderV2, ProxyAddr},
    parser::parse_v2_header,
};

use crate::common::{Coverage, Ctx, guarded};

const SIG: [u8; 12] = [0x0D, 0x0A, 0x0D, 0x0A, 0x00, 0x0D, 0x0A, 0x51, 0x55, 0x49, 0x54, 0x0A];

#[derive(Debug, PartialEq, Clone)]
enum V {
    Ok { consumed: usize, cmd: u8, family: u8, src: Option<SocketAddr>, dst: Option<SocketAddr> },
    Incomplete,
    Reject,
}

fn implementation(input: &[u8]) -> V {
    match parse_v2_header(input) {
        Ok((rest, h)) => V::Ok {
            consumed: input.len() - rest.len(),
            cmd: match h.command {
                Command::Local => 0x20,
                Command::Proxy => 0x21,
            },
            family: h.family,
            src: h.addr.source(),
            dst: h.addr.destination(),
        },
        Err(nom::Err::Incomplete(_)) => V::Incomplete,
        Err(_) => V::Reject,
    }
}

fn reference(input: &[u8]) -> V {
    // signature: a mismatch in the bytes present rejects, a prefix is incomplete
    let n = input.len().min(12);
    if input[..n] != SIG[..n] {
        return V::Reject;
    }
    if input.len() < 13 {
        return V::Incomplete;
    }
    let cmd = input[12];
    if cmd != 0x20 && cmd != 0x21 {
        return V::Reject;
    }
    if input.len() < 16 {
        return V::Incomplete;
    }
    let family = input[13];
    let len = u16::from_be_bytes([input[14], input[15]]) as usize;
    if input.len() < 16 + len {
        return V::Incomplete;
    }
    let a = &input[16..16 + len];
    let (src, dst) = match family >> 4 {
        0 => (None, None),
        1 => {
            if len < 12 {
                // declared block shorter than an IPv4 address block
                return V::RejectOrIncomplete();
            }
            let s = SocketAddr::from(([a[0], a[1], a[2], a[3]], u16::from_be_bytes([a[8], a[9]])));
            let d = SocketAddr::from(([a[4], a[5], a[6], a[7]], u16::from_be_bytes([a[10], a[11]])));
            (Some(s), Some(d))
        }
        2 => {
            if len < 36 {
                return V::RejectOrIncomplete();
            }
            let mut s = [0u8; 16];
            s.copy_from_slice(&a[0..16]);
            let mut d = [0u8; 16];
            d.copy_from_slice(&a[16..32]);
            (
                Some(SocketAddr::from((s, u16::from_be_bytes([a[32], a[33]])))),
                Some(SocketAddr::from((d, u16::from_be_bytes([a[34], a[35]])))),
            )
        }
        _ => return V::Reject,
    };
    V::Ok { consumed: 16 + len, cmd, family, src, dst }
}

impl V {
    /// a declared address block too short for its family: the parser may call
    /// it an error or (streaming combinators) ask for more bytes; both refuse it
    #[allow(non_snake_case)]
    fn RejectOrIncomplete() -> V {
        V::Reject
    }
}

fn same(got: &V, want: &V, short_block: bool) -> bool {
    if got == want {
        return true;
    }
    short_block && matches!(got, V::Reject | V::Incomplete) && matches!(want, V::Reject)
}

pub fn run_a(ctx: &Ctx) -> Coverage {
    let families: [u8; 9] = [0x00, 0x01, 0x11, 0x12, 0x21, 0x22, 0x31, 0x32, 0x40];
    let cmds: [u8; 5] = [0x20, 0x21, 0x22, 0x10, 0x00];
    let lens: Vec<u16> = (0..=60).chain([216, 232, 1000]).collect();
    let mut evals = 0u64;
    let mut outcomes: BTreeMap<String, u64> = BTreeMap::new();
    for &family in &families {
        for &cmd in &cmds {
            for &len in &lens {
                let mut full = SIG.to_vec();
                full.push(cmd);
                full.push(family);
                full.extend_from_slice(&len.to_be_bytes());
                for i in 0..len as usize {
                    full.push((i * 5 + 1) as u8);
                }
                // trailing payload bytes that must not be consumed
                full.extend_from_slice(b"GET");
                // every truncation, plus a corrupted signature
                for cut in 0..=full.len() {
                    evals += 1;
                    let input = &full[..cut];
                    if input.is_empty() {
                        continue;
                    }
                    let want = reference(input);
                    let short_block = cut >= 16 + len as usize && ((family >> 4 == 1 && len < 12) || (family >> 4 == 2 && len < 36));
                    let case = json!({"part": "a", "family": family, "command": cmd, "declared_len": len, "bytes_available": cut});
                    match guarded(|| implementation(input)) {
                        Err(p) => ctx.violation_w("C18|proxy-parser-panic", format!("parse_v2_header panicked: {p}"), case, len as u64),
                        Ok(got) => {
                            *outcomes.entry(format!("{:?}", std::mem::discriminant(&got))).or_insert(0) += 1;
                            if !same(&got, &want, short_block) {
                                let class = match (&got, &want) {
                                    (V::Ok { consumed: a, .. }, V::Ok { consumed: b, .. }) if a != b => "consumed-wrong-length",
                                    (V::Ok { .. }, V::Ok { .. }) => "wrong-addresses",
                                    (V::Ok { .. }, _) => "accepted-malformed",
                                    (_, V::Ok { .. }) => "rejected-valid",
                                    _ => "reject-vs-incomplete",
                                };
                                ctx.violation_w(format!("C18|proxy-v2-parse:{class}:family={:#x}", family >> 4), format!("parser says {got:?}, reference says {want:?}"), case, len as u64);
                            }
                        }
                    }
                }
            }
        }
    }
    // round trip of every header sozu itself builds
    let addrs: [&str; 4] = ["1.2.3.4:5", "255.255.255.255:65535", "[::1]:1", "[ffff:ffff:ffff:ffff:ffff:ffff:ffff:ffff]:65535"];
    for s in addrs {
        for d in addrs {
            for cmd in [Command::Local, Command::Proxy] {
                evals += 1;
                let (sa, da): (SocketAddr, SocketAddr) = (s.parse().unwrap(), d.parse().unwrap());
                let h = HeaderV2::new(cmd, sa, da);
                let bytes = h.into_bytes();
                let case = json!({"part": "a-roundtrip", "src": s, "dst": d});
                match parse_v2_header(&bytes) {
                    Ok((rest, back)) => {
                        if !rest.is_empty() || back != h {
                            ctx.violation("C18|proxy-v2-roundtrip", format!("serialised header parses back as {back:?} with {} bytes left", rest.len()), case.clone());
                        }
                        let mixed = sa.is_ipv4() != da.is_ipv4();
                        if !mixed && (back.addr.source() != Some(sa) || back.addr.destination() != Some(da)) {
                            ctx.violation("C18|proxy-v2-roundtrip-addresses", format!("addresses changed: {:?} {:?}", back.addr.source(), back.addr.destination()), case.clone());
                        }
                        if bytes.len() != h.len() {
                            ctx.violation("C18|proxy-v2-len", format!("len() = {}, serialised {}", h.len(), bytes.len()), case);
                        }
                        let _ = ProxyAddr::AfUnspec;
                    }
                    Err(e) => ctx.violation("C18|proxy-v2-roundtrip", format!("serialised header does not parse: {e:?}"), case),
                }
            }
        }
    }
    ctx.sample(json!({"part": "a", "family": 0x11, "command": 0x21, "declared_len": 12, "bytes_available": 28}));
    Coverage {
        states: evals,
        transitions: evals,
        evaluations: evals,
        distinct_nontrivial: outcomes.len() as u64,
        distinct_outcomes: outcomes.len() as u64,
        rule: "PROXY v2 headers: 9 family bytes (UNSPEC, INET, INET6, UNIX, invalid; stream/datagram) x 5 version/command bytes x declared address-block lengths 0..=60, 216, 232, 1000 (TLV tails included) followed by payload bytes, every truncation of the byte string fed to parse_v2_header and compared with a reference on accept/incomplete/reject, consumed length and addresses; plus parse(into_bytes(h)) = h for every header sozu builds from 4x4 address pairs and both commands".into(),
        exhaustive: true,
        bound: json!({"families": families.len(), "commands": cmds.len(), "lengths": lens.len()}),
        extra: json!({"parser_outcomes": outcomes}),
        assumptions: vec!["AF_UNIX headers are rejected by sozu's parser; the reference treats that as the documented behaviour (session closed), not as a violation".into()],
        ..Default::default()
    }
}

pub fn run(ctx: &Ctx) -> Coverage {
    let mut cov = Coverage::aggregate();
    cov.absorb("a-proxy-v2-codec", run_a(ctx));
    cov
}

pub fn replay(ctx: &Ctx, _case: &Value) -> Coverage {
    run(ctx)
}
