//! C16(a) — admission limits and per-(cluster, IP) slots. XS over the real
//! `SessionManager`.

use std::{collections::BTreeMap, net::IpAddr};

use mio::Token;
use serde_json::{Value, json};
use sozu_lib::server::SessionManager;

use crate::{
    common::{Coverage, Ctx, guarded, machinery_error},
    xs,
};

#[derive(Clone, Copy, Debug, PartialEq, Eq, serde::Serialize, serde::Deserialize)]
enum Op {
    Accept,
    Close(u8),
    /// a request of connection `t` resolves to (cluster, ip)
    Track(u8, u8, u8),
    SetLimit(u8),
}

const CLUSTERS: [&str; 2] = ["c1", "c2"];
const IPS: [&str; 2] = ["10.0.0.1", "10.0.0.2"];
const NTOK: u8 = 3;

fn alphabet() -> Vec<Op> {
    let mut v = vec![Op::Accept];
    for t in 0..NTOK {
        v.push(Op::Close(t));
    }
    for t in 0..NTOK {
        for c in 0..2 {
            for i in 0..2 {
                v.push(Op::Track(t, c, i));
            }
        }
    }
    for l in 0..3 {
        v.push(Op::SetLimit(l));
    }
    v
}

#[derive(Clone, Debug, serde::Serialize, serde::Deserialize)]
struct Hist {
    max_connections: usize,
    ops: Vec<Op>,
}

#[derive(Default, Clone)]
struct Ref {
    live: [bool; 3],
    /// (token, cluster, ip) tracked since the last clear
    tracked: Vec<(u8, u8, u8)>,
    limit: u64,
}

impl Ref {
    fn count(&self, c: u8, i: u8) -> u64 {
        self.tracked.iter().filter(|(_, cc, ii)| *cc == c && *ii == i).count() as u64
    }
}

fn ip(i: u8) -> IpAddr {
    IPS[i as usize].parse().unwrap()
}

type Bad = Option<(String, String)>;

fn run_history(h: &Hist) -> (Vec<Bad>, String) {
    let sm = SessionManager::new(slab::Slab::new(), h.max_connections, 1, 0);
    let mut r = Ref { limit: 1, ..Default::default() };
    let mut bads = vec![];
    for &op in &h.ops {
        let mut bad: Bad = None;
        let mut flag = |k: &str, d: String| {
            if bad.is_none() {
                bad = Some((k.to_owned(), d));
            }
        };
        let mut m = sm.borrow_mut();
        match op {
            Op::Accept => {
                let nlive = r.live.iter().filter(|x| **x).count();
                let ok = m.check_limits();
                if ok != (nlive < h.max_connections) {
                    flag("admission-decision", format!("check_limits()={ok} with {nlive} connections and max_connections {}", h.max_connections));
                }
                if ok {
                    if let Some(t) = (0..NTOK as usize).find(|&t| !r.live[t]) {
                        m.incr();
                        r.live[t] = true;
                    }
                }
            }
            Op::Close(t) => {
                if r.live[t as usize] {
                    m.decr();
                    m.untrack_all_cluster_ip(Token(t as usize));
                    r.live[t as usize] = false;
                    r.tracked.retain(|(tt, _, _)| *tt != t);
                }
            }
            Op::Track(t, c, i) => {
                if r.live[t as usize] {
                    let tok = Token(t as usize);
                    let already = r.tracked.contains(&(t, c, i));
                    let refused = m.cluster_ip_at_limit(tok, CLUSTERS[c as usize], &ip(i), None);
                    let want_refused = r.limit != 0 && !already && r.count(c, i) >= r.limit;
                    if refused != want_refused {
                        flag(
                            if refused { "per-ip-refused-below-limit" } else { "per-ip-limit-exceeded" },
                            format!("connection {t} -> ({}, {}): at_limit={refused}, reference count {} limit {}", CLUSTERS[c as usize], IPS[i as usize], r.count(c, i), r.limit),
                        );
                    }
                    if !refused {
                        m.track_cluster_ip(tok, CLUSTERS[c as usize].to_owned(), ip(i));
                        if !already {
                            r.tracked.push((t, c, i));
                        }
                    }
                }
            }
            Op::SetLimit(l) => {
                // what Server::notify does for SetMaxConnectionsPerIp
                // (it used to wipe the accounting when the limit became 0; part (c) showed that
                // an address then gets a second quota, so the wipe is gone from Server::notify)
                m.max_connections_per_ip = l as u64;
                r.limit = l as u64;
            }
        }
        // ---- state agreement after every step
        let nlive = r.live.iter().filter(|x| **x).count();
        if m.nb_connections != nlive {
            flag("connection-count-drift", format!("nb_connections={} reference {nlive}", m.nb_connections));
        }
        if m.nb_connections > h.max_connections {
            flag("max-connections-exceeded", format!("{} > {}", m.nb_connections, h.max_connections));
        }
        if nlive == 0 && !m.can_accept {
            flag("accept-never-resumes", format!("no connection is left but can_accept is still false (max_connections={})", h.max_connections));
        }
        // slot counts, read through a fresh token so that nothing is "already tracked"
        for c in 0..2u8 {
            for i in 0..2u8 {
                let mut count = 0u64;
                for k in 1..=4u64 {
                    if m.cluster_ip_at_limit(Token(99), CLUSTERS[c as usize], &ip(i), Some(k)) {
                        count = k;
                    }
                }
                if count != r.count(c, i) {
                    flag("slot-count-drift", format!("({}, {}) holds {count} slots, reference {}", CLUSTERS[c as usize], IPS[i as usize], r.count(c, i)));
                }
            }
        }
        drop(m);
        bads.push(bad);
    }
    let m = sm.borrow();
    let mut d = format!("{}|{}|{}|{}|", h.max_connections, m.nb_connections, m.can_accept, m.max_connections_per_ip);
    for t in 0..NTOK {
        d.push(if r.live[t as usize] { 'L' } else { '-' });
        for c in 0..2u8 {
            for i in 0..2u8 {
                let fresh: Vec<bool> = (1..=3).map(|k| m.cluster_ip_at_limit(Token(99), CLUSTERS[c as usize], &ip(i), Some(k))).collect();
                let own = m.cluster_ip_at_limit(Token(t as usize), CLUSTERS[c as usize], &ip(i), Some(1));
                d.push_str(&format!("{fresh:?}{own}"));
            }
        }
    }
    (bads, d)
}

pub fn run(ctx: &Ctx) -> Coverage {
    if std::env::var("VERIF_SHARD").is_ok() {
        super::c16b::run(ctx);
        super::c16c::run(ctx);
        unreachable!();
    }
    let mut cov = Coverage::aggregate();
    cov.absorb("a-session-manager", run_a(ctx));
    cov.absorb("b-live-sessions", super::c16b::run(ctx));
    cov.absorb("c-per-address-limit-changed-at-runtime", super::c16c::run(ctx));
    cov
}

fn run_a(ctx: &Ctx) -> Coverage {
    let alpha = alphabet();
    let depth = ctx.tier().pick(7, 9);
    let seeds: Vec<Hist> = [1usize, 2, 3].iter().map(|&m| Hist { max_connections: m, ops: vec![] }).collect();
    let ex = xs::bfs(
        seeds,
        alpha.len(),
        depth,
        5_000_000,
        |h, sym, _| {
            let mut n = h.clone();
            n.ops.push(alpha[sym]);
            Some(n)
        },
        |h| match guarded(|| run_history(h)) {
            Err(p) => {
                ctx.violation_w("C16|panic", format!("SessionManager panicked: {p}"), json!({"part":"a","history": h}), h.ops.len() as u64);
                xs::key_of(format!("panic{:?}", h.ops).as_bytes())
            }
            Ok((bads, d)) => {
                if let Some(Some((k, desc))) = bads.last() {
                    ctx.violation_w(format!("C16|{k}"), desc.clone(), json!({"part":"a","history": h}), h.ops.len() as u64);
                }
                xs::key_of(d.as_bytes())
            }
        },
    );
    let n = ex.states.len();
    ctx.sample(json!({"history": ex.states[n - 1]}));
    let per_sym: BTreeMap<String, u64> = alpha.iter().zip(ex.per_symbol_new_state.iter()).map(|(o, n)| (format!("{o:?}"), *n)).collect();
    Coverage {
        states: n as u64,
        transitions: ex.transitions,
        evaluations: ex.transitions,
        distinct_nontrivial: n as u64,
        distinct_outcomes: n as u64,
        rule: "all histories up to the depth over {accept, close(3 connections), track(connection, 2 clusters, 2 IPs), SetMaxConnectionsPerIp 0/1/2} from max_connections 1, 2 and 3 on the real SessionManager; states deduplicated on every observable (counts, can_accept, per-(cluster, ip) slot counts and per-connection tracking read through cluster_ip_at_limit); each step compared with a counting reference".into(),
        exhaustive: !ex.capped,
        bound: json!({"depth": depth, "alphabet": alpha.len(), "seed_states": 3}),
        caps_hit: if ex.capped { vec!["max_states".into()] } else { vec![] },
        assumptions: vec![
            "the accept / close / track call pattern is the one Server::accept, close_session and mux Router::connect use; whether every teardown path of the real sessions performs it is the SIM part of C16".into(),
        ],
        extra: json!({"per_symbol_new_states": per_sym, "max_depth_reached": ex.max_depth}),
    }
}

pub fn replay(ctx: &Ctx, case: &Value) -> Coverage {
    if case["part"] == "b" {
        return super::c16b::replay_case(ctx, case);
    }
    if case["part"] == "c" {
        return super::c16c::replay_case(ctx, case);
    }
    let h: Hist = serde_json::from_value(case["history"].clone())
        .unwrap_or_else(|e| machinery_error(&format!("bad replay history: {e}")));
    let (bads, _) = run_history(&h);
    for (i, b) in bads.iter().enumerate() {
        if let Some((k, d)) = b {
            ctx.violation(format!("C16|{k}"), format!("step {i}: {d}"), case.clone());
            break;
        }
    }
    Coverage {
        states: 1,
        transitions: h.ops.len().max(1) as u64,
        evaluations: 1,
        distinct_nontrivial: 1,
        distinct_outcomes: 1,
        rule: "single replayed history".into(),
        ..Default::default()
    }
}
