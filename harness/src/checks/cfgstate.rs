//! C05 (save/replay round trips), C06 (diff reaches target), C07(a) (rejected
//! command leaves no trace / frame condition) — XS over the real `ConfigState`.

use std::{
    collections::{BTreeMap, BTreeSet},
    io::{Read, Seek, SeekFrom},
    sync::atomic::{AtomicU64, Ordering},
};

use serde_json::{Value, json};
use sozu_command_lib::{
    parser::parse_several_requests,
    proto::command::{ListenerType, Request, WorkerRequest, request::RequestType},
    request::read_initial_state,
    state::ConfigState,
};

use crate::{
    cfgspace::{self, Sym},
    common::{Coverage, Ctx, Tier, guarded, ncpu, par_map},
    xs::{self, Explored},
};

/// Flat object view of a configuration: object path -> canonical JSON.
/// `bucket/...` markers record the mere presence of (possibly empty)
/// per-key containers so that strict comparisons can see orphan buckets.
pub type Flat = BTreeMap<String, String>;

pub fn flat(s: &ConfigState, with_buckets: bool) -> Flat {
    let mut m = Flat::new();
    let j = |v: &dyn erased::Ser| v.to_json();
    for (k, v) in &s.clusters {
        m.insert(format!("cluster/{k}"), j(v));
    }
    for (k, list) in &s.backends {
        if with_buckets {
            m.insert(format!("bucket/backends/{k}"), String::new());
        }
        for b in list {
            m.insert(format!("backend/{k}/{}@{}", b.backend_id, b.address), j(b));
        }
        // the position of each backend in its list is part of the configuration: it is the order
        // generate_requests emits them in, hence the order a worker's round robin visits them
        if list.len() > 1 {
            m.insert(format!("backend-order/{k}"), list.iter().map(|b| format!("{}@{}", b.backend_id, b.address)).collect::<Vec<_>>().join(","));
        }
    }
    for (k, v) in &s.http_listeners {
        m.insert(format!("http_listener/{k}"), j(v));
    }
    for (k, v) in &s.https_listeners {
        m.insert(format!("https_listener/{k}"), j(v));
    }
    for (k, v) in &s.tcp_listeners {
        m.insert(format!("tcp_listener/{k}"), j(v));
    }
    for (k, v) in &s.udp_listeners {
        m.insert(format!("udp_listener/{k}"), j(v));
    }
    for (k, v) in &s.http_fronts {
        m.insert(format!("http_front/{k}"), j(v));
    }
    for (k, v) in &s.https_fronts {
        m.insert(format!("https_front/{k}"), j(v));
    }
    for (k, list) in &s.tcp_fronts {
        if with_buckets {
            m.insert(format!("bucket/tcp_fronts/{k}"), String::new());
        }
        for f in list {
            let body = j(f);
            // several entries may share (cluster, address): disambiguate by body
            m.insert(format!("tcp_front/{k}/{}/{body}", f.address), body);
        }
    }
    for (k, list) in &s.udp_fronts {
        if with_buckets {
            m.insert(format!("bucket/udp_fronts/{k}"), String::new());
        }
        for f in list {
            let body = j(f);
            m.insert(format!("udp_front/{k}/{}/{body}", f.address), body);
        }
    }
    for (addr, certs) in &s.certificates {
        if with_buckets {
            m.insert(format!("bucket/certificates/{addr}"), String::new());
        }
        for (fp, c) in certs {
            m.insert(format!("cert/{addr}/{fp}"), j(c));
        }
    }
    m
}

mod erased {
    pub trait Ser {
        fn to_json(&self) -> String;
    }
    impl<T: serde::Serialize> Ser for T {
        fn to_json(&self) -> String {
            serde_json::to_string(self).unwrap_or_else(|e| format!("<unserialisable {e}>"))
        }
    }
}

/// canonical key of the *implementation* state (buckets included, counts excluded)
pub fn impl_key(s: &ConfigState) -> xs::Key {
    let f = flat(s, true);
    let mut buf = Vec::with_capacity(4096);
    for (k, v) in &f {
        buf.extend_from_slice(k.as_bytes());
        buf.push(0);
        buf.extend_from_slice(v.as_bytes());
        buf.push(1);
    }
    xs::key_of(&buf)
}

fn category(path: &str) -> String {
    let mut it = path.split('/');
    let a = it.next().unwrap_or("");
    if a == "bucket" {
        format!("bucket/{}", it.next().unwrap_or(""))
    } else {
        a.to_owned()
    }
}

/// first difference between two flat views, as (category, path, left, right)
pub fn first_diff(a: &Flat, b: &Flat) -> Option<(String, String, String, String)> {
    let keys: BTreeSet<&String> = a.keys().chain(b.keys()).collect();
    for k in keys {
        let (x, y) = (a.get(k), b.get(k));
        if x != y {
            return Some((
                category(k),
                k.clone(),
                x.cloned().unwrap_or_else(|| "<absent>".into()),
                y.cloned().unwrap_or_else(|| "<absent>".into()),
            ));
        }
    }
    None
}

pub fn all_diff_paths(a: &Flat, b: &Flat) -> Vec<String> {
    let keys: BTreeSet<&String> = a.keys().chain(b.keys()).collect();
    keys.into_iter()
        .filter(|k| a.get(*k) != b.get(*k))
        .cloned()
        .collect()
}

fn err_variant(e: &impl std::fmt::Debug) -> String {
    let s = format!("{e:?}");
    s.chars()
        .take_while(|c| c.is_ascii_alphanumeric() || *c == '_')
        .collect()
}

fn listener_prefix(proxy: i32, addr: std::net::SocketAddr) -> Vec<String> {
    match ListenerType::try_from(proxy) {
        Ok(ListenerType::Http) => vec![format!("http_listener/{addr}")],
        Ok(ListenerType::Https) => vec![format!("https_listener/{addr}")],
        Ok(ListenerType::Tcp) => vec![format!("tcp_listener/{addr}")],
        Ok(ListenerType::Udp) => vec![format!("udp_listener/{addr}")],
        Err(_) => vec![],
    }
}

/// Object paths an accepted command may touch ("the objects it names").
pub fn named_paths(r: &Request) -> Vec<String> {
    use RequestType::*;
    let Some(t) = &r.request_type else {
        return vec![];
    };
    let sa = |a: &sozu_command_lib::proto::command::SocketAddress| -> std::net::SocketAddr {
        (*a).into()
    };
    match t {
        AddCluster(c) => vec![format!("cluster/{}", c.cluster_id)],
        RemoveCluster(id) | RemoveHealthCheck(id) => vec![format!("cluster/{id}")],
        SetHealthCheck(s) => vec![format!("cluster/{}", s.cluster_id)],
        AddHttpListener(l) => vec![format!("http_listener/{}", sa(&l.address))],
        AddHttpsListener(l) => vec![format!("https_listener/{}", sa(&l.address))],
        AddTcpListener(l) => vec![format!("tcp_listener/{}", sa(&l.address))],
        AddUdpListener(l) => vec![format!("udp_listener/{}", sa(&l.address))],
        UpdateHttpListener(p) => vec![format!("http_listener/{}", sa(&p.address))],
        UpdateHttpsListener(p) => vec![format!("https_listener/{}", sa(&p.address))],
        UpdateTcpListener(p) => vec![format!("tcp_listener/{}", sa(&p.address))],
        UpdateUdpListener(p) => vec![format!("udp_listener/{}", sa(&p.address))],
        RemoveListener(x) => listener_prefix(x.proxy, sa(&x.address)),
        ActivateListener(x) => listener_prefix(x.proxy, sa(&x.address)),
        DeactivateListener(x) => listener_prefix(x.proxy, sa(&x.address)),
        AddHttpFrontend(f) | RemoveHttpFrontend(f) => vec![format!("http_front/{f}")],
        AddHttpsFrontend(f) | RemoveHttpsFrontend(f) => vec![format!("https_front/{f}")],
        AddTcpFrontend(f) | RemoveTcpFrontend(f) => vec![
            format!("tcp_front/{}/{}/", f.cluster_id, sa(&f.address)),
            format!("bucket/tcp_fronts/{}", f.cluster_id),
        ],
        AddUdpFrontend(f) | RemoveUdpFrontend(f) => vec![
            format!("udp_front/{}/{}/", f.cluster_id, sa(&f.address)),
            format!("bucket/udp_fronts/{}", f.cluster_id),
        ],
        AddBackend(b) => vec![
            format!("backend/{}/{}@{}", b.cluster_id, b.backend_id, sa(&b.address)),
            format!("bucket/backends/{}", b.cluster_id),
            format!("backend-order/{}", b.cluster_id),
        ],
        RemoveBackend(b) => vec![
            format!("backend/{}/{}@{}", b.cluster_id, b.backend_id, sa(&b.address)),
            format!("bucket/backends/{}", b.cluster_id),
            format!("backend-order/{}", b.cluster_id),
        ],
        AddCertificate(a) => {
            let addr = sa(&a.address);
            let mut v = vec![format!("bucket/certificates/{addr}")];
            if let Ok(fp) = a.certificate.fingerprint() {
                v.push(format!("cert/{addr}/{fp}"));
            }
            v
        }
        RemoveCertificate(x) => {
            let addr = sa(&x.address);
            vec![format!("cert/{addr}/{}", x.fingerprint.to_lowercase())]
        }
        ReplaceCertificate(x) => {
            let addr = sa(&x.address);
            let mut v = vec![format!("cert/{addr}/{}", x.old_fingerprint.to_lowercase())];
            if let Ok(fp) = x.new_certificate.fingerprint() {
                v.push(format!("cert/{addr}/{fp}"));
            }
            v
        }
        _ => vec![],
    }
}

pub struct StateSpace {
    pub alphabet: Vec<Sym>,
    pub ex: Explored<ConfigState>,
    pub seeds: Vec<Vec<usize>>,
}

fn seed_histories(alphabet: &[Sym]) -> Vec<Vec<String>> {
    let _ = alphabet;
    vec![
        vec![],
        // a populated HTTP/HTTPS configuration
        vec![
            "AddHttpListener(a4,rich)",
            "ActivateListener(http)",
            "AddHttpsListener(a6,default)",
            "AddCluster(c1,rich)",
            "AddHttpFrontend(f1)",
            "AddHttpsFrontend(g1)",
            "AddBackend(c1,b1@1)",
            "AddBackend(c1,b1@2)",
            "AddCertificate(a6,cert1)",
        ]
        .into_iter()
        .map(String::from)
        .collect(),
        // a populated TCP/UDP configuration with duplicates and empty buckets
        vec![
            "AddTcpListener(a4,rich)",
            "ActivateListener(tcp)",
            "AddUdpListener(a6,rich)",
            "ActivateListener(udp)",
            "AddCluster(c1)",
            "AddCluster(c2,udp)",
            "AddTcpFrontend(c1,a4)",
            "AddTcpFrontend(c2,a4)",
            "RemoveTcpFrontend(c2,a4)",
            "AddUdpFrontend(c2,a6)",
            "AddBackend(c1,b2@1)",
            "AddCertificate(a6,cert2)",
            "AddCertificate(a6,cert1,names=[x.io])",
        ]
        .into_iter()
        .map(String::from)
        .collect(),
    ]
}

fn sym_index(alphabet: &[Sym], name: &str) -> usize {
    alphabet
        .iter()
        .position(|s| s.name == name)
        .unwrap_or_else(|| crate::common::machinery_error(&format!("unknown symbol {name}")))
}

pub fn build_from_names(alphabet: &[Sym], names: &[String]) -> ConfigState {
    let mut s = ConfigState::new();
    for n in names {
        let _ = s.dispatch(&alphabet[sym_index(alphabet, n)].req);
    }
    s
}

/// Explore the reachable configurations. The C07(a) oracle runs inside the
/// step function (every (state, command) attempt is a transition).
pub fn explore(ctx: &Ctx, depth: u32, max_states: usize) -> StateSpace {
    let alphabet = cfgspace::alphabet();
    let seeds_names = seed_histories(&alphabet);
    let seeds: Vec<ConfigState> = seeds_names
        .iter()
        .map(|h| build_from_names(&alphabet, h))
        .collect();
    let seed_idx: Vec<Vec<usize>> = seeds_names
        .iter()
        .map(|h| h.iter().map(|n| sym_index(&alphabet, n)).collect())
        .collect();
    let err_count = AtomicU64::new(0);
    let ok_count = AtomicU64::new(0);
    let panic_count = AtomicU64::new(0);
    let alpha = &alphabet;
    let ex = xs::bfs(
        seeds,
        alphabet.len(),
        depth,
        max_states,
        |s, sym, _si| {
            let mut n = s.clone();
            let req = &alpha[sym].req;
            match guarded(|| n.dispatch(req)) {
                Err(_) => {
                    panic_count.fetch_add(1, Ordering::Relaxed);
                    // state after a panic is whatever was left behind
                }
                Ok(Ok(())) => {
                    ok_count.fetch_add(1, Ordering::Relaxed);
                }
                Ok(Err(_)) => {
                    err_count.fetch_add(1, Ordering::Relaxed);
                }
            }
            Some(n)
        },
        impl_key,
    );
    ctx.count("dispatch_ok", ok_count.load(Ordering::Relaxed));
    ctx.count("dispatch_err", err_count.load(Ordering::Relaxed));
    ctx.count("dispatch_panic", panic_count.load(Ordering::Relaxed));
    StateSpace {
        alphabet,
        ex,
        seeds: seed_idx,
    }
}

impl StateSpace {
    pub fn history_names(&self, i: usize) -> Vec<String> {
        let (seed, h) = self.ex.history(i);
        self.seeds[seed]
            .iter()
            .chain(h.iter())
            .map(|&s| self.alphabet[s].name.clone())
            .collect()
    }
}

// ------------------------------------------------------------------ C05

fn replay_requests(reqs: &[Request]) -> Result<ConfigState, (usize, String, String)> {
    let mut s = ConfigState::new();
    for (i, r) in reqs.iter().enumerate() {
        if let Err(e) = s.dispatch(r) {
            return Err((i, cfgspace::verb(r), err_variant(&e)));
        }
    }
    Ok(s)
}

fn tmpfile() -> std::fs::File {
    tempfile::tempfile_in("/dev/shm")
        .or_else(|_| tempfile::tempfile())
        .unwrap_or_else(|e| crate::common::machinery_error(&format!("tempfile: {e}")))
}

/// Runs the four save/replay paths on `s`; returns the list of
/// (path name, violation key suffix, description).
pub fn c05_paths(s: &ConfigState) -> Vec<(String, String, String)> {
    let mut out = vec![];
    let want = flat(s, false);
    let verdict = |out: &mut Vec<(String, String, String)>,
                   path: &str,
                   got: Result<ConfigState, (usize, String, String)>| match got {
        Err((i, verb, err)) => out.push((
            path.to_owned(),
            format!("rejected:{verb}:{err}"),
            format!("replayed request #{i} ({verb}) was rejected with {err}"),
        )),
        Ok(r) => {
            if let Some((cat, p, l, rr)) = first_diff(&want, &flat(&r, false)) {
                out.push((
                    path.to_owned(),
                    format!("mismatch:{cat}"),
                    format!("object {p} differs after replay: saved={l} replayed={rr}"),
                ));
            }
        }
    };

    // π1: in-memory worker bootstrap
    let init = match guarded(|| s.produce_initial_state()) {
        Ok(i) => i,
        Err(p) => {
            out.push(("bootstrap".into(), "panic".into(), p));
            return out;
        }
    };
    let reqs: Vec<Request> = init.requests.iter().map(|w| w.content.clone()).collect();
    verdict(&mut out, "bootstrap", replay_requests(&reqs));

    // π2: JSON state file
    {
        let mut f = tmpfile();
        match guarded(|| s.write_requests_to_file(&mut f)) {
            Ok(Ok(n)) => {
                let mut bytes = vec![];
                f.seek(SeekFrom::Start(0)).unwrap();
                f.read_to_end(&mut bytes).unwrap();
                match parse_several_requests::<WorkerRequest>(&bytes) {
                    Ok((rest, parsed)) => {
                        if !rest.is_empty() && !rest.iter().all(|b| b.is_ascii_whitespace()) {
                            out.push((
                                "statefile".into(),
                                "unparsed-tail".into(),
                                format!("{} bytes of the saved state file do not parse back", rest.len()),
                            ));
                        } else if parsed.len() != n {
                            out.push((
                                "statefile".into(),
                                "count".into(),
                                format!("wrote {n} requests, parsed {}", parsed.len()),
                            ));
                        } else {
                            let reqs: Vec<Request> =
                                parsed.into_iter().map(|w| w.content).collect();
                            verdict(&mut out, "statefile", replay_requests(&reqs));
                        }
                    }
                    Err(e) => out.push((
                        "statefile".into(),
                        "parse-error".into(),
                        format!("saved state file does not parse: {e:?}"),
                    )),
                }
            }
            Ok(Err(e)) => out.push(("statefile".into(), "write-error".into(), e.to_string())),
            Err(p) => out.push(("statefile".into(), "panic".into(), p)),
        }
    }

    // π3: protobuf bootstrap blob
    {
        let mut f = tmpfile();
        // write_initial_state_to_file prints a line to stdout; harmless
        match guarded(|| s.write_initial_state_to_file(&mut f)) {
            Ok(Ok(_)) => {
                f.seek(SeekFrom::Start(0)).unwrap();
                match read_initial_state(&mut f) {
                    Ok(init) => {
                        let reqs: Vec<Request> =
                            init.requests.into_iter().map(|w| w.content).collect();
                        verdict(&mut out, "protobuf", replay_requests(&reqs));
                    }
                    Err(e) => out.push(("protobuf".into(), "decode-error".into(), e.to_string())),
                }
            }
            Ok(Err(e)) => out.push(("protobuf".into(), "write-error".into(), e.to_string())),
            Err(p) => out.push(("protobuf".into(), "panic".into(), p)),
        }
    }

    // π4: JSON upgrade payload (UpgradeData.state), then bootstrap from the
    // deserialised copy (what the re-executed main process does)
    match serde_json::to_string(s) {
        Ok(text) => match serde_json::from_str::<ConfigState>(&text) {
            Ok(back) => {
                if let Some((cat, p, l, r)) = first_diff(&want, &flat(&back, false)) {
                    out.push((
                        "upgrade-json".into(),
                        format!("mismatch:{cat}"),
                        format!("object {p} differs after JSON round trip: {l} vs {r}"),
                    ));
                }
                // fresh hash seeds in `back`: replay must not depend on order
                let reqs: Vec<Request> = back
                    .produce_initial_state()
                    .requests
                    .into_iter()
                    .map(|w| w.content)
                    .collect();
                verdict(&mut out, "upgrade-json+bootstrap", replay_requests(&reqs));
            }
            Err(e) => out.push((
                "upgrade-json".into(),
                "deserialize-error".into(),
                e.to_string(),
            )),
        },
        Err(e) => out.push(("upgrade-json".into(), "serialize-error".into(), e.to_string())),
    }
    out
}

pub fn run_c05(ctx: &Ctx) -> Coverage {
    let (depth, cap) = ctx.tier().pick((3, 400_000), (4, 1_500_000));
    let sp = explore(ctx, depth, cap);
    let n = sp.ex.states.len();
    let idx: Vec<usize> = (0..n).collect();
    let outcomes = std::sync::Mutex::new(BTreeSet::new());
    let evals = AtomicU64::new(0);
    // each state is checked under 3 independently re-seeded copies (hash order)
    par_map(&idx, ncpu(), |_, &i| {
        let s = &sp.ex.states[i];
        let mut all = vec![];
        for round in 0..3 {
            let inst = if round == 0 {
                s.clone()
            } else {
                // rebuild from history: fresh RandomState for every HashMap
                build_from_names(&sp.alphabet, &sp.history_names(i))
            };
            let v = c05_paths(&inst);
            evals.fetch_add(5, Ordering::Relaxed);
            all.push(v);
        }
        for v in &all {
            for (path, kind, desc) in v {
                let h = sp.history_names(i);
                let w = h.len() as u64;
                ctx.violation_w(
                    format!("C05|{path}|{kind}"),
                    desc.clone(),
                    json!({"check":"c05","history": h, "path": path}),
                    w,
                );
            }
        }
        let sig: Vec<String> = all
            .iter()
            .map(|v| v.iter().map(|(p, k, _)| format!("{p}|{k}")).collect::<Vec<_>>().join(","))
            .collect();
        if sig.iter().any(|x| x != &sig[0]) {
            ctx.violation(
                "C05|order-dependent-verdict",
                "replay verdict differs between identically configured instances (map order)",
                json!({"check":"c05","history": sp.history_names(i), "verdicts": sig}),
            );
        }
        outcomes.lock().unwrap().insert(flat(s, false).len());
    });
    for i in [n / 2, n - 1] {
        ctx.sample(json!({"history": sp.history_names(i), "objects": flat(&sp.ex.states[i], false).len()}));
    }
    coverage_from(ctx, &sp, depth, evals.load(Ordering::Relaxed), outcomes.into_inner().unwrap().len() as u64,
        "every reachable ConfigState (BFS over the command alphabet from 3 seed states) x 5 save/replay paths x 3 re-seeded instances")
}

// ------------------------------------------------------------------ C06

pub fn diff_check(a: &ConfigState, b: &ConfigState) -> Option<(String, String)> {
    let d = match guarded(|| a.diff(b)) {
        Ok(d) => d,
        Err(p) => return Some(("panic".into(), p)),
    };
    let mut x = a.clone();
    for (i, r) in d.iter().enumerate() {
        if let Err(e) = x.dispatch(r) {
            return Some((
                format!("rejected:{}:{}", cfgspace::verb(r), err_variant(&e)),
                format!("diff request #{i} of {} ({:?}) rejected by the source state: {e}", d.len(), cfgspace::verb(r)),
            ));
        }
    }
    if let Some((cat, p, l, r)) = first_diff(&flat(&x, false), &flat(b, false)) {
        return Some((
            format!("mismatch:{cat}"),
            format!("after applying the diff, object {p} is {l}, target has {r}"),
        ));
    }
    None
}

pub fn run_c06(ctx: &Ctx) -> Coverage {
    let (depth, cap) = ctx.tier().pick((2, 2_000), (3, 7_000));
    let sp = explore(ctx, depth, 400_000);
    // Pair set: all states up to the cap, deterministic order (BFS order), so
    // the shallowest (simplest) states are always included.
    let n_all = sp.ex.states.len();
    let n = n_all.min(cap);
    let idx: Vec<usize> = (0..n).collect();
    let pairs = AtomicU64::new(0);
    let nonempty = AtomicU64::new(0);
    par_map(&idx, ncpu(), |_, &i| {
        let a = &sp.ex.states[i];
        let mut local_nonempty = 0;
        for j in 0..n {
            let b = &sp.ex.states[j];
            if i == j {
                let d = a.diff(a);
                if !d.is_empty() {
                    ctx.violation(
                        format!("C06|self-diff-nonempty:{}", cfgspace::verb(&d[0])),
                        "diff of a configuration with itself is not empty",
                        json!({"check":"c06","a": sp.history_names(i), "b": sp.history_names(i)}),
                    );
                }
            }
            if let Some((kind, desc)) = diff_check(a, b) {
                let (ha, hb) = (sp.history_names(i), sp.history_names(j));
                let w = (ha.len() + hb.len()) as u64;
                ctx.violation_w(
                    format!("C06|{kind}"),
                    desc,
                    json!({"check":"c06","a": ha, "b": hb}),
                    w,
                );
            }
            if impl_key(a) != impl_key(b) {
                local_nonempty += 1;
            }
        }
        pairs.fetch_add(n as u64, Ordering::Relaxed);
        nonempty.fetch_add(local_nonempty, Ordering::Relaxed);
    });
    ctx.sample(json!({"a": sp.history_names(n / 3), "b": sp.history_names(n - 1)}));
    let mut cov = coverage_from(
        ctx,
        &sp,
        depth,
        pairs.load(Ordering::Relaxed),
        nonempty.load(Ordering::Relaxed),
        "all ordered pairs (A,B) over the first N reachable ConfigStates in BFS order: A.diff(B) applied to a clone of A, compared with B",
    );
    cov.transitions += pairs.load(Ordering::Relaxed);
    cov.extra["pair_states"] = json!(n);
    cov.extra["reachable_states_at_depth"] = json!(n_all);
    cov.exhaustive = n == n_all && !sp.ex.capped;
    if n < n_all {
        cov.caps_hit.push(format!(
            "pair product restricted to the first {n} of {n_all} reachable states (BFS order)"
        ));
    }
    cov
}

// ------------------------------------------------------------------ C07(a)

pub fn run_c07a(ctx: &Ctx) -> Coverage {
    let (depth, cap) = ctx.tier().pick((3, 400_000), (4, 1_500_000));
    let sp = explore(ctx, depth, cap);
    // every command attempted in every reached state (including the deepest
    // layer, which the BFS itself does not expand)
    let n = sp.ex.states.len();
    let last: Vec<usize> = (0..n).collect();
    let extra = AtomicU64::new(0);
    par_map(&last, ncpu(), |_, &i| {
        let s = &sp.ex.states[i];
        for sym in &sp.alphabet {
            extra.fetch_add(1, Ordering::Relaxed);
            let mut nst = s.clone();
            let r = guarded(|| nst.dispatch(&sym.req));
            let before = flat(s, true);
            let after = flat(&nst, true);
            match r {
                Err(p) => ctx.violation(
                    format!("C07|panic:{}", cfgspace::verb(&sym.req)),
                    format!("dispatch panicked: {p}"),
                    json!({"check":"c07","history": sp.history_names(i), "symbol": sym.name}),
                ),
                Ok(Err(e)) => {
                    ctx.count("c07_rejected_commands", 1);
                    if let Some((cat, path, l, rr)) = first_diff(&before, &after) {
                        ctx.violation(
                            format!("C07|err-mutates:{}:{}:{}", cfgspace::verb(&sym.req), err_variant(&e), cat),
                            format!("rejected {} ({e}) still changed {path}", sym.name),
                            json!({"check":"c07","history": sp.history_names(i), "symbol": sym.name,
                                   "path": path, "before": l, "after": rr}),
                        );
                    }
                }
                Ok(Ok(())) => {
                    let allowed = named_paths(&sym.req);
                    for p in all_diff_paths(&before, &after) {
                        if !allowed.iter().any(|a| p.starts_with(a.as_str())) {
                            ctx.violation(
                                format!("C07|frame:{}:{}", cfgspace::verb(&sym.req), category(&p)),
                                format!("accepted {} changed an object it does not name: {p}", sym.name),
                                json!({"check":"c07","history": sp.history_names(i), "symbol": sym.name, "changed_path": p}),
                            );
                        }
                    }
                }
            }
        }
    });
    ctx.sample(json!({"state_history": sp.history_names(n - 1), "commands_tried": sp.alphabet.len()}));
    let mut cov = coverage_from(
        ctx,
        &sp,
        depth,
        extra.load(Ordering::Relaxed),
        ctx.counter("c07_rejected_commands"),
        "every reachable ConfigState x every command of the alphabet (valid and invalid twins): Err => state byte-identical incl. no orphan bucket; Ok => only named objects changed",
    );
    cov.transitions += extra.load(Ordering::Relaxed);
    cov
}

fn coverage_from(
    ctx: &Ctx,
    sp: &StateSpace,
    depth: u32,
    evaluations: u64,
    distinct_nontrivial: u64,
    rule: &str,
) -> Coverage {
    let never: Vec<String> = sp
        .alphabet
        .iter()
        .zip(sp.ex.per_symbol_new_state.iter())
        .filter(|(_, n)| **n == 0)
        .map(|(s, _)| s.name.clone())
        .collect();
    let mut caps = vec![];
    if sp.ex.capped {
        caps.push("max_states reached during BFS".to_owned());
    }
    let _ = ctx;
    Coverage {
        states: sp.ex.states.len() as u64,
        transitions: sp.ex.transitions,
        evaluations,
        distinct_nontrivial,
        distinct_outcomes: sp.ex.states.len() as u64,
        rule: rule.to_owned(),
        exhaustive: !sp.ex.capped,
        bound: json!({"depth": depth, "alphabet": sp.alphabet.len(), "seed_states": sp.seeds.len()}),
        caps_hit: caps,
        assumptions: vec![
            "alphabet of ~90 commands over 2 listener addresses, 2 clusters, 3+2 http(s) frontends, 2 backend ids x 2 addresses, 2-3 certificates; larger domains not explored".into(),
            "request_counts (bookkeeping) is excluded from state comparison; empty per-key buckets are equivalent to absent ones when comparing configurations (but not when checking that a rejected command left no trace)".into(),
            "harness profile: debug-assertions off (sozu's own debug self-checks do not run), overflow-checks on".into(),
        ],
        extra: json!({
            "max_depth_reached": sp.ex.max_depth,
            "symbols_never_creating_a_new_state": never,
        }),
    }
}

/// Replay of a recorded case (history-based).
pub fn replay(ctx: &Ctx, case: &Value) -> Coverage {
    let alphabet = cfgspace::alphabet();
    let names = |v: &Value| -> Vec<String> {
        v.as_array()
            .map(|a| a.iter().filter_map(|x| x.as_str().map(String::from)).collect())
            .unwrap_or_default()
    };
    let mut transitions = 1;
    match case["check"].as_str() {
        Some("c05") => {
            let s = build_from_names(&alphabet, &names(&case["history"]));
            for (path, kind, desc) in c05_paths(&s) {
                ctx.violation(format!("C05|{path}|{kind}"), desc, case.clone());
            }
        }
        Some("c06") => {
            let a = build_from_names(&alphabet, &names(&case["a"]));
            let b = build_from_names(&alphabet, &names(&case["b"]));
            if let Some((kind, desc)) = diff_check(&a, &b) {
                ctx.violation(format!("C06|{kind}"), desc, case.clone());
            }
            transitions = 2;
        }
        Some("c07") => {
            let s = build_from_names(&alphabet, &names(&case["history"]));
            let sym = &alphabet[sym_index(&alphabet, case["symbol"].as_str().unwrap_or(""))];
            let mut n = s.clone();
            let r = n.dispatch(&sym.req);
            let (before, after) = (flat(&s, true), flat(&n, true));
            match r {
                Err(e) => {
                    if let Some((cat, path, _, _)) = first_diff(&before, &after) {
                        ctx.violation(
                            format!("C07|err-mutates:{}:{}:{}", cfgspace::verb(&sym.req), err_variant(&e), cat),
                            format!("rejected {} still changed {path}", sym.name),
                            case.clone(),
                        );
                    }
                }
                Ok(()) => {
                    let allowed = named_paths(&sym.req);
                    for p in all_diff_paths(&before, &after) {
                        if !allowed.iter().any(|a| p.starts_with(a.as_str())) {
                            ctx.violation(
                                format!("C07|frame:{}:{}", cfgspace::verb(&sym.req), category(&p)),
                                format!("accepted {} changed {p}", sym.name),
                                case.clone(),
                            );
                        }
                    }
                }
            }
        }
        _ => crate::common::machinery_error("replay: unknown check kind"),
    }
    let _ = Tier::Quick;
    Coverage {
        states: 1,
        transitions,
        evaluations: 1,
        distinct_nontrivial: 1,
        distinct_outcomes: 1,
        rule: "single replayed case".into(),
        exhaustive: false,
        ..Default::default()
    }
}
