//! C19 — UDP flows are sticky, isolated, bounded and torn down once.
//! Exhaustive enumeration of all input histories of a fixed length over the
//! real sans-IO `UdpManager` with injected `Instant`s.

use std::{
    collections::{BTreeMap, HashMap, HashSet},
    net::SocketAddr,
    sync::Mutex,
    time::{Duration, Instant},
};

use serde_json::{Value, json};
use sozu_lib::protocol::udp::{
    ClusterConfig, ConfigEvent, FlowId, ManagerInput, MetricEvent, Output, UdpManager,
    flow::{CloseReason, FlowPhase},
};

use crate::common::{Coverage, Ctx, fnv_of, guarded, machinery_error, ncpu, par_map};

#[derive(Clone, Copy, Debug, PartialEq, Eq, Hash, serde::Serialize, serde::Deserialize)]
enum Op {
    /// client datagram from source index
    Cd(u8),
    /// backend resolution for flow id -> backend index
    Resolve(u8, u8),
    /// backend datagram on flow id
    Bd(u8),
    /// advance clock by 1 s / 31 s, then handle_timeout
    Tick(bool),
    MaxFlows(u8),
    /// cluster mode: 0 = ip affinity, unlimited; 1 = ip+port affinity, 1 response; 2 = other cluster id
    Cluster(u8),
    Drain,
    Abort(u8),
    CloseAll,
}

const SRCS: [&str; 3] = ["10.0.0.1:1001", "10.0.0.1:1002", "10.0.0.2:1001"];
const BACKS: [&str; 2] = ["10.1.0.1:53", "10.1.0.2:53"];

fn alphabet() -> Vec<Op> {
    let mut v = vec![Op::Cd(0), Op::Cd(1), Op::Cd(2)];
    for f in 0..2 {
        for b in 0..2 {
            v.push(Op::Resolve(f, b));
        }
    }
    v.push(Op::Bd(0));
    v.push(Op::Bd(1));
    v.push(Op::Tick(false));
    v.push(Op::Tick(true));
    v.push(Op::MaxFlows(0));
    v.push(Op::MaxFlows(1));
    v.push(Op::MaxFlows(2));
    v.push(Op::Cluster(0));
    v.push(Op::Cluster(1));
    v.push(Op::Cluster(2));
    v.push(Op::Drain);
    v.push(Op::Abort(0));
    v.push(Op::CloseAll);
    v
}

fn cluster(mode: u8) -> ClusterConfig {
    ClusterConfig {
        cluster: if mode == 2 { "other".into() } else { "c".into() },
        affinity_with_port: mode == 1,
        responses: if mode == 1 { 1 } else { 0 },
        requests: 0,
        front_timeout: Duration::from_secs(30),
        back_timeout: Duration::from_secs(30),
        send_proxy_protocol: false,
        proxy_protocol_every_datagram: false,
    }
}

/// reference record of one live flow instance
#[derive(Clone, Debug)]
struct RefFlow {
    client: SocketAddr,
    backend: Option<SocketAddr>,
    /// payloads accepted but not yet forwarded (only the latest is kept by
    /// design while awaiting a backend; loss is permitted, reordering is not)
    responses_limit: u32,
    responses_seen: u32,
}

struct World {
    m: UdpManager,
    now: Instant,
    live: HashMap<FlowId, RefFlow>,
    /// reference flow table: affinity key (port 0 = keyed by IP only) -> live flow
    table: HashMap<SocketAddr, FlowId>,
    created: u64,
    closed: u64,
    sent: u32,
    stats: [u64; 5],
}

fn new_world(base: Instant) -> World {
    World {
        m: UdpManager::new(cluster(0), 2, 1500, 7),
        now: base,
        live: HashMap::new(),
        table: HashMap::new(),
        created: 0,
        closed: 0,
        sent: 0,
        stats: [0; 5],
    }
}

type Bad = Option<(String, String)>;

fn step(w: &mut World, op: Op) -> Bad {
    let mut bad: Bad = None;
    let mut flag = |k: &str, d: String| {
        if bad.is_none() {
            bad = Some((k.to_owned(), d));
        }
    };
    let mut input_payload: Option<Vec<u8>> = None;
    let mut input_src: Option<SocketAddr> = None;
    let mut input_bd_flow: Option<FlowId> = None;
    let max_before = w.m.max_flows();
    // the affinity key of a client datagram is computed with the mode in force
    // when it arrives; a flow stays registered under the key it was admitted with
    let key_of = |src: SocketAddr, with_port: bool| {
        let mut k = src;
        if !with_port {
            k.set_port(0);
        }
        k
    };
    let input_key = match op {
        Op::Cd(s) => Some(key_of(SRCS[s as usize].parse().unwrap(), w.m.affinity_with_port())),
        _ => None,
    };
    let owner_before = input_key.and_then(|k| w.table.get(&k).copied()).filter(|f| w.live.contains_key(f));
    match op {
        Op::Cd(s) => {
            w.sent += 1;
            let payload = vec![b'c', s, (w.sent & 0xff) as u8, (w.sent >> 8) as u8];
            let src: SocketAddr = SRCS[s as usize].parse().unwrap();
            input_payload = Some(payload.clone());
            input_src = Some(src);
            w.m.handle_input(ManagerInput::ClientDatagram { src, payload: &payload }, w.now);
        }
        Op::Resolve(f, b) => {
            let addr: SocketAddr = BACKS[b as usize].parse().unwrap();
            w.m.handle_input(
                ManagerInput::BackendResolved { flow: f as usize, backend: format!("b{b}"), addr },
                w.now,
            );
        }
        Op::Bd(f) => {
            w.sent += 1;
            let payload = vec![b'b', f, (w.sent & 0xff) as u8, (w.sent >> 8) as u8];
            input_payload = Some(payload.clone());
            input_bd_flow = Some(f as usize);
            w.m.handle_input(ManagerInput::BackendDatagram { flow: f as usize, payload: &payload }, w.now);
        }
        Op::Tick(long) => {
            w.now += Duration::from_secs(if long { 31 } else { 1 });
            w.m.handle_timeout(w.now);
        }
        Op::MaxFlows(n) => w.m.handle_input(ManagerInput::Config(ConfigEvent::SetMaxFlows(n as usize)), w.now),
        Op::Cluster(c) => w.m.handle_input(ManagerInput::Config(ConfigEvent::SetCluster(cluster(c))), w.now),
        Op::Drain => w.m.handle_input(ManagerInput::Config(ConfigEvent::Drain), w.now),
        Op::Abort(f) => w.m.abort_flow(f as usize, w.now, CloseReason::Aborted),
        Op::CloseAll => w.m.close_all(w.now),
    }
    // ---- consume outputs of this step, updating the reference
    let mut to_backend = 0;
    let mut to_client = 0;
    let mut pending_select: Option<FlowId> = None;
    while let Some(out) = w.m.poll_output() {
        match out {
            Output::Metric(MetricEvent::FlowCreated) => {
                w.created += 1;
                if !matches!(op, Op::Cd(_)) {
                    flag("flow-created-without-client-datagram", format!("{op:?} created a flow"));
                }
                if w.m.flow_count() > max_before.max(w.live.len()) {
                    // admissions may never push the live count above the cap
                }
                if w.live.len() + 1 > max_before {
                    flag("cap-exceeded-on-admission", format!("a flow was admitted with {} live flows and max_flows {}", w.live.len(), max_before));
                }
                if w.m.is_draining() {
                    flag("admitted-while-draining", "a flow was admitted after Drain".into());
                }
                if let Some(f) = owner_before {
                    flag("second-flow-for-client", format!("a new flow was created for affinity key {:?} while flow {f} registered under that key is alive", input_key));
                }
            }
            Output::SelectBackend { flow, .. } => {
                pending_select = Some(flow);
                if w.live.contains_key(&flow) {
                    flag("flow-id-reused-while-live", format!("flow id {flow} handed out twice"));
                }
                let cfg = w.m.flow(flow).map(|f| f.config.clone());
                if let Some(k) = input_key {
                    w.table.insert(k, flow);
                }
                w.live.insert(
                    flow,
                    RefFlow {
                        client: input_src.unwrap_or_else(|| "0.0.0.0:0".parse().unwrap()),
                        backend: None,
                        responses_limit: cfg.map(|c| c.responses).unwrap_or(0),
                        responses_seen: 0,
                    },
                );
            }
            Output::OpenUpstream { flow, backend } => match w.live.get_mut(&flow) {
                None => flag("upstream-for-unknown-flow", format!("OpenUpstream for flow {flow}")),
                Some(r) => {
                    if r.backend.is_some() {
                        flag("backend-rebound", format!("flow {flow} was resolved twice: {:?} then {backend}", r.backend));
                    }
                    r.backend = Some(backend);
                }
            },
            Output::SendToBackend(t) => {
                to_backend += 1;
                w.stats[0] += 1;
                // which flow? the one whose client sent the datagram, or the
                // one just resolved
                let flow = match op {
                    Op::Resolve(f, _) => Some(f as usize),
                    Op::Cd(_) => w
                        .live
                        .iter()
                        .filter(|(_, r)| Some(r.client) == input_src || same_ip(r.client, input_src))
                        .find(|(_, r)| r.backend == Some(t.dst))
                        .map(|(id, _)| *id),
                    _ => None,
                };
                match flow.and_then(|f| w.live.get(&f)) {
                    None => flag("forward-to-foreign-backend", format!("{op:?}: datagram sent to {} which is not the backend of a flow of this client", t.dst)),
                    Some(r) => {
                        if r.backend != Some(t.dst) {
                            flag("flow-not-sticky", format!("flow forwards to {} but was bound to {:?}", t.dst, r.backend));
                        }
                        if let Op::Cd(_) = op {
                            if Some(&t.payload) != input_payload.as_ref() {
                                flag("payload-modified", format!("client payload {:?} forwarded as {:?}", input_payload, t.payload));
                            }
                        } else if t.payload.len() != 4 || t.payload[0] != b'c' {
                            flag("payload-modified", format!("pending payload forwarded as {:?}", t.payload));
                        } else if SRCS[t.payload[1] as usize].parse::<SocketAddr>().ok().map(|a| a.ip()) != Some(r.client.ip()) {
                            flag("cross-flow-leak", format!("payload of source {} forwarded on the flow of client {}", SRCS[t.payload[1] as usize], r.client));
                        }
                    }
                }
            }
            Output::SendToClient(t) => {
                to_client += 1;
                w.stats[1] += 1;
                match input_bd_flow.and_then(|f| w.live.get_mut(&f)) {
                    None => flag("reply-on-dead-flow", format!("backend datagram relayed to {} on a flow that is not live", t.dst)),
                    Some(r) => {
                        if t.dst != r.client {
                            flag("reply-to-wrong-client", format!("reply sent to {} but the flow belongs to {}", t.dst, r.client));
                        }
                        if Some(&t.payload) != input_payload.as_ref() {
                            flag("payload-modified", format!("backend payload {:?} relayed as {:?}", input_payload, t.payload));
                        }
                        if r.backend.is_none() {
                            flag("reply-before-backend", "reply relayed on a flow without backend".into());
                        }
                        r.responses_seen += 1;
                    }
                }
            }
            Output::Metric(MetricEvent::FlowEvicted) => {}
            Output::Metric(MetricEvent::FlowShed) => w.stats[3] += 1,
            Output::Drop(_) => w.stats[4] += 1,
            Output::CloseFlow(f) => {
                w.closed += 1;
                w.stats[2] += 1;
                w.table.retain(|_, v| *v != f);
                if w.live.remove(&f).is_none() {
                    flag("double-close", format!("flow {f} closed while not live (closed twice or never created)"));
                }
            }
            _ => {}
        }
    }
    let _ = pending_select;
    if to_backend > 1 || to_client > 1 {
        flag("duplicated-datagram", format!("{op:?} produced {to_backend} upstream and {to_client} downstream transmissions"));
    }
    if let Op::Bd(_) = op {
        if to_backend > 0 {
            flag("reflected-datagram", "a backend datagram was sent upstream".into());
        }
    }
    // ---- state agreement
    if w.m.flow_count() != w.live.len() {
        flag("flow-accounting-drift", format!("flow_count()={} but created-closed={} ({} created, {} closed)", w.m.flow_count(), w.live.len(), w.created, w.closed));
    }
    for (id, r) in &w.live {
        match w.m.flow(*id) {
            None => flag("flow-lost", format!("flow {id} vanished without CloseFlow")),
            Some(f) => {
                if f.client != r.client {
                    flag("flow-client-changed", format!("flow {id} client {} != {}", f.client, r.client));
                }
                if f.backend_addr != r.backend {
                    flag("flow-backend-changed", format!("flow {id} backend {:?} != {:?}", f.backend_addr, r.backend));
                }
                if f.phase == FlowPhase::Closing {
                    flag("zombie-flow", format!("flow {id} left in Closing phase"));
                }
                if r.responses_limit != 0 && r.responses_seen >= r.responses_limit {
                    flag("exhausted-flow-alive", format!("flow {id} relayed {} responses with limit {}", r.responses_seen, r.responses_limit));
                }
                // idle flows must be reclaimed within their timeout
                if f.idle_deadline <= w.now && matches!(op, Op::Tick(_)) {
                    flag("idle-flow-not-reclaimed", format!("flow {id} is past its idle deadline after handle_timeout"));
                }
                if f.idle_deadline > w.now + Duration::from_secs(30) {
                    flag("deadline-too-far", format!("flow {id} idle deadline is more than one timeout away"));
                }
            }
        }
    }
    // the armed timer must cover the earliest deadline, or flows leak
    let min_deadline = w.live.keys().filter_map(|id| w.m.flow(*id)).map(|f| f.idle_deadline).min();
    if min_deadline.is_some() && w.m.poll_timeout() != min_deadline {
        flag("timer-not-armed", format!("armed deadline {:?} != earliest flow deadline {:?}", w.m.poll_timeout().map(|d| d - w.now), min_deadline.map(|d| d.saturating_duration_since(w.now))));
    }
    if let Op::CloseAll = op {
        if w.m.flow_count() != 0 {
            flag("close-all-left-flows", format!("{} flows after close_all", w.m.flow_count()));
        }
    }
    bad
}

fn same_ip(a: SocketAddr, b: Option<SocketAddr>) -> bool {
    b.is_some_and(|b| a.ip() == b.ip())
}

fn digest(w: &World) -> u64 {
    let mut s = String::new();
    for id in 0..4 {
        match w.m.flow(id) {
            None => s.push('-'),
            Some(f) => s.push_str(&format!(
                "{}|{:?}|{:?}|{}|{}|{}|{:?}|{:?};",
                f.client,
                f.backend_addr,
                f.phase,
                f.requests_seen.min(3),
                f.responses_seen.min(3),
                f.idle_deadline.saturating_duration_since(w.now).as_secs(),
                f.pending_payload.as_ref().map(|p| p[1]),
                f.config.affinity_with_port
            )),
        }
    }
    s.push_str(&format!(
        "{}|{}|{}|{:?}",
        w.m.max_flows(),
        w.m.is_draining(),
        w.m.affinity_with_port(),
        w.m.poll_timeout().map(|d| d.saturating_duration_since(w.now).as_secs())
    ));
    fnv_of(&s)
}

fn run_history(h: &[Op], base: Instant) -> (Vec<Bad>, u64, [u64; 5]) {
    let mut w = new_world(base);
    let bads = h.iter().map(|&op| step(&mut w, op)).collect();
    (bads, digest(&w), w.stats)
}

pub fn run(ctx: &Ctx) -> Coverage {
    let alpha = alphabet();
    let depth: usize = ctx.tier().pick(6, 7);
    let base = Instant::now();
    // tasks = all prefixes of length 2; each task enumerates every suffix
    let n = alpha.len();
    let prefixes: Vec<(usize, usize)> = (0..n).flat_map(|a| (0..n).map(move |b| (a, b))).collect();
    let states: Mutex<HashSet<u64>> = Mutex::new(HashSet::new());
    let hits: Mutex<BTreeMap<String, u64>> = Mutex::new(BTreeMap::new());
    let results = par_map(&prefixes, ncpu(), |_, &(a, b)| {
        let mut local_states: HashSet<u64> = HashSet::new();
        let mut local_hits: BTreeMap<&'static str, u64> = BTreeMap::new();
        let mut evals = 0u64;
        let mut steps = 0u64;
        let mut h: Vec<Op> = vec![alpha[a], alpha[b]];
        h.resize(depth, alpha[0]);
        let total = (n as u64).pow((depth - 2) as u32);
        for code in 0..total {
            let mut c = code;
            for k in 0..depth - 2 {
                h[2 + k] = alpha[(c % n as u64) as usize];
                c /= n as u64;
            }
            let r = guarded(|| run_history(&h, base));
            evals += 1;
            steps += depth as u64;
            match r {
                Err(p) => ctx.violation_w("C19|panic", format!("UdpManager panicked: {p}"), json!({"history": h}), depth as u64),
                Ok((bads, d, st)) => {
                    local_states.insert(d);
                    for (name, v) in ["sent_to_backend", "sent_to_client", "flows_closed", "flows_shed", "datagrams_dropped"].iter().zip(st.iter()) {
                        *local_hits.entry(name).or_insert(0) += v;
                    }
                    for (i, bad) in bads.iter().enumerate() {
                        if let Some((k, desc)) = bad {
                            *local_hits.entry("violations").or_insert(0) += 1;
                            ctx.violation_w(
                                format!("C19|{k}"),
                                format!("step {i} ({:?}): {desc}", h[i]),
                                json!({"history": &h[..=i]}),
                                (i + 1) as u64,
                            );
                            break;
                        }
                    }
                }
            }
        }
        states.lock().unwrap().extend(local_states);
        let mut g = hits.lock().unwrap();
        for (k, v) in local_hits {
            *g.entry(k.to_owned()).or_insert(0) += v;
        }
        (evals, steps)
    });
    let evals: u64 = results.iter().map(|r| r.0).sum();
    let steps: u64 = results.iter().map(|r| r.1).sum();
    let nstates = states.lock().unwrap().len() as u64;
    ctx.sample(json!({"history": [alpha[0], alpha[3], alpha[0], alpha[7], alpha[9]]}));
    if evals != (n as u64).pow(depth as u32) {
        machinery_error(&format!("C19 enumeration incomplete: {evals} of {}", (n as u64).pow(depth as u32)));
    }
    Coverage {
        states: nstates.max(1),
        transitions: steps,
        evaluations: evals,
        distinct_nontrivial: nstates,
        distinct_outcomes: nstates,
        rule: format!("every input history of length {depth} over {n} symbols (client datagrams from 3 colliding sources, backend resolutions incl. stale/duplicate ids, backend datagrams, clock +1s/+31s with handle_timeout, SetMaxFlows 0/1/2, 3 cluster configs flipping the affinity mode and response budget, Drain, abort, close_all) executed on a fresh real UdpManager; every output of every step checked against a per-flow reference; distinct = distinct final manager states"),
        exhaustive: true,
        bound: json!({"history_length": depth, "alphabet": n}),
        caps_hit: vec![],
        assumptions: vec![
            "datagram loss while a flow awaits its backend (only the latest pending payload is kept) is permitted; duplication, modification, cross-flow delivery and re-binding are not".into(),
            "the shell around the manager (sockets, backend selection) is not exercised here; PROXY-protocol prefixing is off".into(),
        ],
        extra: json!({"counters": *hits.lock().unwrap()}),
    }
}

pub fn replay(ctx: &Ctx, case: &Value) -> Coverage {
    let h: Vec<Op> = serde_json::from_value(case["history"].clone())
        .unwrap_or_else(|e| machinery_error(&format!("bad replay history: {e}")));
    let (bads, _, _) = run_history(&h, Instant::now());
    for (i, b) in bads.iter().enumerate() {
        if let Some((k, d)) = b {
            ctx.violation(format!("C19|{k}"), format!("step {i}: {d}"), case.clone());
            break;
        }
    }
    Coverage {
        states: 1,
        transitions: h.len().max(1) as u64,
        evaluations: 1,
        distinct_nontrivial: 1,
        distinct_outcomes: 1,
        rule: "single replayed history".into(),
        ..Default::default()
    }
}
