//! C15(b) — no HTTP/2 input can crash, wedge or over-commit a worker.
//! A lattice of malformed, out-of-order and abusive frame sequences sent by a
//! scripted HTTP/2 client (over TLS) in two connection states, through an
//! unmodified worker. After the abuse the same connection (when the error is a
//! stream error or the input must be ignored) and a second, well-behaved
//! connection must still be served.

use std::collections::BTreeMap;

use serde_json::json;

use crate::{
    common::{Coverage, Ctx, Tier},
    sim::{
        ChoiceProfile, End, FdClass,
        explore::{self, ItemResult, Run},
        h1,
        h2::{self, WindowPolicy},
        peer::{H2Cond, Peer, Step},
        scen,
        worker::{self, MainStep, WorkerSetup},
    },
};

const NO_ERROR: u32 = 0;
const PROTOCOL_ERROR: u32 = 1;
const INTERNAL_ERROR: u32 = 2;
const FLOW_CONTROL_ERROR: u32 = 3;
const STREAM_CLOSED: u32 = 5;
const FRAME_SIZE_ERROR: u32 = 6;
const REFUSED_STREAM: u32 = 7;
const CANCEL: u32 = 8;
const COMPRESSION_ERROR: u32 = 9;
const ENHANCE_YOUR_CALM: u32 = 11;

#[derive(Clone, Debug, serde::Serialize, serde::Deserialize)]
pub enum Expect {
    /// connection error: GOAWAY with one of these codes, then the connection is released
    Goaway(Vec<u32>),
    /// stream error on this stream (RST_STREAM with one of the codes, or an HTTP error status
    /// when `or_status`), the connection keeps working
    StreamError { stream: u32, codes: Vec<u32>, or_status: Vec<u16> },
    /// the input must be ignored / handled normally: the connection keeps working
    Tolerated,
    /// either a connection error with one of the codes or tolerated (floods below / above thresholds)
    GoawayOrTolerated(Vec<u32>),
    /// a malformed request on `refused` (stream error, PROTOCOL_ERROR / 400) followed by a well-formed
    /// one on `served`, which must get its 200: the first must not count against the second
    RefusedThenServed { refused: u32, served: u32 },
}

#[derive(Clone, Debug, serde::Serialize, serde::Deserialize)]
pub struct Case {
    pub name: String,
    /// connection state when the abuse arrives: "fresh" (settings exchanged) or "open-stream"
    /// (stream 1 is open: request sent, response held back by a zero stream window)
    pub state: String,
    #[serde(skip)]
    pub abuse: Vec<u8>,
    pub expect: Expect,
    /// a request carried by the abuse itself must never reach the backend (marker in its path)
    pub must_not_forward: bool,
}

fn hpack(headers: &[(&str, &str)]) -> Vec<u8> {
    // a fresh encoder without dynamic-table references would need literal encoding;
    // loona's encoder emits literals with incremental indexing, which is valid on any
    // connection as long as we only ever use ONE such block per abuse (table state unknown)
    let mut enc = loona_hpack::Encoder::new();
    enc.encode(headers.iter().map(|(n, v)| (n.as_bytes(), v.as_bytes())))
}

/// literal header field never indexed (0x10 prefix), no Huffman: independent of table state
fn lit(name: &str, value: &str) -> Vec<u8> {
    let mut v = vec![0x10];
    v.push(name.len() as u8);
    v.extend_from_slice(name.as_bytes());
    v.push(value.len() as u8);
    v.extend_from_slice(value.as_bytes());
    v
}
fn block(headers: &[(&str, &str)]) -> Vec<u8> {
    headers.iter().flat_map(|(n, v)| lit(n, v)).collect()
}
fn req_block(path: &str, extra: &[(&str, &str)]) -> Vec<u8> {
    let mut hs = vec![(":method", "GET"), (":scheme", "https"), (":path", path), (":authority", "a.io")];
    hs.extend_from_slice(extra);
    block(&hs)
}
fn headers_frame(stream: u32, block: &[u8], end_stream: bool) -> Vec<u8> {
    h2::frame(h2::HEADERS, h2::F_END_HEADERS | if end_stream { h2::F_END_STREAM } else { 0 }, stream, block)
}

pub fn cases(tier: Tier) -> Vec<Case> {
    let mut out = vec![];
    let _ = hpack;
    let abuse_stream = 5u32; // streams 1 (state) and 3 are used by the scenario itself
    let gw = |codes: &[u32]| Expect::Goaway(codes.to_vec());
    let se = |codes: &[u32], status: &[u16]| Expect::StreamError { stream: abuse_stream, codes: codes.to_vec(), or_status: status.to_vec() };
    let flood_n = if tier == Tier::Quick { 400 } else { 3000 };
    let rep = |one: Vec<u8>, n: usize| -> Vec<u8> { one.iter().cycle().take(one.len() * n).copied().collect() };
    let t: Vec<(&str, Vec<u8>, Expect, bool)> = vec![
        // ---- stream identifiers and states
        ("rst-on-idle-stream", h2::rst_stream(abuse_stream, CANCEL), gw(&[PROTOCOL_ERROR]), false),
        ("data-on-stream-0", h2::data(0, b"x", false), gw(&[PROTOCOL_ERROR]), false),
        ("data-on-idle-stream", h2::data(abuse_stream, b"x", false), gw(&[PROTOCOL_ERROR, STREAM_CLOSED]), false),
        ("headers-on-even-stream", headers_frame(6, &req_block("/abuse", &[]), true), gw(&[PROTOCOL_ERROR]), true),
        ("headers-on-stream-0", headers_frame(0, &req_block("/abuse", &[]), true), gw(&[PROTOCOL_ERROR]), true),
        ("window-update-on-idle-stream", h2::window_update(abuse_stream, 10), gw(&[PROTOCOL_ERROR]), false),
        ("data-after-end-stream", [headers_frame(abuse_stream, &req_block("/abuse-ok", &[]), true), h2::data(abuse_stream, b"late", true)].concat(), Expect::StreamError { stream: abuse_stream, codes: vec![STREAM_CLOSED, PROTOCOL_ERROR], or_status: vec![200] }, false),
        ("headers-after-end-stream", [headers_frame(abuse_stream, &req_block("/abuse-ok", &[]), true), headers_frame(abuse_stream, &block(&[("x-t", "1")]), true)].concat(), Expect::GoawayOrTolerated(vec![STREAM_CLOSED, PROTOCOL_ERROR]), false),
        ("second-headers-without-end-stream", [headers_frame(abuse_stream, &[req_block("/abuse", &[]), lit("content-length", "3")].concat(), false), headers_frame(abuse_stream, &block(&[("x-t", "1")]), false)].concat(), Expect::GoawayOrTolerated(vec![PROTOCOL_ERROR]), true),
        // ---- frame sizes
        ("ping-7-bytes", h2::frame(h2::PING, 0, 0, &[0; 7]), gw(&[FRAME_SIZE_ERROR]), false),
        ("ping-on-stream-1", h2::frame(h2::PING, 0, 1, &[0; 8]), gw(&[PROTOCOL_ERROR]), false),
        ("rst-3-bytes", h2::frame(h2::RST_STREAM, 0, 1, &[0; 3]), gw(&[FRAME_SIZE_ERROR, PROTOCOL_ERROR]), false),
        ("window-update-3-bytes", h2::frame(h2::WINDOW_UPDATE, 0, 0, &[0; 3]), gw(&[FRAME_SIZE_ERROR]), false),
        ("settings-5-bytes", h2::frame(h2::SETTINGS, 0, 0, &[0; 5]), gw(&[FRAME_SIZE_ERROR]), false),
        ("settings-ack-with-payload", h2::frame(h2::SETTINGS, h2::F_ACK, 0, &[0; 6]), gw(&[FRAME_SIZE_ERROR]), false),
        ("settings-on-stream-1", h2::frame(h2::SETTINGS, 0, 1, &[]), gw(&[PROTOCOL_ERROR]), false),
        ("priority-4-bytes", h2::frame(h2::PRIORITY, 0, abuse_stream, &[0; 4]), Expect::GoawayOrTolerated(vec![FRAME_SIZE_ERROR]), false),
        ("priority-on-stream-0", h2::frame(h2::PRIORITY, 0, 0, &[0, 0, 0, 1, 1]), gw(&[PROTOCOL_ERROR]), false),
        ("goaway-on-stream-1", h2::frame(h2::GOAWAY, 0, 1, &[0; 8]), gw(&[PROTOCOL_ERROR]), false),
        ("data-16385-bytes", [headers_frame(abuse_stream, &[req_block("/abuse", &[]), lit("content-length", "16385")].concat(), false), h2::data(abuse_stream, &vec![b'x'; 16385], true)].concat(), gw(&[FRAME_SIZE_ERROR]), true),
        ("frame-length-2^24-1", vec![0xff, 0xff, 0xff, h2::DATA, 0, 0, 0, 0, 5], gw(&[FRAME_SIZE_ERROR, PROTOCOL_ERROR]), false),
        // ---- settings values
        ("settings-enable-push-2", h2::settings(&[(h2::S_ENABLE_PUSH, 2)]), gw(&[PROTOCOL_ERROR]), false),
        ("settings-initial-window-2^31", h2::settings(&[(h2::S_INITIAL_WINDOW_SIZE, 1 << 31)]), gw(&[FLOW_CONTROL_ERROR]), false),
        ("settings-max-frame-size-100", h2::settings(&[(h2::S_MAX_FRAME_SIZE, 100)]), gw(&[PROTOCOL_ERROR]), false),
        ("settings-max-frame-size-2^24", h2::settings(&[(h2::S_MAX_FRAME_SIZE, 1 << 24)]), gw(&[PROTOCOL_ERROR]), false),
        ("settings-unknown-id", h2::settings(&[(0x77, 5)]), Expect::Tolerated, false),
        ("settings-header-table-0", h2::settings(&[(h2::S_HEADER_TABLE_SIZE, 0)]), Expect::Tolerated, false),
        // ---- flow control
        ("window-update-0-on-connection", h2::window_update(0, 0), gw(&[PROTOCOL_ERROR]), false),
        ("window-update-overflow-connection", [h2::window_update(0, 0x7fff_ffff), h2::window_update(0, 0x7fff_ffff)].concat(), gw(&[FLOW_CONTROL_ERROR]), false),
        // ---- header blocks
        ("continuation-without-headers", h2::frame(h2::CONTINUATION, h2::F_END_HEADERS, abuse_stream, &block(&[("x", "y")])), gw(&[PROTOCOL_ERROR]), false),
        ("headers-then-data-without-end-headers", [h2::frame(h2::HEADERS, 0, abuse_stream, &req_block("/abuse", &[])), h2::data(abuse_stream, b"x", true)].concat(), gw(&[PROTOCOL_ERROR]), true),
        ("headers-then-ping-without-end-headers", [h2::frame(h2::HEADERS, 0, abuse_stream, &req_block("/abuse", &[])), h2::ping(false, [1; 8])].concat(), gw(&[PROTOCOL_ERROR]), true),
        ("hpack-garbage", headers_frame(abuse_stream, &[0xff, 0xff, 0xff, 0xff, 0xff, 0xff, 0xff, 0xff, 0xff, 0xff, 0xff], true), gw(&[COMPRESSION_ERROR]), false),
        ("hpack-index-out-of-table", headers_frame(abuse_stream, &[0xfe], true), gw(&[COMPRESSION_ERROR]), false),
        ("hpack-truncated-string", headers_frame(abuse_stream, &[0x10, 0x05, b'a'], true), gw(&[COMPRESSION_ERROR]), false),
        ("hpack-table-size-update-too-large", headers_frame(abuse_stream, &[[0x3f, 0xe1, 0xff, 0x03].to_vec(), req_block("/abuse", &[])].concat(), true), gw(&[COMPRESSION_ERROR]), true),
        ("push-promise-from-client", h2::frame(h2::PUSH_PROMISE, h2::F_END_HEADERS, 1, &[[0, 0, 0, 2].to_vec(), req_block("/abuse", &[])].concat()), gw(&[PROTOCOL_ERROR]), true),
        ("padding-longer-than-frame", h2::frame(h2::HEADERS, h2::F_END_HEADERS | h2::F_END_STREAM | h2::F_PADDED, abuse_stream, &[[200u8].to_vec(), req_block("/abuse", &[])].concat()), gw(&[PROTOCOL_ERROR]), true),
        // ---- malformed requests (stream errors; never forwarded)
        ("missing-method", headers_frame(abuse_stream, &block(&[(":scheme", "https"), (":path", "/abuse"), (":authority", "a.io")]), true), se(&[PROTOCOL_ERROR], &[400]), true),
        ("missing-path", headers_frame(abuse_stream, &block(&[(":method", "GET"), (":scheme", "https"), (":authority", "a.io"), ("x-abuse", "/abuse")]), true), se(&[PROTOCOL_ERROR], &[400]), true),
        ("empty-path", headers_frame(abuse_stream, &block(&[(":method", "GET"), (":scheme", "https"), (":path", ""), (":authority", "a.io"), ("x-abuse", "/abuse")]), true), se(&[PROTOCOL_ERROR], &[400]), true),
        ("duplicate-path", headers_frame(abuse_stream, &block(&[(":method", "GET"), (":scheme", "https"), (":path", "/abuse"), (":path", "/abuse2"), (":authority", "a.io")]), true), se(&[PROTOCOL_ERROR], &[400]), true),
        ("pseudo-after-regular", headers_frame(abuse_stream, &block(&[(":method", "GET"), (":scheme", "https"), ("x-a", "1"), (":path", "/abuse"), (":authority", "a.io")]), true), se(&[PROTOCOL_ERROR], &[400]), true),
        ("unknown-pseudo", headers_frame(abuse_stream, &[req_block("/abuse", &[]), lit(":foo", "bar")].concat(), true), se(&[PROTOCOL_ERROR], &[400]), true),
        ("response-pseudo-in-request", headers_frame(abuse_stream, &[req_block("/abuse", &[]), lit(":status", "200")].concat(), true), se(&[PROTOCOL_ERROR], &[400]), true),
        ("uppercase-header-name", headers_frame(abuse_stream, &req_block("/abuse", &[("X-Upper", "1")]), true), se(&[PROTOCOL_ERROR], &[400]), true),
        ("connection-header", headers_frame(abuse_stream, &req_block("/abuse", &[("connection", "keep-alive")]), true), se(&[PROTOCOL_ERROR], &[400]), true),
        ("transfer-encoding-header", headers_frame(abuse_stream, &req_block("/abuse", &[("transfer-encoding", "chunked")]), true), se(&[PROTOCOL_ERROR], &[400]), true),
        ("te-gzip", headers_frame(abuse_stream, &req_block("/abuse", &[("te", "gzip")]), true), se(&[PROTOCOL_ERROR], &[400]), true),
        ("upgrade-header", headers_frame(abuse_stream, &req_block("/abuse", &[("upgrade", "h2c")]), true), se(&[PROTOCOL_ERROR], &[400]), true),
        ("header-value-with-crlf", headers_frame(abuse_stream, &req_block("/abuse", &[("x-a", "a\r\nx-b: c")]), true), se(&[PROTOCOL_ERROR], &[400]), true),
        ("header-value-with-nul", headers_frame(abuse_stream, &req_block("/abuse", &[("x-a", "a\0b")]), true), se(&[PROTOCOL_ERROR], &[400]), true),
        ("header-name-with-space", headers_frame(abuse_stream, &req_block("/abuse", &[("x a", "1")]), true), se(&[PROTOCOL_ERROR], &[400]), true),
        ("path-with-space", headers_frame(abuse_stream, &block(&[(":method", "GET"), (":scheme", "https"), (":path", "/abuse x"), (":authority", "a.io")]), true), se(&[PROTOCOL_ERROR], &[400]), true),
        ("authority-with-crlf", headers_frame(abuse_stream, &block(&[(":method", "GET"), (":scheme", "https"), (":path", "/abuse"), (":authority", "a.io\r\nx: y")]), true), se(&[PROTOCOL_ERROR], &[400]), true),
        ("host-differs-from-authority", headers_frame(abuse_stream, &req_block("/abuse", &[("host", "b.io")]), true), se(&[PROTOCOL_ERROR], &[400, 404, 401, 421]), true),
        ("content-length-shorter-than-data", [headers_frame(abuse_stream, &[block(&[(":method", "POST"), (":scheme", "https"), (":path", "/abuse"), (":authority", "a.io")]), lit("content-length", "3")].concat(), false), h2::data(abuse_stream, b"12345", true)].concat(), se(&[PROTOCOL_ERROR], &[400]), true),
        ("content-length-longer-than-data", [headers_frame(abuse_stream, &[block(&[(":method", "POST"), (":scheme", "https"), (":path", "/abuse"), (":authority", "a.io")]), lit("content-length", "9")].concat(), false), h2::data(abuse_stream, b"12345", true)].concat(), se(&[PROTOCOL_ERROR], &[400]), true),
        ("content-length-longer-than-data-ended-by-trailers", [headers_frame(abuse_stream, &[block(&[(":method", "POST"), (":scheme", "https"), (":path", "/abuse"), (":authority", "a.io")]), lit("content-length", "10")].concat(), false), h2::data(abuse_stream, b"12345", false), headers_frame(abuse_stream, &block(&[("x-t", "1")]), true)].concat(), se(&[PROTOCOL_ERROR], &[400]), true),
        ("content-length-shorter-than-data-ended-by-trailers", [headers_frame(abuse_stream, &[block(&[(":method", "POST"), (":scheme", "https"), (":path", "/abuse"), (":authority", "a.io")]), lit("content-length", "3")].concat(), false), h2::data(abuse_stream, b"12345", false), headers_frame(abuse_stream, &block(&[("x-t", "1")]), true)].concat(), se(&[PROTOCOL_ERROR, STREAM_CLOSED], &[400]), true),
        ("content-length-met-then-trailers", [headers_frame(abuse_stream, &[block(&[(":method", "POST"), (":scheme", "https"), (":path", "/abuse-ok"), (":authority", "a.io")]), lit("content-length", "5")].concat(), false), h2::data(abuse_stream, b"12345", false), headers_frame(abuse_stream, &block(&[("x-t", "1")]), true)].concat(), Expect::StreamError { stream: abuse_stream, codes: vec![], or_status: vec![200] }, false),
        ("content-length-on-end-stream-headers", headers_frame(abuse_stream, &[block(&[(":method", "POST"), (":scheme", "https"), (":path", "/abuse"), (":authority", "a.io")]), lit("content-length", "9")].concat(), true), se(&[PROTOCOL_ERROR], &[400]), true),
        ("content-length-not-a-number", headers_frame(abuse_stream, &[req_block("/abuse", &[]), lit("content-length", "+0")].concat(), true), se(&[PROTOCOL_ERROR], &[400]), true),
        ("two-content-lengths", [headers_frame(abuse_stream, &[block(&[(":method", "POST"), (":scheme", "https"), (":path", "/abuse"), (":authority", "a.io")]), lit("content-length", "5"), lit("content-length", "6")].concat(), false), h2::data(abuse_stream, b"12345", true)].concat(), se(&[PROTOCOL_ERROR], &[400]), true),
        ("window-update-0-on-stream", [headers_frame(abuse_stream, &[block(&[(":method", "POST"), (":scheme", "https"), (":path", "/abuse"), (":authority", "a.io")]), lit("content-length", "5")].concat(), false), h2::window_update(abuse_stream, 0)].concat(), se(&[PROTOCOL_ERROR], &[]), true),
        ("window-update-overflow-stream", [headers_frame(abuse_stream, &[block(&[(":method", "POST"), (":scheme", "https"), (":path", "/abuse"), (":authority", "a.io")]), lit("content-length", "5")].concat(), false), h2::window_update(abuse_stream, 0x7fff_ffff), h2::window_update(abuse_stream, 0x7fff_ffff)].concat(), se(&[FLOW_CONTROL_ERROR], &[]), true),
        ("priority-self-dependency", [h2::frame(h2::PRIORITY, 0, abuse_stream, &[0, 0, 0, abuse_stream as u8, 1]), headers_frame(abuse_stream, &req_block("/abuse-ok", &[]), true)].concat(), Expect::StreamError { stream: abuse_stream, codes: vec![PROTOCOL_ERROR], or_status: vec![200] }, false),
        ("header-list-70k", headers_frame_big(abuse_stream), Expect::StreamError { stream: abuse_stream, codes: vec![PROTOCOL_ERROR, ENHANCE_YOUR_CALM, REFUSED_STREAM, COMPRESSION_ERROR, INTERNAL_ERROR], or_status: vec![431, 400, 413] }, true),
        // ---- tolerated input
        ("unknown-frame-type", h2::frame(0x42, 0xff, 0, b"whatever"), Expect::Tolerated, false),
        ("unknown-frame-type-on-stream", h2::frame(0x42, 0, 7, b"whatever"), Expect::Tolerated, false),
        ("ping", h2::ping(false, [7; 8]), Expect::Tolerated, false),
        ("ping-ack-unsolicited", h2::ping(true, [7; 8]), Expect::Tolerated, false),
        ("settings-ack-unsolicited", h2::settings_ack(), Expect::GoawayOrTolerated(vec![PROTOCOL_ERROR]), false),
        ("priority-on-idle-stream", h2::frame(h2::PRIORITY, 0, 9, &[0, 0, 0, 0, 16]), Expect::Tolerated, false),
        ("empty-data-frames-before-end", [headers_frame(abuse_stream, &[block(&[(":method", "POST"), (":scheme", "https"), (":path", "/abuse-ok"), (":authority", "a.io")]), lit("content-length", "2")].concat(), false), h2::data(abuse_stream, b"", false), h2::data(abuse_stream, b"", false), h2::data(abuse_stream, b"ab", true)].concat(), Expect::StreamError { stream: abuse_stream, codes: vec![], or_status: vec![200] }, false),
        ("padded-data", [headers_frame(abuse_stream, &[block(&[(":method", "POST"), (":scheme", "https"), (":path", "/abuse-ok"), (":authority", "a.io")]), lit("content-length", "2")].concat(), false), h2::frame(h2::DATA, h2::F_END_STREAM | h2::F_PADDED, abuse_stream, &[5, b'a', b'b', 0, 0, 0, 0, 0])].concat(), Expect::StreamError { stream: abuse_stream, codes: vec![], or_status: vec![200] }, false),
        // ---- a request body without content-length (sozu frames it chunked towards an HTTP/1.1 backend):
        // frames that carry no application byte must not show on the backend side
        ("no-length-two-data-frames", [nolen(abuse_stream), h2::data(abuse_stream, b"AAAA", false), h2::data(abuse_stream, b"BBBB", true)].concat(), Expect::StreamError { stream: abuse_stream, codes: vec![], or_status: vec![200] }, false),
        ("no-length-empty-data-frames-between", [nolen(abuse_stream), h2::data(abuse_stream, b"AAAA", false), h2::data(abuse_stream, b"", false), h2::data(abuse_stream, b"BBBB", true)].concat(), Expect::StreamError { stream: abuse_stream, codes: vec![], or_status: vec![200] }, false),
        ("no-length-padding-only-data-between", [nolen(abuse_stream), h2::data(abuse_stream, b"AAAA", false), h2::frame(h2::DATA, h2::F_PADDED, abuse_stream, &[3, 0, 0, 0]), h2::data(abuse_stream, b"BBBB", true)].concat(), Expect::StreamError { stream: abuse_stream, codes: vec![], or_status: vec![200] }, false),
        ("no-length-pad-length-zero-between", [nolen(abuse_stream), h2::data(abuse_stream, b"AAAA", false), h2::frame(h2::DATA, h2::F_PADDED, abuse_stream, &[0]), h2::data(abuse_stream, b"BBBB", true)].concat(), Expect::StreamError { stream: abuse_stream, codes: vec![], or_status: vec![200] }, false),
        ("no-length-padding-only-data-first", [nolen(abuse_stream), h2::frame(h2::DATA, h2::F_PADDED, abuse_stream, &[3, 0, 0, 0]), h2::data(abuse_stream, b"AAAABBBB", true)].concat(), Expect::StreamError { stream: abuse_stream, codes: vec![], or_status: vec![200] }, false),
        ("no-length-padding-only-data-ends", [nolen(abuse_stream), h2::data(abuse_stream, b"AAAABBBB", false), h2::frame(h2::DATA, h2::F_PADDED | h2::F_END_STREAM, abuse_stream, &[3, 0, 0, 0])].concat(), Expect::StreamError { stream: abuse_stream, codes: vec![], or_status: vec![200] }, false),
        ("no-length-padded-data", [nolen(abuse_stream), h2::frame(h2::DATA, h2::F_PADDED, abuse_stream, &[2, b'A', b'A', b'A', b'A', 0, 0]), h2::frame(h2::DATA, h2::F_PADDED | h2::F_END_STREAM, abuse_stream, &[1, b'B', b'B', b'B', b'B', 0])].concat(), Expect::StreamError { stream: abuse_stream, codes: vec![], or_status: vec![200] }, false),
        // a malformed request whose header block comes in 13 pieces is a stream error; the counters
        // that guard against CONTINUATION floods are per header block: the well-formed request that
        // follows in 11 pieces (below the threshold) must be served
        ("fragmented-block-refused-then-fragmented-request", [fragmented(abuse_stream, &req_block("/abuse", &[("X-Upper", "1")]), 12), fragmented(abuse_stream + 2, &req_block("/size/44", &[("x-ok", "1")]), 10)].concat(), Expect::RefusedThenServed { refused: abuse_stream, served: abuse_stream + 2 }, true),
        ("cancel-own-stream-at-once", [headers_frame(abuse_stream, &req_block("/size/100000", &[]), true), h2::rst_stream(abuse_stream, CANCEL)].concat(), Expect::Tolerated, false),
        // cancelled in the middle of its response body (the pre-step opens it and waits for part of the body)
        ("cancel-mid-body", h2::rst_stream(abuse_stream, CANCEL), Expect::Tolerated, false),
        ("cancel-mid-body-then-window-update", [h2::rst_stream(abuse_stream, CANCEL), h2::window_update(abuse_stream, 1000)].concat(), Expect::Tolerated, false),
        // ---- floods (thresholds are configuration: either outcome, but never a wedge)
        // above the documented default thresholds (doc/configure.md, h2_max_*_per_window) the defence must trigger
        ("ping-flood", rep(h2::ping(false, [9; 8]), flood_n), gw(&[ENHANCE_YOUR_CALM]), false),
        ("settings-flood", rep(h2::settings(&[(h2::S_ENABLE_PUSH, 0)]), flood_n), gw(&[ENHANCE_YOUR_CALM]), false),
        ("window-update-flood", rep(h2::window_update(0, 1), flood_n), gw(&[ENHANCE_YOUR_CALM, FLOW_CONTROL_ERROR]), false),
        ("empty-data-flood", [headers_frame(abuse_stream, &block(&[(":method", "POST"), (":scheme", "https"), (":path", "/abuse"), (":authority", "a.io")]), false), rep(h2::data(abuse_stream, b"", false), flood_n)].concat(), gw(&[ENHANCE_YOUR_CALM, PROTOCOL_ERROR]), false),
        ("padded-empty-data-flood", [headers_frame(abuse_stream, &block(&[(":method", "POST"), (":scheme", "https"), (":path", "/abuse"), (":authority", "a.io")]), false), rep(h2::frame(h2::DATA, h2::F_PADDED, abuse_stream, &[3, 0, 0, 0]), flood_n)].concat(), gw(&[ENHANCE_YOUR_CALM, PROTOCOL_ERROR]), false),
        ("continuation-flood", [h2::frame(h2::HEADERS, 0, abuse_stream, &req_block("/abuse", &[])), rep(h2::frame(h2::CONTINUATION, 0, abuse_stream, &lit("x-c", "1")), flood_n)].concat(), gw(&[ENHANCE_YOUR_CALM, PROTOCOL_ERROR, COMPRESSION_ERROR]), true),
        ("rapid-reset", (0..flood_n as u32).flat_map(|i| [headers_frame(abuse_stream + 2 * i, &req_block("/size/5", &[]), true), h2::rst_stream(abuse_stream + 2 * i, CANCEL)].concat()).collect(), gw(&[ENHANCE_YOUR_CALM, PROTOCOL_ERROR]), false),
        // no documented threshold: either outcome, never a wedge
        ("priority-flood", rep(h2::frame(h2::PRIORITY, 0, 9, &[0, 0, 0, 0, 16]), flood_n), Expect::GoawayOrTolerated(vec![ENHANCE_YOUR_CALM]), false),
        ("unknown-frame-flood", rep(h2::frame(0x42, 0, 0, b"x"), flood_n), Expect::GoawayOrTolerated(vec![ENHANCE_YOUR_CALM]), false),
        // below the thresholds nothing may happen
        ("pings-below-threshold", rep(h2::ping(false, [9; 8]), 40), Expect::Tolerated, false),
        ("settings-below-threshold", rep(h2::settings(&[(h2::S_ENABLE_PUSH, 0)]), 20), Expect::Tolerated, false),
        ("window-updates-below-threshold", rep(h2::window_update(0, 1), 40), Expect::Tolerated, false),
        ("continuations-below-threshold", [h2::frame(h2::HEADERS, h2::F_END_STREAM, abuse_stream, &req_block("/abuse-ok", &[])), rep(h2::frame(h2::CONTINUATION, 0, abuse_stream, &lit("x-c", "1")), 8), h2::frame(h2::CONTINUATION, h2::F_END_HEADERS, abuse_stream, &lit("x-d", "1"))].concat(), Expect::StreamError { stream: abuse_stream, codes: vec![], or_status: vec![200] }, false),
        ("resets-below-threshold", (0..20u32).flat_map(|i| [headers_frame(abuse_stream + 2 * i, &req_block("/size/5", &[]), true), h2::rst_stream(abuse_stream + 2 * i, CANCEL)].concat()).collect(), Expect::Tolerated, false),
        ("streams-beyond-max-concurrent", (0..130u32).flat_map(|i| headers_frame(abuse_stream + 2 * i, &req_block("/size/5", &[]), true)).collect(), Expect::GoawayOrTolerated(vec![ENHANCE_YOUR_CALM, PROTOCOL_ERROR, REFUSED_STREAM]), false),
    ];
    let _ = NO_ERROR;
    for state in ["fresh", "open-stream", "half-closed"] {
        for (name, abuse, expect, mnf) in &t {
            let mut expect = expect.clone();
            if state == "half-closed" && *name == "push-promise-from-client" {
                // the frame names stream 1, which is half-closed (remote) here: RFC 9113 section 5.1 prescribes
                // STREAM_CLOSED for any frame but WINDOW_UPDATE / PRIORITY / RST_STREAM on it, section 8.4 PROTOCOL_ERROR
                expect = Expect::Goaway(vec![PROTOCOL_ERROR, STREAM_CLOSED]);
            }
            out.push(Case { name: (*name).to_owned(), state: state.to_owned(), abuse: abuse.clone(), expect, must_not_forward: *mnf });
        }
    }
    // what a client may still send on a stream it has finished (half-closed remote, RFC 9113 section 5.1)
    // while the answer is in flight: it must change nothing
    for (name, abuse) in [
        ("priority-on-half-closed-stream", h2::frame(h2::PRIORITY, 0, 1, &[0, 0, 0, 0, 16])),
        ("window-update-on-half-closed-stream", h2::window_update(1, 1000)),
        ("unknown-frame-on-half-closed-stream", h2::frame(0x42, 0, 1, b"whatever")),
    ] {
        out.push(Case { name: name.to_owned(), state: "half-closed".to_owned(), abuse, expect: Expect::Tolerated, must_not_forward: false });
    }
    out
}

/// the malformed-request family (what an HTTP/2 client can do to the request sozu writes to a backend)
pub fn request_cases(tier: Tier) -> Vec<Case> {
    cases(tier).into_iter().filter(|c| c.must_not_forward || c.name.starts_with("content-length") || c.name.contains("padded-data") || c.name.contains("empty-data-frames") || c.name.starts_with("no-length")).collect()
}

/// a header block cut into HEADERS + `continuations` CONTINUATION frames (END_STREAM, END_HEADERS on the last)
fn fragmented(stream: u32, block: &[u8], continuations: usize) -> Vec<u8> {
    let piece = (block.len() / (continuations + 1)).max(1);
    let mut chunks: Vec<&[u8]> = block.chunks(piece).collect();
    while chunks.len() > continuations + 1 {
        // fold the tail into the last piece
        let n = chunks.len();
        let start = block.len() - chunks[n - 1].len() - chunks[n - 2].len();
        chunks.truncate(n - 2);
        chunks.push(&block[start..]);
    }
    let mut v = vec![];
    let mut sent = 0;
    for i in 0..=continuations {
        let c: &[u8] = chunks.get(i).copied().unwrap_or(&[]);
        sent += c.len();
        let last = i == continuations;
        if i == 0 {
            v.extend_from_slice(&h2::frame(h2::HEADERS, h2::F_END_STREAM | if last { h2::F_END_HEADERS } else { 0 }, stream, c));
        } else {
            v.extend_from_slice(&h2::frame(h2::CONTINUATION, if last { h2::F_END_HEADERS } else { 0 }, stream, c));
        }
    }
    debug_assert_eq!(sent, block.len());
    v
}

/// HEADERS of a POST without content-length, body to follow
fn nolen(stream: u32) -> Vec<u8> {
    headers_frame(stream, &block(&[(":method", "POST"), (":scheme", "https"), (":path", "/abuse-ok"), (":authority", "a.io")]), false)
}

fn headers_frame_big(stream: u32) -> Vec<u8> {
    // ~70 kB of header fields in one block, split into HEADERS + CONTINUATION frames of 16 kB
    let mut b = req_block("/abuse", &[]);
    let value = "v".repeat(200);
    for i in 0..330 {
        b.extend_from_slice(&lit(&format!("x-h{i}"), &value));
    }
    let chunks: Vec<&[u8]> = b.chunks(16000).collect();
    let mut v = vec![];
    for (i, c) in chunks.iter().enumerate() {
        let last = i + 1 == chunks.len();
        if i == 0 {
            v.extend_from_slice(&h2::frame(h2::HEADERS, h2::F_END_STREAM | if last { h2::F_END_HEADERS } else { 0 }, stream, c));
        } else {
            v.extend_from_slice(&h2::frame(h2::CONTINUATION, if last { h2::F_END_HEADERS } else { 0 }, stream, c));
        }
    }
    v
}

pub fn run_case(case: &Case, prefix: Vec<u32>, profile: ChoiceProfile) -> Run {
    run_case_tagged("C15|h2", case, prefix, profile)
}

/// `tag` prefixes the violation keys (C03 reuses the malformed-request cases under its own name)
pub fn run_case_tagged(tag: &str, case: &Case, prefix: Vec<u32>, profile: ChoiceProfile) -> Run {
    let front = scen::addr(1, 8443);
    let back = scen::addr(2, 9090);
    let mut setup = scen::simple_https(front, back);
    // debugging aid: C15_BACKEND=h2 puts an h2c backend behind the worker
    let h2_backend = std::env::var("C15_BACKEND").is_ok_and(|v| v == "h2");
    setup.clusters[0].cluster.http2 = Some(h2_backend);
    let backend = if h2_backend {
        Peer::server("backend", back, vec![Step::H2Serve])
    } else {
        Peer::server("backend", back, vec![Step::ServeH1 { response_head: "HTTP/1.1 200 OK".into(), body: b"ok".to_vec() }])
    };
    let get = |path: &str| -> Vec<(String, String)> { vec![(":method".into(), "GET".into()), (":scheme".into(), "https".into()), (":path".into(), path.into()), (":authority".into(), "a.io".into())] };
    // ---- the abusive client
    let mut script = vec![
        Step::Connect { to: front, from: None },
        Step::StartTls { sni: "a.io".into(), alpn: vec!["h2".into()] },
        Step::ExpectHandshake,
        Step::H2Start { settings: vec![(h2::S_ENABLE_PUSH, 0)], policy: WindowPolicy::Eager },
        Step::H2Await(H2Cond::PeerSettings),
    ];
    if case.state == "open-stream" {
        // stream 1 stays open: a request whose upload is never finished
        let mut hs = get("/size/10");
        hs[0].1 = "POST".into();
        hs.push(("content-length".into(), "10".into()));
        script.push(Step::H2Headers { stream: 1, headers: hs, end_stream: false, continuation_at: None });
        script.push(Step::H2Data { stream: 1, bytes: b"12345".to_vec(), end_stream: false, frame_size: 16384, ignore_window: false });
        script.push(Step::Wait { ms: 5 });
    }
    if case.state == "half-closed" {
        // stream 1 is finished on the client's side, its answer comes 200 ms later
        script.push(Step::H2Headers { stream: 1, headers: get("/slow/200"), end_stream: true, continuation_at: None });
        script.push(Step::Wait { ms: 5 });
    }
    if case.name.starts_with("cancel-mid-body") {
        script.push(Step::H2Headers { stream: 5, headers: get("/size/400000"), end_stream: true, continuation_at: None });
        script.push(Step::H2Await(H2Cond::BodyAtLeast(5, 20000)));
    }
    script.push(Step::H2Raw(case.abuse.clone()));
    // let the worker react, then try a follow-up request on the same connection
    script.push(Step::Wait { ms: 300 });
    script.push(Step::H2Headers { stream: 1001, headers: get("/size/77"), end_stream: true, continuation_at: None });
    script.push(Step::H2Await(H2Cond::StreamDone(1001)));
    if case.state == "open-stream" {
        // the stream that was open before the abuse can still be finished
        script.push(Step::H2Data { stream: 1, bytes: b"67890".to_vec(), end_stream: true, frame_size: 16384, ignore_window: false });
        script.push(Step::H2Await(H2Cond::StreamDone(1)));
    }
    if case.state == "half-closed" {
        script.push(Step::H2Await(H2Cond::StreamDone(1)));
    }
    script.push(Step::Wait { ms: 300 });
    script.push(Step::Done);
    // ---- a well-behaved second client: connected before, served after
    let witness = vec![
        Step::Connect { to: front, from: None },
        Step::StartTls { sni: "a.io".into(), alpn: vec!["h2".into()] },
        Step::ExpectHandshake,
        Step::H2Start { settings: vec![(h2::S_ENABLE_PUSH, 0)], policy: WindowPolicy::Eager },
        Step::H2Await(H2Cond::PeerSettings),
        Step::Wait { ms: 400 },
        Step::H2Headers { stream: 1, headers: get("/size/33"), end_stream: true, continuation_at: None },
        Step::H2Await(H2Cond::StreamDone(1)),
        Step::Done,
    ];
    let ws = WorkerSetup {
        config: worker::server_config(|c| {
            c.max_buffers = 1000;
            c.max_connections = 500;
        }),
        initial: scen::http_state(&setup),
    };
    let peers = vec![backend, Peer::client("abuser", script), Peer::client("witness", witness)];
    let (mut exec, create_err) = worker::run_worker(ws, peers, vec![MainStep::AwaitPeersFor { ms: 100_000 }], profile, prefix, 300);
    if let Some(e) = create_err {
        crate::common::machinery_error(&format!("worker creation failed: {e}"));
    }
    let mut violations: Vec<(String, String)> = vec![];
    let id = format!("{}|{}", case.state, case.name);
    let mut flag = |k: String, d: String| violations.push((format!("{tag}|{id}|{k}"), d));
    if let Some(p) = &exec.subject_panic {
        flag("worker-panic".into(), format!("worker panicked: {p}"));
    }
    let end = exec.end.clone();
    let vms = exec.stats.virtual_ms;
    let sc = worker::scenario_of(&mut exec);
    let (b, a, w) = (&sc.peers[0], &sc.peers[1], &sc.peers[2]);
    let mut obs = format!("end={end:?} vms={vms}");
    // ---- the witness is always served
    match w.h2.as_ref().and_then(|h| h.streams.get(&1)) {
        Some(st) if st.status() == Some(200) && st.body == h1::coded_body(33, 33) && st.end_stream => {}
        other => flag("other-connection-not-served".into(), format!("a well-behaved second connection did not get its answer after the abuse: {:?}", other.map(|s| (s.status(), s.body.len(), s.end_stream, s.rst)))),
    }
    // ---- nothing of a malformed request reaches the backend
    if case.must_not_forward {
        for conn in b.conns() {
            if conn.rx.windows(6).any(|w| w == b"/abuse") && !conn.rx.windows(9).any(|w| w == b"/abuse-ok") {
                flag("malformed-request-forwarded".into(), "the backend received (part of) the malformed request".into());
            }
        }
    }
    // ---- whatever reached the HTTP/1.1 backend is a sequence of canonical requests sozu itself labelled
    if !h2_backend {
        for (ci, conn) in b.conns().iter().enumerate() {
            let (msgs, used, err) = h1::parse_all_canonical(&conn.rx, true);
            if let Some(e) = err.filter(|e| !e.starts_with("connection closed")) {
                flag("backend-stream-not-canonical".into(), format!("backend connection {ci}: after {} well-formed requests the stream is {e}; next bytes {:?}", msgs.len(), String::from_utf8_lossy(&conn.rx[used..conn.rx.len().min(used + 120)])));
            }
            for m in &msgs {
                if case.name.starts_with("no-length") && m.start_line.contains("/abuse-ok") && m.body != b"AAAABBBB" {
                    flag("request-body-changed".into(), format!("the client sent the 8 bytes AAAABBBB as the body of {:?}; the backend's HTTP/1.1 reader finds a {}-byte body {:?}", m.start_line, m.body.len(), String::from_utf8_lossy(&m.body[..m.body.len().min(40)])));
                }
                if m.headers_named("sozu-id").is_empty() {
                    flag("request-unknown-to-sozu".into(), format!("backend connection {ci} carries a request {:?} without the correlation header sozu adds to every request it forwards", m.start_line));
                }
            }
        }
    }
    // ---- the abuser's connection
    match a.h2.as_ref() {
        None => flag("h2-not-established".into(), format!("tls error {:?}", a.conn.tls_error)),
        Some(ep) => {
            let over = a.conn.eof || a.conn.reset;
            let follow_up = ep.streams.get(&1001).map(|s| (s.status(), s.body == h1::coded_body(77, 77), s.end_stream, s.rst));
            let follow_ok = matches!(follow_up, Some((Some(200), true, true, None)));
            let kept = ep.streams.get(&1).map(|s| (s.status(), s.end_stream, s.rst));
            obs.push_str(&format!(" goaway={:?} over={over} follow_up={follow_up:?} stream1={kept:?} errors={:?}", ep.goaway, ep.protocol_errors));
            for e in &ep.protocol_errors {
                flag("sozu-broke-an-obligation".into(), format!("towards the abusive client sozu still has to speak HTTP/2: {e}"));
            }
            let connection_error = |codes: &[u32], flag: &mut dyn FnMut(String, String)| {
                match ep.goaway {
                    // closing a socket with unread input makes the kernel reset it: whatever GOAWAY
                    // was on its way is then discarded on the client's side, unobservable here
                    None if over && a.conn.reset => {}
                    None if over => flag("closed-without-goaway".into(), "the connection was closed (FIN) without a GOAWAY frame".into()),
                    None => flag("connection-error-not-signalled".into(), format!("no GOAWAY; expected a connection error with a code in {codes:?}; follow-up request {follow_up:?}")),
                    Some((_, code)) if !codes.contains(&code) => flag(format!("goaway-code-{code}"), format!("GOAWAY with code {code}, RFC 9113 prescribes one of {codes:?}")),
                    Some(_) if !over => flag("connection-not-released".into(), "GOAWAY was sent but the connection is still open 100 virtual seconds later".into()),
                    Some(_) => {}
                }
            };
            let tolerated = |flag: &mut dyn FnMut(String, String)| {
                if let Some((_, code)) = ep.goaway {
                    flag(format!("goaway-{code}-on-tolerable-input"), format!("the input must be ignored or handled, the connection got GOAWAY({code})"));
                } else if !follow_ok {
                    flag("connection-unusable-afterwards".into(), format!("a request sent after the input was not answered: {follow_up:?} (connection over: {over})"));
                }
                if case.state != "fresh" && ep.goaway.is_none() && !matches!(kept, Some((Some(200), true, None))) {
                    flag("open-stream-lost".into(), format!("the stream that was open when the input arrived did not complete afterwards: {kept:?}"));
                }
            };
            match &case.expect {
                Expect::Goaway(codes) => connection_error(codes, &mut flag),
                Expect::Tolerated => tolerated(&mut flag),
                Expect::GoawayOrTolerated(codes) => {
                    if ep.goaway.is_some() || over {
                        connection_error(codes, &mut flag)
                    } else {
                        tolerated(&mut flag)
                    }
                }
                Expect::RefusedThenServed { refused, served } => {
                    let r = ep.streams.get(refused);
                    let refused_ok = r.is_some_and(|s| s.rst == Some(PROTOCOL_ERROR) || s.status() == Some(400));
                    if ep.goaway.is_none() && over && a.conn.reset {
                        // a connection error whose GOAWAY was lost to a reset (see above)
                    } else if let Some((_, code)) = ep.goaway {
                        // RFC 9113 section 5.4.1: the stream error may be escalated, with its own code
                        if code != PROTOCOL_ERROR {
                            flag(format!("goaway-code-{code}"), format!("a malformed request followed by a well-formed one was answered GOAWAY({code}); the stream error calls for PROTOCOL_ERROR on stream {refused} only"));
                        }
                    } else {
                        if !refused_ok {
                            flag("stream-error-not-signalled".into(), format!("stream {refused}: {:?}, expected RST_STREAM(PROTOCOL_ERROR) or 400", r.map(|s| (s.rst, s.status()))));
                        }
                        match ep.streams.get(served) {
                            Some(s) if s.status() == Some(200) && s.end_stream => {}
                            other => flag("well-formed-request-after-a-refused-one-not-served".into(), format!("stream {served}: {:?}", other.map(|s| (s.status(), s.body.len(), s.end_stream, s.rst)))),
                        }
                        tolerated(&mut flag);
                    }
                }
                Expect::StreamError { stream, codes, or_status } => {
                    let st = ep.streams.get(stream);
                    let rst = st.and_then(|s| s.rst);
                    let status = st.and_then(|s| s.status());
                    let ok = rst.is_some_and(|c| codes.contains(&c)) || status.is_some_and(|s| or_status.contains(&s));
                    if ep.goaway.is_none() && over && a.conn.reset {
                        // escalated to a connection error whose GOAWAY was lost to a reset (see above)
                    } else if let Some((_, code)) = ep.goaway {
                        // RFC 9113 §5.4.1 lets an endpoint treat a stream error as a connection error
                        if !codes.contains(&code) && code != PROTOCOL_ERROR {
                            flag(format!("goaway-code-{code}"), format!("stream error answered with GOAWAY({code}), expected RST_STREAM {codes:?} / status {or_status:?}"));
                        } else if !over {
                            flag("connection-not-released".into(), "GOAWAY was sent but the connection is still open".into());
                        }
                    } else {
                        if !ok {
                            flag("stream-error-not-signalled".into(), format!("stream {stream}: rst={rst:?} status={status:?}, expected RST_STREAM with a code in {codes:?} or a status in {or_status:?}"));
                        }
                        tolerated(&mut flag);
                    }
                }
            }
        }
    }
    drop(flag);
    if std::env::var("H2_DUMP").is_ok() {
        for (ci, conn) in sc.peers[0].conns().iter().enumerate() {
            eprintln!("---- backend connection {ci} rx ({} bytes):\n{}", conn.rx.len(), String::from_utf8_lossy(&conn.rx[..conn.rx.len().min(2500)]).escape_debug());
        }
    }
    if end != End::Finished && violations.is_empty() {
        violations.push((format!("{tag}|{id}|worker-{}", format!("{end:?}").to_lowercase()), format!("run ended {end:?}")));
    }
    Run { trace: exec.trace, observation: obs, violations, diverged: exec.diverged }
}

pub fn profile() -> ChoiceProfile {
    ChoiceProfile { read_faults: vec![FdClass::Front], write_faults: vec![FdClass::Front], max_points_per_class: 3, event_order: false, ..Default::default() }
}

pub fn run_item(tier: Tier, item: usize) -> ItemResult {
    let all = cases(tier);
    let case = all[item].clone();
    let mut violations = vec![];
    let c2 = case.clone();
    let stats = explore::search(
        if tier == Tier::Quick { 0 } else { 1 },
        if tier == Tier::Quick { 3 } else { 60 },
        |prefix| {
            let c = c2.clone();
            let p = prefix.to_vec();
            match worker::isolated(move || run_case(&c, p.clone(), profile())) {
                Ok(r) => r,
                Err(status) => {
                    let mut r = super::c01::crashed_run(prefix, &status);
                    for v in r.violations.iter_mut() {
                        v.0 = v.0.replace("C01|any", &format!("C15|h2|{}|{}", c2.state, c2.name));
                    }
                    r
                }
            }
        },
        |vector, key, desc| {
            let weight = vector.iter().filter(|c| **c != 0).count() as u64 * 1000 + if case.state == "fresh" { 0 } else { 1 };
            violations.push((key.to_owned(), desc.to_owned(), json!({"part": "b", "state": case.state, "name": case.name, "choices": vector}), weight));
        },
    );
    let mut counters = BTreeMap::new();
    counters.insert("sim_executions".to_owned(), stats.executions);
    ItemResult { item, label: format!("{}/{}", case.state, case.name), stats, violations, counters, sample: json!({"part": "b", "state": case.state, "name": case.name}) }
}

pub fn run(ctx: &Ctx) -> Coverage {
    let tier = ctx.tier();
    let n = cases(tier).len();
    let results = explore::run_sharded(ctx, n, "c15b", |i| run_item(tier, i));
    super::c01::summarize(ctx, &results, "malformed, out-of-order and abusive HTTP/2 frame sequences (stream-id and state violations, wrong frame sizes, illegal SETTINGS values, window overflow and zero increments, broken header blocks and HPACK, malformed requests: pseudo-header order / duplicates / connection-specific fields / CR LF NUL in names and values / Content-Length vs DATA, tolerated unknown input, PING / SETTINGS / WINDOW_UPDATE / PRIORITY / CONTINUATION / empty-DATA floods, rapid reset, streams beyond the concurrency limit) sent over TLS in two connection states (settings just exchanged; one stream open) through an unmodified worker. Oracle: the error RFC 9113 prescribes (GOAWAY with a code of the allowed set and the connection released; or RST_STREAM / an HTTP error status with the connection still usable; or the input ignored), no panic, no unbounded loop, sozu's own frames stay legal, nothing of a malformed request reaches the backend, a request sent afterwards and a well-behaved second connection are served")
}

pub fn replay_case(ctx: &Ctx, case: &serde_json::Value) -> Coverage {
    let all = cases(Tier::Thorough);
    let c = all.iter().find(|c| Some(c.name.as_str()) == case["name"].as_str() && Some(c.state.as_str()) == case["state"].as_str()).cloned().unwrap_or_else(|| crate::common::machinery_error("unknown C15(b) case in replay"));
    let choices: Vec<u32> = serde_json::from_value(case["choices"].clone()).unwrap_or_default();
    let r = worker::isolated(move || run_case(&c, choices, profile())).unwrap_or_else(|s| super::c01::crashed_run(&[], &s));
    for (k, d) in r.violations {
        ctx.violation(k, d, case.clone());
    }
    Coverage { states: 1, transitions: 1, evaluations: 1, distinct_nontrivial: 1, distinct_outcomes: 1, rule: "replay".into(), ..Default::default() }
}

pub fn debug(args: &crate::common::Args) {
    let all = cases(args.tier);
    let state = args.extra.get("state").cloned().unwrap_or_else(|| "fresh".into());
    let c = match args.extra.get("name") {
        Some(n) => all.iter().find(|c| c.name == *n && c.state == state).cloned().unwrap_or_else(|| panic!("no case {n}")),
        None => all[args.extra.get("item").and_then(|s| s.parse().ok()).unwrap_or(0)].clone(),
    };
    println!("{} cases; {}/{} expect {:?}", all.len(), c.state, c.name, c.expect);
    let choices: Vec<u32> = args.extra.get("choices").map(|s| s.split(',').filter_map(|x| x.parse().ok()).collect()).unwrap_or_default();
    let r = worker::isolated(move || run_case(&c, choices, profile())).unwrap();
    println!("obs={}", r.observation);
    println!("violations={:#?}", r.violations);
}
