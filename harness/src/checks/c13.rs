//! C13 — backends see the client's request plus truthful, unspoofable proxy
//! metadata; responses reach the client intact plus the documented additions.
//! HTTP/1.1 frontend and backend through an unmodified worker: a lattice of
//! header lists (duplicates, case variants, ordering, spoofing attempts in
//! fields, cookies and trailers) x listener settings x peer address source.

use std::{collections::BTreeMap, net::SocketAddr};

use serde_json::{Value, json};
use sozu_command_lib::proto::command::{Header, HeaderPosition};

use crate::{
    common::{Coverage, Ctx, Tier},
    sim::{
        ChoiceProfile, End, FdClass,
        explore::{self, ItemResult, Run},
        h1, h2, scen,
        peer::{H2Cond, Peer, Step},
        worker::{self, MainStep, WorkerSetup},
    },
};

#[derive(Clone, Debug, serde::Serialize, serde::Deserialize)]
pub struct Setting {
    pub name: String,
    pub elide_x_real_ip: bool,
    pub send_x_real_ip: bool,
    pub sozu_id_header: Option<String>,
    pub sticky: bool,
    pub edits: bool,
    /// PROXY protocol source the client announces (listener in expect_proxy mode)
    pub proxy_source: Option<String>,
}

#[derive(Clone, Debug, serde::Serialize, serde::Deserialize)]
pub struct Case {
    pub setting: Setting,
    pub request: String,
    pub response: String,
    /// "h1-h1" | "h2-h1" | "h1-h2" | "h2-h2" (frontend-backend)
    #[serde(default = "h1h1")]
    pub pair: String,
}

fn h1h1() -> String {
    "h1-h1".into()
}

const STICKY: &str = "SOZUBALANCEID";

fn settings() -> Vec<Setting> {
    let s = |name: &str| Setting { name: name.into(), elide_x_real_ip: false, send_x_real_ip: false, sozu_id_header: None, sticky: false, edits: false, proxy_source: None };
    vec![
        s("default"),
        Setting { elide_x_real_ip: true, ..s("elide") },
        Setting { send_x_real_ip: true, ..s("send") },
        Setting { elide_x_real_ip: true, send_x_real_ip: true, ..s("elide+send") },
        Setting { sozu_id_header: Some("X-Corr".into()), ..s("custom-id") },
        Setting { sticky: true, ..s("sticky") },
        Setting { edits: true, ..s("edits") },
        Setting { proxy_source: Some("10.9.8.7:4321".into()), send_x_real_ip: true, elide_x_real_ip: true, ..s("proxy-v4") },
        Setting { proxy_source: Some("[2001:db8::7]:4321".into()), send_x_real_ip: true, ..s("proxy-v6") },
    ]
}

/// (name, header lines after Host, chunked body with trailers?)
fn requests() -> Vec<(&'static str, Vec<&'static str>, Option<Vec<&'static str>>)> {
    vec![
        ("plain", vec!["X-A: 1", "Accept: */*"], None),
        ("duplicates-in-order", vec!["X-A: 1", "X-B: b", "X-A: 2", "x-a: 3", "X-A: 1"], None),
        ("case-variants", vec!["ACCEPT: a", "accept: b", "AcCePt-LaNgUaGe: c"], None),
        ("values", vec!["X-Tab: a\tb", "X-Quote: \"q\", 'r'", "X-Long: 0123456789012345678901234567890123456789012345678901234567890123456789", "X-Colon: a:b:c"], None),
        ("value-empty", vec!["X-Empty:", "X-A: 1"], None),
        ("cookies", vec!["Cookie: a=1; b=2", "X-A: 1", "Cookie: c=3"], None),
        ("sticky-cookie-first", vec!["Cookie: SOZUBALANCEID=zzz; a=1; b=2"], None),
        ("sticky-cookie-middle", vec!["Cookie: a=1; SOZUBALANCEID=zzz; b=2"], None),
        ("sticky-cookie-last", vec!["Cookie: a=1; b=2; SOZUBALANCEID=zzz"], None),
        ("sticky-cookie-alone", vec!["Cookie: SOZUBALANCEID=zzz", "X-A: 1"], None),
        ("sticky-cookie-lookalikes", vec!["Cookie: XSOZUBALANCEID=1; SOZUBALANCEIDX=2; sozubalanceid=3; SOZUBALANCEID=zzz; a=SOZUBALANCEID=4"], None),
        ("xff-spoof", vec!["X-Forwarded-For: 1.2.3.4"], None),
        ("xff-spoof-list", vec!["X-Forwarded-For: 1.2.3.4, 5.6.7.8"], None),
        ("xff-twice", vec!["X-Forwarded-For: 1.2.3.4", "X-A: 1", "X-Forwarded-For: 5.6.7.8"], None),
        ("xff-lowercase", vec!["x-forwarded-for: 1.2.3.4"], None),
        ("forwarded-spoof", vec!["Forwarded: for=1.2.3.4;proto=https;by=9.9.9.9"], None),
        ("forwarded-twice", vec!["Forwarded: for=1.2.3.4", "Forwarded: for=5.6.7.8"], None),
        ("x-real-ip-spoof", vec!["X-Real-IP: 6.6.6.6"], None),
        ("x-real-ip-spoof-twice-case", vec!["x-real-ip: 6.6.6.6", "X-REAL-IP: 7.7.7.7"], None),
        ("proto-port-supplied", vec!["X-Forwarded-Proto: https", "X-Forwarded-Port: 443"], None),
        ("proto-port-twice", vec!["X-Forwarded-Proto: https", "X-Forwarded-Proto: http", "X-Forwarded-Port: 1", "X-Forwarded-Port: 2"], None),
        ("request-id-supplied", vec!["X-Request-Id: client-chosen-id"], None),
        ("request-id-twice", vec!["X-Request-Id: one", "X-Request-Id: two"], None),
        ("correlation-supplied", vec!["Sozu-Id: 01ARZ3NDEKTSV4RRFFQ69G5FAV", "X-Corr: 01ARZ3NDEKTSV4RRFFQ69G5FAV"], None),
        ("correlation-supplied-lowercase", vec!["sozu-id: forged", "x-corr: forged"], None),
        ("edited-names-supplied", vec!["X-Added: by-client", "X-Delete-Me: 1", "x-delete-me: 2", "X-Keep: 3"], None),
        ("value-injection-attempts", vec!["X-A: a%0d%0aX-Real-IP: 6.6.6.6", "X-B: b\\r\\nSozu-Id: forged", "X-Forwarded-For: 1.2.3.4\t, 6.6.6.6"], None),
        ("connection-specific", vec!["Connection: keep-alive, X-Hop", "Keep-Alive: timeout=5", "X-Hop: secret", "Proxy-Connection: keep-alive", "TE: trailers", "X-A: 1"], None),
        ("cookie-crumbs", vec!["Cookie: a=1", "Cookie: b=2", "X-A: 1", "Cookie: c=3; d=4"], None),
        ("cookie-crumbs-slow-backend", vec!["Cookie: a=1", "X-Before: 0123456789", "Cookie: b=2", "X-A: 1", "Cookie: c=3; d=4", "X-After: 0123456789"], None),
        ("duplicates-slow-backend", vec!["X-A: 1", "X-B: b", "X-A: 2", "Accept: */*", "X-Long: 0123456789012345678901234567890123456789"], None),
        // (HTTP/2 clients: the pseudo-header fields in the order browsers send them, :authority before :path)
        ("pseudo-order-authority-first", vec!["X-A: 1", "Accept: */*"], None),
        // ... towards a backend that takes 7 bytes per event-loop turn: every write stops somewhere else in the head
        ("pseudo-order-authority-first-slow-backend", vec!["X-A: 1", "Accept: */*"], None),
        ("trailers-plain", vec!["Trailer: X-T"], Some(vec!["X-T: v"])),
        ("trailers-spoof", vec!["X-A: 1"], Some(vec!["X-Forwarded-For: 6.6.6.6", "X-Real-IP: 6.6.6.6", "Forwarded: for=6.6.6.6", "Sozu-Id: forged", "X-Request-Id: forged", "X-T: v"])),
    ]
}

fn responses() -> Vec<(&'static str, Vec<&'static str>)> {
    vec![
        ("plain", vec!["Content-Type: text/plain", "X-R: 1"]),
        ("duplicates-in-order", vec!["X-R: 1", "Set-Cookie: a=1; Path=/", "X-R: 2", "Set-Cookie: b=2", "x-r: 3", "SET-COOKIE: c=3"]),
        ("correlation-from-backend", vec!["Sozu-Id: backend-chosen", "X-Corr: backend-chosen"]),
        ("sticky-from-backend", vec!["Set-Cookie: SOZUBALANCEID=backend; Path=/"]),
        ("hsts-and-edited-names", vec!["Strict-Transport-Security: max-age=1", "X-Resp-Added: by-backend", "X-Resp-Delete: 1", "X-Keep: 2"]),
        ("values", vec!["X-Tab: a\tb", "X-Long: 0123456789012345678901234567890123456789012345678901234567890123456789"]),
        ("value-empty", vec!["X-Empty:", "X-A: 1"]),
        // sozu's writes to the client move 7 bytes per turn: every field is cut between its name and its value
        ("duplicates-slow-client", vec!["X-R: 1", "Set-Cookie: a=1; Path=/", "X-R: 2", "Set-Cookie: b=2", "X-Long: 0123456789012345678901234567890123456789"]),
    ]
}

pub fn cases(_tier: Tier) -> Vec<Case> {
    let mut v = vec![];
    for pair in ["h1-h1", "h2-h1", "h1-h2", "h2-h2"] {
        for s in settings() {
            // (a PROXY header in front of a TLS handshake is a TCP-level matter, covered by C18)
            if pair.starts_with("h2") && s.proxy_source.is_some() {
                continue;
            }
            // the conversions are driven under the settings that change the field list
            if pair != "h1-h1" && !["default", "elide+send", "custom-id", "sticky", "edits"].contains(&s.name.as_str()) {
                continue;
            }
            for (rn, _, _) in requests() {
                // an HTTP/2 client cannot spell connection-specific fields (malformed: C03 / C15)
                if pair.starts_with("h2") && rn == "connection-specific" {
                    continue;
                }
                v.push(Case { setting: s.clone(), request: rn.into(), response: "plain".into(), pair: pair.into() });
            }
        }
        for s in settings().into_iter().filter(|s| ["default", "custom-id", "sticky", "edits"].contains(&s.name.as_str())) {
            for (sn, _) in responses().into_iter().skip(1) {
                v.push(Case { setting: s.clone(), request: "plain".into(), response: sn.into(), pair: pair.into() });
            }
        }
    }
    v
}

fn proxy_v2(src: SocketAddr, dst: SocketAddr) -> Vec<u8> {
    let mut h = vec![0x0D, 0x0A, 0x0D, 0x0A, 0x00, 0x0D, 0x0A, 0x51, 0x55, 0x49, 0x54, 0x0A, 0x21];
    match (src, dst) {
        (SocketAddr::V4(s), SocketAddr::V4(d)) => {
            h.extend_from_slice(&[0x11, 0, 12]);
            h.extend_from_slice(&s.ip().octets());
            h.extend_from_slice(&d.ip().octets());
            h.extend_from_slice(&s.port().to_be_bytes());
            h.extend_from_slice(&d.port().to_be_bytes());
        }
        (SocketAddr::V6(s), d) => {
            let d6 = match d {
                SocketAddr::V6(d) => *d.ip(),
                SocketAddr::V4(d) => d.ip().to_ipv6_mapped(),
            };
            h.extend_from_slice(&[0x21, 0, 36]);
            h.extend_from_slice(&s.ip().octets());
            h.extend_from_slice(&d6.octets());
            h.extend_from_slice(&s.port().to_be_bytes());
            h.extend_from_slice(&d.port().to_be_bytes());
        }
        _ => unreachable!(),
    }
    h
}

fn split_header(l: &str) -> (String, String) {
    let (n, v) = l.split_once(':').unwrap();
    (n.to_owned(), v.trim_matches(|c| c == ' ' || c == '\t').to_owned())
}

fn cookie_pairs(headers: &[(String, String)]) -> Vec<String> {
    headers.iter().filter(|(n, _)| n.eq_ignore_ascii_case("cookie")).flat_map(|(_, v)| v.split(';').map(|p| p.trim().to_owned()).collect::<Vec<_>>()).filter(|p| !p.is_empty()).collect()
}

fn is_ulid(v: &str) -> bool {
    v.len() == 26 && v.bytes().all(|b| b.is_ascii_alphanumeric())
}

pub fn run_case(case: &Case, prefix: Vec<u32>, profile: ChoiceProfile) -> Run {
    let (fh2, bh2) = (case.pair.starts_with("h2"), case.pair.ends_with("h2"));
    let pair = case.pair.clone();
    let front = scen::addr(1, if fh2 { 8443 } else { 8080 });
    let back = scen::addr(2, 9090);
    let client_src = scen::addr(5, 0);
    let st = &case.setting;
    let (_, req_lines, req_trailers) = requests().into_iter().find(|r| r.0 == case.request).expect("request");
    let (_, resp_lines) = responses().into_iter().find(|r| r.0 == case.response).expect("response");
    let id_name = st.sozu_id_header.clone().unwrap_or_else(|| "Sozu-Id".into());

    // ---- configuration
    let mut setup = if fh2 { scen::simple_https(front, back) } else { scen::simple_http(front, back) };
    setup.listener.elide_x_real_ip = Some(st.elide_x_real_ip);
    setup.listener.send_x_real_ip = Some(st.send_x_real_ip);
    setup.listener.sozu_id_header = st.sozu_id_header.clone();
    setup.listener.expect_proxy = st.proxy_source.is_some();
    if let Some(t) = setup.tls.as_mut() {
        t.listener.elide_x_real_ip = Some(st.elide_x_real_ip);
        t.listener.send_x_real_ip = Some(st.send_x_real_ip);
        t.listener.sozu_id_header = st.sozu_id_header.clone();
    }
    setup.clusters[0].cluster.sticky_session = st.sticky;
    setup.clusters[0].cluster.http2 = Some(bh2);
    if st.edits {
        setup.clusters[0].headers = vec![
            Header { position: HeaderPosition::Request as i32, key: "X-Added".into(), val: "by-sozu".into() },
            Header { position: HeaderPosition::Request as i32, key: "X-Delete-Me".into(), val: String::new() },
            Header { position: HeaderPosition::Response as i32, key: "X-Resp-Added".into(), val: "yes".into() },
            Header { position: HeaderPosition::Response as i32, key: "X-Resp-Delete".into(), val: String::new() },
        ];
    }
    let lower = |l: &str| {
        let (n, v) = split_header(l);
        (n.to_ascii_lowercase(), v)
    };

    // ---- client
    let announced: Option<SocketAddr> = st.proxy_source.as_ref().map(|s| s.parse().unwrap());
    let mut client_script = vec![Step::Connect { to: front, from: Some(client_src) }];
    if fh2 {
        client_script.push(Step::StartTls { sni: "a.io".into(), alpn: vec!["h2".into()] });
        client_script.push(Step::ExpectHandshake);
        client_script.push(Step::H2Start { settings: vec![(h2::S_ENABLE_PUSH, 0)], policy: h2::WindowPolicy::Eager });
        client_script.push(Step::H2Await(H2Cond::PeerSettings));
        let mut hs: Vec<(String, String)> = vec![(":method".into(), if req_trailers.is_some() { "POST" } else { "GET" }.into()), (":scheme".into(), "https".into()), (":path".into(), "/a".into()), (":authority".into(), "a.io".into())];
        if case.request.starts_with("pseudo-order-authority-first") {
            hs = vec![(":method".into(), "GET".into()), (":authority".into(), "a.io".into()), (":scheme".into(), "https".into()), (":path".into(), "/abcdefghij/klmnopqrst".into())];
        }
        hs.extend(req_lines.iter().map(|l| lower(l)).filter(|(n, _)| n != "trailer"));
        client_script.push(Step::H2Headers { stream: 1, headers: hs, end_stream: req_trailers.is_none(), continuation_at: None });
        if let Some(tr) = &req_trailers {
            client_script.push(Step::H2Data { stream: 1, bytes: b"hello".to_vec(), end_stream: false, frame_size: 16384, ignore_window: false });
            client_script.push(Step::H2Headers { stream: 1, headers: tr.iter().map(|l| lower(l)).collect(), end_stream: true, continuation_at: None });
        }
        client_script.push(Step::H2Await(H2Cond::StreamDone(1)));
    } else {
        let mut req = b"POST /a HTTP/1.1\r\nHost: a.io\r\n".to_vec();
        if req_trailers.is_none() {
            req = b"GET /a HTTP/1.1\r\nHost: a.io\r\n".to_vec();
        }
        for l in &req_lines {
            req.extend_from_slice(l.as_bytes());
            req.extend_from_slice(b"\r\n");
        }
        if let Some(tr) = &req_trailers {
            req.extend_from_slice(b"Transfer-Encoding: chunked\r\n\r\n5\r\nhello\r\n0\r\n");
            for t in tr {
                req.extend_from_slice(t.as_bytes());
                req.extend_from_slice(b"\r\n");
            }
            req.extend_from_slice(b"\r\n");
        } else {
            req.extend_from_slice(b"\r\n");
        }
        let mut wire = vec![];
        if let Some(src) = announced {
            wire.extend_from_slice(&proxy_v2(src, front));
        }
        let head_len = wire.len();
        wire.extend_from_slice(&req);
        client_script.push(Step::Send { splits: vec![1, head_len.max(1), head_len + 20, wire.len() / 2, wire.len() - 1], bytes: wire });
        client_script.push(Step::ExpectH1 { count: 1, responses: true });
    }
    client_script.push(Step::Done);
    // ---- backend
    let backend_script = if bh2 {
        let mut hs: Vec<(String, String)> = vec![(":status".into(), "200".into()), ("content-length".into(), "4".into())];
        hs.extend(resp_lines.iter().map(|l| lower(l)));
        vec![
            Step::Accept,
            Step::H2Start { settings: vec![], policy: h2::WindowPolicy::Eager },
            Step::H2Await(H2Cond::StreamDone(1)),
            Step::H2Headers { stream: 1, headers: hs, end_stream: false, continuation_at: None },
            Step::H2Data { stream: 1, bytes: b"body".to_vec(), end_stream: true, frame_size: 16384, ignore_window: false },
            Step::Done,
        ]
    } else {
        let mut resp = b"HTTP/1.1 200 OK\r\nContent-Length: 4\r\n".to_vec();
        for l in &resp_lines {
            resp.extend_from_slice(l.as_bytes());
            resp.extend_from_slice(b"\r\n");
        }
        resp.extend_from_slice(b"\r\nbody");
        vec![Step::Accept, Step::ExpectH1 { count: 1, responses: false }, Step::Send { splits: vec![1, resp.len() / 2], bytes: resp.clone() }, Step::Done]
    };
    let backend = Peer::server("backend", back, backend_script);
    let client = Peer::client("client", client_script);
    let ws = WorkerSetup { config: worker::server_config(|c| c.buffer_size = 16393), initial: scen::http_state(&setup) };
    let mut profile = profile;
    if case.request.ends_with("slow-backend") {
        profile.pace_write = Some((FdClass::Back, 7));
    }
    if case.response.ends_with("slow-client") {
        profile.pace_write = Some((FdClass::Front, 7));
    }
    let (mut exec, create_err) = worker::run_worker(ws, vec![backend, client], vec![MainStep::AwaitPeersFor { ms: 20_000 }], profile, prefix, 300);
    if let Some(e) = create_err {
        crate::common::machinery_error(&format!("worker creation failed: {e}"));
    }
    let mut violations: Vec<(String, String)> = vec![];
    let mut flag = |k: String, d: String| violations.push((format!("C13|{pair}|{k}"), d));
    if let Some(p) = &exec.subject_panic {
        flag("worker-panic".into(), format!("worker panicked: {p}"));
    }
    let end = exec.end.clone();
    let sc = worker::scenario_of(&mut exec);
    let b = &sc.peers[0];
    let c = &sc.peers[1];
    let real_peer: SocketAddr = announced.or(c.conn.local_addr()).unwrap_or(client_src);
    let peer_ip = real_peer.ip().to_string();
    let c_port = c.conn.local_addr().map(|a| a.port());
    // ---- what each side received, protocol-independent: (fields, trailers, body)
    type Seen = (Vec<(String, String)>, Vec<(String, String)>, Vec<u8>);
    let h2_rules = |who: &str, blocks: &[Vec<(String, String)>], request: bool, flag: &mut dyn FnMut(String, String)| {
        // RFC 9113 section 8.2 / 8.3: what sozu writes on an HTTP/2 connection
        for (bi, block) in blocks.iter().enumerate() {
            let mut regular_seen = false;
            let mut pseudo: Vec<&str> = vec![];
            for (n, v) in block {
                if n.starts_with(':') {
                    if regular_seen || bi > 0 {
                        flag(format!("h2-fields:{who}:pseudo-header-misplaced"), format!("{n} after a regular field or in trailers: {block:?}"));
                    }
                    if pseudo.contains(&n.as_str()) {
                        flag(format!("h2-fields:{who}:pseudo-header-duplicated"), format!("{n} twice: {block:?}"));
                    }
                    pseudo.push(n);
                    let legal: &[&str] = if request { &[":method", ":scheme", ":path", ":authority"] } else { &[":status"] };
                    if !legal.contains(&n.as_str()) {
                        flag(format!("h2-fields:{who}:unknown-pseudo-header"), format!("{n}: {v}"));
                    }
                    continue;
                }
                regular_seen = true;
                if n.bytes().any(|b| b.is_ascii_uppercase()) {
                    flag(format!("h2-fields:{who}:upper-case-name"), format!("field name {n:?} on an HTTP/2 connection"));
                }
                let l = n.to_ascii_lowercase();
                if ["connection", "keep-alive", "proxy-connection", "transfer-encoding", "upgrade"].contains(&l.as_str()) || (l == "te" && !v.eq_ignore_ascii_case("trailers")) {
                    flag(format!("h2-fields:{who}:connection-specific:{l}"), format!("connection-specific field {n}: {v} crossed into HTTP/2"));
                }
                if v.bytes().any(|b| b == b'\r' || b == b'\n' || b == 0) {
                    flag(format!("h2-fields:{who}:control-byte-in-value"), format!("{n}: {v:?}"));
                }
            }
            if bi == 0 && request && !([":method", ":scheme", ":path"].iter().all(|p| pseudo.contains(p))) {
                flag(format!("h2-fields:{who}:pseudo-header-missing"), format!("request block without :method / :scheme / :path: {block:?}"));
            }
        }
    };
    let backend_saw: Option<Seen> = if bh2 {
        b.h2.as_ref().and_then(|ep| {
            for e in &ep.protocol_errors {
                flag("h2-backend-obligation".into(), format!("towards the h2c backend: {e}"));
            }
            ep.streams.get(&1).filter(|s| s.end_stream && !s.headers.is_empty()).map(|s| {
                h2_rules("backend", &s.headers, true, &mut flag);
                (s.headers[0].clone(), s.headers.get(1).cloned().unwrap_or_default(), s.body.clone())
            })
        })
    } else {
        h1::parse_all(&b.conn.rx, false, true).0.first().map(|m| (m.headers.clone(), m.trailers.clone(), m.body.clone()))
    };
    let client_saw: Option<Seen> = if fh2 {
        c.h2.as_ref().and_then(|ep| {
            for e in &ep.protocol_errors {
                flag("h2-client-obligation".into(), format!("towards the HTTP/2 client: {e}"));
            }
            ep.streams.get(&1).filter(|s| s.end_stream && !s.headers.is_empty()).map(|s| {
                h2_rules("client", &s.headers, false, &mut flag);
                (s.headers[0].clone(), s.headers.get(1).cloned().unwrap_or_default(), s.body.clone())
            })
        })
    } else {
        h1::parse_all(&c.conn.rx, true, true).0.first().map(|m| (m.headers.clone(), m.trailers.clone(), m.body.clone()))
    };
    drop(h2_rules);
    if std::env::var("C01_DUMP").is_ok() {
        eprintln!("---- backend rx ({} bytes):\n{}", b.conn.rx.len(), String::from_utf8_lossy(&b.conn.rx[..b.conn.rx.len().min(2000)]).replace('\r', "\\r"));
        eprintln!("---- client rx ({} bytes):\n{}", c.conn.rx.len(), String::from_utf8_lossy(&c.conn.rx[..c.conn.rx.len().min(2000)]).replace('\r', "\\r"));
    }
    let mut obs = format!("end={end:?} backend_saw={} client_saw={}", backend_saw.is_some(), client_saw.is_some());
    let req_tag = &case.request;
    let set_tag = &st.name;
    let scheme = if fh2 { "https" } else { "http" };

    // ================= request direction
    match &backend_saw {
        None => flag(format!("request:{req_tag}:not-delivered"), format!("setting {set_tag}: the backend received no complete request ({} bytes)", b.conn.rx.len())),
        Some((m_headers, m_trailers, m_body)) => {
            let client_headers: Vec<(String, String)> = req_lines.iter().map(|l| split_header(l)).collect();
            // hop-by-hop fields (and what `Connection` nominates) may or may not be forwarded to an
            // HTTP/1.1 backend; towards HTTP/2 they are judged by `h2_rules` above
            let framing = ["host", "connection", "content-length", "transfer-encoding", "keep-alive", "te", "trailer", "proxy-connection", "x-hop"];
            let mut got: Vec<(String, String)> = m_headers.iter().filter(|(n, _)| !n.starts_with(':') && !framing.contains(&n.to_ascii_lowercase().as_str())).cloned().collect();
            obs.push_str(&format!(" backend_headers={got:?} trailers={m_trailers:?}"));
            // ---- expected transformation of the client's list
            let last_of = |name: &str| client_headers.iter().rposition(|(n, _)| n.eq_ignore_ascii_case(name));
            let (xff_at, fwd_at) = (last_of("x-forwarded-for"), last_of("forwarded"));
            let mut want: Vec<(String, String)> = vec![];
            for (i, (n, v)) in client_headers.iter().enumerate() {
                let l = n.to_ascii_lowercase();
                if framing.contains(&l.as_str()) {
                    continue;
                }
                if l == "x-real-ip" && st.elide_x_real_ip {
                    continue;
                }
                if st.edits && l == "x-delete-me" {
                    continue;
                }
                if l == "cookie" {
                    continue; // compared as a jar below
                }
                if l == id_name.to_ascii_lowercase() {
                    continue; // the correlation header is sozu's own: a client copy is dropped
                }
                if l == "x-request-id" && client_headers[..i].iter().any(|(n, _)| n.eq_ignore_ascii_case("x-request-id")) {
                    continue; // only the first client-supplied request id is kept
                }
                if Some(i) == xff_at {
                    want.push((n.clone(), format!("{v}, {peer_ip}")));
                } else if Some(i) == fwd_at {
                    want.push((n.clone(), format!("{v}, <forwarded-element>")));
                } else {
                    want.push((n.clone(), v.clone()));
                }
            }
            // cookies: every pair but sozu's own sticky cookie, in order
            let want_cookies: Vec<String> = cookie_pairs(&client_headers).into_iter().filter(|p| p.split('=').next() != Some(STICKY)).collect();
            let got_cookies = cookie_pairs(&got);
            if got_cookies != want_cookies {
                flag(format!("request:{req_tag}:cookies-changed"), format!("setting {set_tag}: client cookies {:?}, backend sees {:?}", cookie_pairs(&client_headers), got_cookies));
            }
            got.retain(|(n, _)| !n.eq_ignore_ascii_case("cookie"));
            // ---- sozu's own additions, removed from the tail of what the backend saw
            let has = |name: &str| client_headers.iter().any(|(n, _)| n.eq_ignore_ascii_case(name));
            let port = front.port().to_string();
            let mut additions: Vec<(&str, Box<dyn Fn(&str) -> bool + '_>, &str)> = vec![];
            if !has("x-forwarded-for") {
                additions.push(("X-Forwarded-For", Box::new(|v| v == peer_ip), "the peer address"));
            }
            if !has("forwarded") {
                additions.push(("Forwarded", Box::new(|v| forwarded_names(v, &real_peer)), "an element naming the peer"));
            }
            if !has("x-forwarded-proto") {
                additions.push(("X-Forwarded-Proto", Box::new(|v| v == scheme), "the listener's scheme"));
            }
            if !has("x-forwarded-port") {
                additions.push(("X-Forwarded-Port", Box::new(|v| v == port), "the listener's port"));
            }
            if !has("x-request-id") {
                additions.push(("X-Request-Id", Box::new(is_ulid), "a generated id"));
            }
            if st.send_x_real_ip {
                additions.push(("X-Real-IP", Box::new(|v| v == peer_ip), "the peer address"));
            }
            if st.edits {
                additions.push(("X-Added", Box::new(|v| v == "by-sozu"), "the configured value"));
            }
            additions.push((id_name.as_str(), Box::new(is_ulid), "a generated id"));
            for (name, ok, what) in &additions {
                match take_addition(&mut got, name) {
                    None => flag(format!("request:{req_tag}:missing-{}", name.to_ascii_lowercase()), format!("setting {set_tag}: the backend request has no {name} header")),
                    Some(v) if !ok(&v) => flag(format!("request:{req_tag}:untruthful-{}", name.to_ascii_lowercase()), format!("setting {set_tag}: {name}: {v:?} is not {what} (peer {real_peer}, listener {front})")),
                    Some(_) => {}
                }
            }
            drop(additions);
            // ---- what remains must be the client's list, transformed, in order
            let norm = |l: &[(String, String)]| l.iter().map(|(n, v)| (n.to_ascii_lowercase(), v.clone())).collect::<Vec<_>>();
            let (mut g, w) = (norm(&got), norm(&want));
            for (i, (n, v)) in g.iter_mut().enumerate() {
                if n == "forwarded" && w.get(i).is_some_and(|(wn, wv)| wn == "forwarded" && wv.ends_with("<forwarded-element>")) {
                    let base = w[i].1.trim_end_matches("<forwarded-element>");
                    if v.starts_with(base) && forwarded_names(&v[base.len()..], &real_peer) {
                        *v = w[i].1.clone();
                    }
                }
            }
            if g != w {
                let class = if g.len() > w.len() { "extra-or-duplicated-field" } else if g.len() < w.len() { "field-lost" } else { "field-changed" };
                flag(format!("request:{req_tag}:{class}"), format!("setting {set_tag}: after removing sozu's own additions the backend sees {g:?}, the client sent (with the documented edits applied) {w:?}"));
            }
            // ---- exactly one correlation and one request id
            for (name, label) in [(id_name.as_str(), "correlation"), ("X-Request-Id", "request-id")] {
                let named: Vec<&String> = m_headers.iter().filter(|(n, _)| n.eq_ignore_ascii_case(name)).map(|(_, v)| v).collect();
                let n = named.len();
                if n != 1 {
                    flag(format!("request:{req_tag}:{n}-{label}-headers"), format!("setting {set_tag}: the backend request carries {n} {name} fields: {named:?}"));
                }
            }
            // an HTTP/2 client's cookie crumbs are joined before they enter an HTTP/1.1 connection (RFC 9113 section 8.2.3)
            if fh2 && !bh2 {
                let n = m_headers.iter().filter(|(n, _)| n.eq_ignore_ascii_case("cookie")).count();
                if n > 1 {
                    flag(format!("request:{req_tag}:cookie-crumbs-not-joined"), format!("setting {set_tag}: the HTTP/1.1 backend request carries {n} Cookie fields"));
                }
            }
            // ---- trailers cannot carry proxy metadata
            for (n, v) in m_trailers {
                let l = n.to_ascii_lowercase();
                if ["x-forwarded-for", "forwarded", "x-forwarded-proto", "x-forwarded-port", "x-request-id"].contains(&l.as_str()) || l == id_name.to_ascii_lowercase() || (l == "x-real-ip" && st.elide_x_real_ip) {
                    flag(format!("request:{req_tag}:metadata-in-trailer:{l}"), format!("setting {set_tag}: client trailer {n}: {v} reached the backend"));
                }
            }
            if let Some(tr) = &req_trailers {
                if m_body != b"hello" {
                    flag(format!("request:{req_tag}:body-changed"), format!("body {:?}", String::from_utf8_lossy(m_body)));
                }
                // (RFC 9112 section 7.1.2 lets an intermediary that re-frames a message discard its trailers: their loss is not judged)
                let _ = tr;
            }
        }
    }

    // ================= response direction
    match &client_saw {
        None => flag(format!("response:{}:not-delivered", case.response), format!("setting {set_tag}: the client received no complete response ({} bytes)", c.conn.rx.len())),
        Some((m_headers, _, m_body)) => {
            let framing = ["connection", "content-length", "transfer-encoding", "keep-alive"];
            let backend_headers: Vec<(String, String)> = resp_lines.iter().map(|l| split_header(l)).collect();
            let mut got: Vec<(String, String)> = m_headers.iter().filter(|(n, _)| !n.starts_with(':') && !framing.contains(&n.to_ascii_lowercase().as_str())).cloned().collect();
            obs.push_str(&format!(" client_headers={got:?}"));
            let mut want: Vec<(String, String)> = vec![];
            for (n, v) in &backend_headers {
                if st.edits && n.eq_ignore_ascii_case("x-resp-delete") {
                    continue;
                }
                want.push((n.clone(), v.clone()));
            }
            // documented additions, taken from the tail
            let sticky_ok = |v: &str| v.starts_with(&format!("{STICKY}=")) && v != "SOZUBALANCEID=backend; Path=/";
            let mut additions: Vec<(&str, Box<dyn Fn(&str) -> bool + '_>, &str)> = vec![(id_name.as_str(), Box::new(is_ulid), "correlation")];
            if st.sticky {
                additions.push(("Set-Cookie", Box::new(sticky_ok), "sticky-cookie"));
            }
            if st.edits {
                additions.push(("X-Resp-Added", Box::new(|v| v == "yes"), "configured-header"));
            }
            for (name, ok, label) in &additions {
                match got.iter().rposition(|(n, v)| n.eq_ignore_ascii_case(name) && ok(v)) {
                    None => flag(format!("response:{}:missing-{label}", case.response), format!("setting {set_tag}: the response has no {name} added by sozu")),
                    Some(i) => {
                        got.remove(i);
                    }
                }
            }
            drop(additions);
            let norm = |l: &[(String, String)]| l.iter().map(|(n, v)| (n.to_ascii_lowercase(), v.clone())).collect::<Vec<_>>();
            if norm(&got) != norm(&want) {
                let class = if got.len() > want.len() { "extra-or-duplicated-field" } else if got.len() < want.len() { "field-lost" } else { "field-changed" };
                flag(format!("response:{}:{class}", case.response), format!("setting {set_tag}: after removing the documented additions the client sees {got:?}, the backend sent {want:?}"));
            }
            if m_body != b"body" {
                flag(format!("response:{}:body-changed", case.response), format!("body {:?}", String::from_utf8_lossy(m_body)));
            }
        }
    }
    drop(flag);
    if end != End::Finished && violations.is_empty() {
        violations.push((format!("C13|{}|worker-not-finished", case.pair), format!("run ended {end:?}")));
    }
    // the client's ephemeral port differs between executions
    let obs = match c_port {
        Some(p) if announced.is_none() => obs.replace(&format!(":{p}"), ":<port>"),
        _ => obs,
    };
    Run { trace: exec.trace, observation: obs, violations, diverged: exec.diverged }
}

/// remove the last field of that name, returning its value
fn take_addition(got: &mut Vec<(String, String)>, name: &str) -> Option<String> {
    let i = got.iter().rposition(|(n, _)| n.eq_ignore_ascii_case(name))?;
    Some(got.remove(i).1)
}

/// does the (last element of the) Forwarded value name this peer?
fn forwarded_names(v: &str, peer: &SocketAddr) -> bool {
    let last = v.rsplit(',').next().unwrap_or("").trim();
    let ip = peer.ip().to_string();
    last.split(';').any(|kv| {
        let kv = kv.trim();
        kv.strip_prefix("for=").is_some_and(|f| {
            let f = f.trim_matches('"');
            f == ip || f == format!("{ip}:{}", peer.port()) || f == format!("[{ip}]:{}", peer.port()) || f == format!("[{ip}]")
        })
    })
}

fn profile() -> ChoiceProfile {
    ChoiceProfile { read_faults: vec![FdClass::Front, FdClass::Back], write_faults: vec![FdClass::Front, FdClass::Back], max_points_per_class: 3, event_order: false, ..Default::default() }
}

pub fn run_item(tier: Tier, item: usize) -> ItemResult {
    let all = cases(tier);
    let case = all[item].clone();
    let mut violations = vec![];
    let c2 = case.clone();
    let stats = explore::search(
        if tier == Tier::Quick { 1 } else { 2 },
        if tier == Tier::Quick { 60 } else { 1500 },
        |prefix| {
            let c = c2.clone();
            let p = prefix.to_vec();
            match worker::isolated(move || run_case(&c, p.clone(), profile())) {
                Ok(r) => r,
                Err(status) => {
                    let mut r = super::c01::crashed_run(prefix, &status);
                    for v in r.violations.iter_mut() {
                        v.0 = v.0.replace("C01|any", &format!("C13|{}", c2.pair));
                    }
                    r
                }
            }
        },
        |vector, key, desc| {
            let weight = vector.iter().filter(|c| **c != 0).count() as u64 * 1000 + if case.setting.name == "default" { 0 } else { 10 };
            violations.push((key.to_owned(), desc.to_owned(), json!({"case": case, "choices": vector}), weight));
        },
    );
    let mut counters = BTreeMap::new();
    counters.insert("sim_executions".to_owned(), stats.executions);
    ItemResult { item, label: format!("{}/{}/{}/{}", case.pair, case.setting.name, case.request, case.response), stats, violations, counters, sample: json!({"case": case}) }
}

pub fn run(ctx: &Ctx) -> Coverage {
    let tier = ctx.tier();
    let n = cases(tier).len();
    let results = explore::run_sharded(ctx, n, "c13", |i| run_item(tier, i));
    super::c01::summarize(ctx, &results, "HTTP/1.1 requests and responses through an unmodified worker: 9 listener / cluster settings (X-Real-IP elide / send, custom correlation header, sticky sessions, per-frontend header edits, PROXY-protocol v4 / v6 sources) x 28 request header lists (duplicates, case variants, odd values, cookies with sozu's sticky cookie at every position and look-alikes, spoofed X-Forwarded-For / Forwarded / X-Real-IP / X-Forwarded-Proto / -Port / X-Request-Id / correlation fields, injection attempts in values, metadata in trailers) plus 4 settings x 5 response header lists; every schedule with at most d deviations. Oracle: after removing sozu's documented additions (each checked for truthfulness against the real or announced peer address and the listener) the backend's field list equals the client's in order and value; cookies other than the sticky cookie are intact; exactly one correlation and one request id; no proxy metadata in trailers; the client's response field list equals the backend's plus the documented additions")
}

pub fn replay(ctx: &Ctx, case: &Value) -> Coverage {
    let c: Case = serde_json::from_value(case["case"].clone()).unwrap_or_else(|e| crate::common::machinery_error(&format!("bad replay case: {e}")));
    let choices: Vec<u32> = serde_json::from_value(case["choices"].clone()).unwrap_or_default();
    let r = worker::isolated(move || run_case(&c, choices, profile())).unwrap_or_else(|s| super::c01::crashed_run(&[], &s));
    for (k, d) in r.violations {
        ctx.violation(k, d, case.clone());
    }
    Coverage { states: 1, transitions: 1, evaluations: 1, distinct_nontrivial: 1, distinct_outcomes: 1, rule: "replay".into(), ..Default::default() }
}

pub fn debug(args: &crate::common::Args) {
    let all = cases(args.tier);
    let mut choices: Vec<u32> = args.extra.get("choices").map(|s| s.split(',').filter_map(|x| x.parse().ok()).collect()).unwrap_or_default();
    let mut c = match (args.extra.get("setting"), args.extra.get("request")) {
        (Some(s), Some(r)) => all.iter().find(|c| c.setting.name == *s && c.request == *r).cloned().expect("no such case"),
        _ => all[args.extra.get("item").and_then(|s| s.parse().ok()).unwrap_or(0)].clone(),
    };
    if let Some(f) = args.extra.get("file") {
        let j = crate::common::load_replay(&std::path::PathBuf::from(f));
        c = serde_json::from_value(j["case"]["case"].clone()).unwrap();
        choices = serde_json::from_value(j["case"]["choices"].clone()).unwrap();
    }
    println!("{} cases; {:?}", all.len(), c);
    let r = worker::isolated(move || run_case(&c, choices, profile())).unwrap();
    println!("obs={}", r.observation);
    println!("trace={:?}", r.trace.iter().map(|p| format!("{}:{}/{}", p.kind, p.chosen, p.alternatives)).collect::<Vec<_>>());
    println!("violations={:#?}", r.violations);
}
