//! C02 — every received request gets exactly one well-formed answer.
//! SIM over an unmodified worker: routing outcomes and backend faults at
//! every byte offset of the response, first request and second request on a
//! kept-alive connection.

use std::collections::BTreeMap;

use serde_json::{Value, json};
use sozu_command_lib::proto::command::PathRule;

use crate::{
    common::{Coverage, Ctx, Tier},
    interpose::VIRTUAL_EPOCH_NS,
    sim::{
        ChoiceProfile, End, FdClass,
        explore::{self, ItemResult, Run},
        h1, scen,
        peer::{Peer, Step},
        worker::{self, MainStep, WorkerSetup},
    },
};

#[derive(Clone, Debug, serde::Serialize, serde::Deserialize, PartialEq)]
pub enum Cause {
    /// sanity: healthy exchange
    Healthy,
    NoRoute,
    Deny,
    NoBackendConfigured,
    ConnectRefused,
    /// backend sends the first `j` bytes of its response, then FIN
    BackendCloseAt(usize),
    /// ... then RST
    BackendResetAt(usize),
    BackendGarbage,
    /// backend reads the request and never answers
    BackendSilent,
    /// backend closed the kept-alive connection between two requests
    BackendClosedBetweenRequests,
    /// client sends half of its request head and stalls
    ClientStallsInHead,
}

#[derive(Clone, Debug, serde::Serialize, serde::Deserialize)]
pub struct Case {
    pub pair: String,
    pub cause: Cause,
    /// 0 = the faulty request is the first on its connection, 1 = second
    pub position: usize,
}

const BODY_LEN: usize = 90;

fn good_response(tag: u8) -> (Vec<u8>, usize) {
    let body = h1::coded_body(tag, BODY_LEN);
    let head = format!("HTTP/1.1 200 OK\r\nContent-Length: {}\r\nX-Tag: {tag}\r\n\r\n", body.len());
    let head_len = head.len();
    let mut v = head.into_bytes();
    v.extend_from_slice(&body);
    (v, head_len)
}

pub fn response_len() -> usize {
    good_response(7).0.len()
}

fn cause_class(c: &Cause) -> String {
    match c {
        Cause::BackendCloseAt(j) | Cause::BackendResetAt(j) => {
            let (resp, head) = good_response(7);
            let kind = if matches!(c, Cause::BackendCloseAt(_)) { "close" } else { "reset" };
            let at = if *j == 0 {
                "before-response"
            } else if *j < head {
                "inside-head"
            } else if *j < resp.len() {
                "inside-body"
            } else {
                "after-response"
            };
            format!("backend-{kind}-{at}")
        }
        other => format!("{other:?}").to_lowercase(),
    }
}

pub fn run_case(case: &Case, prefix: Vec<u32>, profile: ChoiceProfile) -> Run {
    let front = scen::addr(1, 8080);
    let back = scen::addr(2, 9090);
    let mut setup = scen::simple_http(front, back);
    let mut host = "a.io";
    match case.cause {
        Cause::NoRoute => host = "unknown.io",
        Cause::Deny => {
            // a frontend without cluster = deny
            setup.clusters.push(scen::ClusterSetup { cluster: crate::cfgspace::cluster("unused"), hostname: "unused.io".into(), path: PathRule::prefix("/"), backends: vec![], headers: vec![] });
            host = "deny.io";
        }
        Cause::NoBackendConfigured => {
            setup.clusters.push(scen::ClusterSetup { cluster: crate::cfgspace::cluster("empty"), hostname: "empty.io".into(), path: PathRule::prefix("/"), backends: vec![], headers: vec![] });
            host = "empty.io";
        }
        Cause::ConnectRefused => {
            // a cluster whose only backend address has no listener
            setup.clusters.push(scen::ClusterSetup { cluster: crate::cfgspace::cluster("dead"), hostname: "dead.io".into(), path: PathRule::prefix("/"), backends: vec![("dead1".into(), scen::addr(3, 9191))], headers: vec![] });
            host = "dead.io";
        }
        _ => {}
    }
    let mut state = scen::http_state(&setup);
    if case.cause == Cause::Deny {
        use sozu_command_lib::proto::command::{RequestHttpFrontend, RulePosition, request::RequestType};
        state
            .dispatch(
                &RequestType::AddHttpFrontend(RequestHttpFrontend { cluster_id: None, address: front.into(), hostname: "deny.io".into(), path: PathRule::prefix("/"), position: RulePosition::Tree as i32, ..Default::default() })
                    .into(),
            )
            .unwrap();
    }

    // ---- scripts
    let mut client = vec![Step::Connect { to: front, from: None }];
    let mut backend = vec![Step::Accept];
    let mut expected_good = 0;
    if case.position == 1 {
        // a healthy first exchange on host a.io
        let (resp, _) = good_response(1);
        client.push(Step::Send { bytes: h1::request("GET", "/first", "a.io", &[], None), splits: vec![] });
        client.push(Step::ExpectH1 { count: 1, responses: true });
        backend.push(Step::ExpectH1 { count: 1, responses: false });
        backend.push(Step::Send { bytes: resp, splits: vec![] });
        expected_good = 1;
    }
    let req = h1::request("GET", "/faulty", host, &[], None);
    let idx = expected_good;
    match &case.cause {
        Cause::ClientStallsInHead => {
            client.push(Step::Send { bytes: req[..req.len() / 2].to_vec(), splits: vec![] });
            client.push(Step::ExpectH1 { count: idx + 1, responses: true });
        }
        _ => {
            client.push(Step::Send { bytes: req.clone(), splits: vec![] });
            client.push(Step::ExpectH1 { count: idx + 1, responses: true });
        }
    }
    // the sibling request after the faulty one (same client, new connection if needed)
    client.push(Step::Done);
    let (resp, _head_len) = good_response(7);
    match &case.cause {
        Cause::Healthy => {
            backend.push(Step::ExpectH1 { count: idx + 1, responses: false });
            backend.push(Step::Send { bytes: resp.clone(), splits: vec![] });
        }
        Cause::BackendCloseAt(j) | Cause::BackendResetAt(j) => {
            backend.push(Step::ExpectH1 { count: idx + 1, responses: false });
            if *j > 0 {
                backend.push(Step::Send { bytes: resp[..*j.min(&resp.len())].to_vec(), splits: vec![] });
            }
            if matches!(case.cause, Cause::BackendCloseAt(_)) {
                backend.push(Step::Close);
            } else {
                backend.push(Step::Reset);
            }
            // a retried request may arrive on a new connection: answer it the same way
            backend.push(Step::Accept);
            backend.push(Step::ExpectH1 { count: 1, responses: false });
            backend.push(Step::Close);
        }
        Cause::BackendGarbage => {
            backend.push(Step::ExpectH1 { count: idx + 1, responses: false });
            backend.push(Step::Send { bytes: b"\x16\x03\x01 this is not http\r\n\r\n".to_vec(), splits: vec![] });
        }
        Cause::BackendSilent => {
            backend.push(Step::ExpectH1 { count: idx + 1, responses: false });
            backend.push(Step::Stall);
        }
        Cause::BackendClosedBetweenRequests => {
            // close right after the first response; a new connection gets a healthy answer
            backend.push(Step::Close);
            backend.push(Step::Accept);
            backend.push(Step::ExpectH1 { count: 1, responses: false });
            backend.push(Step::Send { bytes: resp.clone(), splits: vec![] });
        }
        _ => {}
    }
    backend.push(Step::Done);
    let backend = Peer::server("backend", back, backend);
    let client = Peer::client("client", client);
    let ws = WorkerSetup { config: worker::server_config(|_| {}), initial: state };
    let (mut exec, create_err) = worker::run_worker(ws, vec![backend, client], vec![MainStep::AwaitPeerAt { peer: 1, pc: usize::MAX }], profile, prefix, 400);
    if let Some(e) = create_err {
        crate::common::machinery_error(&format!("worker creation failed: {e}"));
    }
    let class = cause_class(&case.cause);
    let pos = if case.position == 0 { "first" } else { "keepalive" };
    let mut violations: Vec<(String, String)> = vec![];
    let mut flag = |k: String, d: String| violations.push((format!("C02|{}|{class}|{pos}|{k}", case.pair), d));
    if let Some(p) = &exec.subject_panic {
        flag("worker-panic".into(), format!("worker panicked: {p}"));
    }
    let end = exec.end.clone();
    let sc = worker::scenario_of(&mut exec);
    let c = &sc.peers[1];
    let eof = c.conn.eof || c.conn.reset;
    let (resps, consumed, perr) = h1::parse_all(&c.conn.rx, true, eof);
    let answered_ms = c.conn.last_rx_ns.or(c.conn.eof_ns).map(|t| (t - VIRTUAL_EPOCH_NS) / 1_000_000);
    // first (healthy) exchange must be intact
    if case.position == 1 {
        match resps.first() {
            Some(m) if m.status() == Some(200) && m.body == h1::coded_body(1, BODY_LEN) => {}
            other => flag("sibling-corrupted".into(), format!("the healthy first exchange on the connection was damaged: {:?}", other.map(|m| (&m.start_line, m.body.len())))),
        }
    }
    let faulty = resps.get(idx);
    let leftover = c.conn.rx.len() - consumed;
    let expect: (&[u16], u64) = match &case.cause {
        Cause::Healthy => (&[200], 1),
        Cause::NoRoute => (&[404], 1),
        Cause::Deny => (&[401], 1),
        Cause::NoBackendConfigured | Cause::ConnectRefused => (&[503], 40),
        Cause::BackendGarbage => (&[502], 2),
        Cause::BackendSilent => (&[504], 31),
        Cause::ClientStallsInHead => (&[408], 61),
        Cause::BackendClosedBetweenRequests => (&[200, 502, 503], 40),
        Cause::BackendCloseAt(j) | Cause::BackendResetAt(j) => {
            let (r, h) = good_response(7);
            if *j >= r.len() {
                (&[200], 1)
            } else if *j < h {
                (&[502, 503], 40)
            } else {
                (&[], 61) // response started: explicit abort only
            }
        }
    };
    if expect.0.is_empty() {
        // the response had started: it must end in an explicit abort, never look complete
        if let Some(m) = faulty {
            // a complete proxy-generated 502 is a legitimate way out as long as
            // nothing of the backend's response had been relayed
            if m.status() != Some(502) {
                flag("truncated-response-presented-as-complete".into(), format!("backend cut its response inside the body, the client nevertheless parsed a complete response: {:?} with a {}-byte body", m.start_line, m.body.len()));
            }
        } else if !eof {
            flag("no-abort".into(), format!("backend cut its response inside the body; the client connection was neither completed nor closed (run ended {end:?}, {} bytes received)", c.conn.rx.len()));
        }
    } else {
        match faulty {
            None => {
                let what = if eof && leftover == 0 { "connection-closed-without-answer" } else if eof { "partial-answer" } else { "unanswered" };
                flag(what.into(), format!("request got no complete answer: {} complete responses, {leftover} stray bytes, eof={eof}, parse error {perr:?}, run ended {end:?}", resps.len()));
            }
            Some(m) => {
                let st = m.status().unwrap_or(0);
                if !expect.0.contains(&st) {
                    flag(format!("wrong-status-{st}"), format!("answered {:?}, expected one of {:?}", m.start_line, expect.0));
                }
                if st == 200 && m.body != h1::coded_body(7, BODY_LEN) {
                    flag("relayed-response-damaged".into(), format!("200 relayed with a {}-byte body instead of {BODY_LEN}", m.body.len()));
                }
            }
        }
        if resps.len() > idx + 1 || (leftover > 0 && faulty.is_some()) {
            flag("answered-more-than-once".into(), format!("{} responses and {leftover} stray bytes for {} requests", resps.len(), idx + 1));
        }
    }
    if let Some(ms) = answered_ms {
        if ms > expect.1 * 1000 + 1500 {
            flag("answer-too-late".into(), format!("the last byte of the answer arrived after {ms} virtual ms, the relevant timeout allows {} s", expect.1));
        }
    }
    if std::env::var("C01_DUMP").is_ok() {
        eprintln!("---- client rx ({} bytes, eof={eof}, last_rx={:?} eof_at={:?}):\n{}", c.conn.rx.len(), c.conn.last_rx_ns.map(|t| (t - VIRTUAL_EPOCH_NS) / 1_000_000), c.conn.eof_ns.map(|t| (t - VIRTUAL_EPOCH_NS) / 1_000_000), String::from_utf8_lossy(&c.conn.rx[..c.conn.rx.len().min(1500)]));
    }
    let observation = format!(
        "end={end:?} resps={:?} leftover={leftover} eof={eof} perr={perr:?} at={answered_ms:?}",
        resps.iter().map(|m| (m.status(), m.body.len())).collect::<Vec<_>>()
    );
    Run { trace: exec.trace, observation, violations, diverged: exec.diverged }
}

fn cases(tier: Tier) -> Vec<Case> {
    let mut v = vec![];
    let n = response_len();
    for position in [0usize, 1] {
        for cause in [Cause::Healthy, Cause::NoRoute, Cause::Deny, Cause::NoBackendConfigured, Cause::ConnectRefused, Cause::BackendGarbage, Cause::BackendSilent, Cause::ClientStallsInHead] {
            v.push(Case { pair: "h1-h1".into(), cause, position });
        }
        for j in 0..=n {
            v.push(Case { pair: "h1-h1".into(), cause: Cause::BackendCloseAt(j), position });
            if tier == Tier::Thorough || j % 7 == 0 || j + 3 > n {
                v.push(Case { pair: "h1-h1".into(), cause: Cause::BackendResetAt(j), position });
            }
        }
    }
    v.push(Case { pair: "h1-h1".into(), cause: Cause::BackendClosedBetweenRequests, position: 1 });
    v
}

fn profile(tier: Tier) -> ChoiceProfile {
    ChoiceProfile {
        read_faults: vec![FdClass::Back],
        write_faults: vec![FdClass::Front],
        max_points_per_class: if tier == Tier::Quick { 3 } else { 6 },
        event_order: tier == Tier::Thorough,
        ..Default::default()
    }
}

pub fn run_item(tier: Tier, item: usize) -> ItemResult {
    let all = cases(tier);
    let case = all[item].clone();
    let mut violations = vec![];
    let c2 = case.clone();
    let stats = explore::search(
        1,
        400,
        |prefix| {
            let c = c2.clone();
            let p = prefix.to_vec();
            match worker::isolated(move || run_case(&c, p.clone(), profile(tier))) {
                Ok(r) => r,
                Err(status) => {
                    let mut r = super::c01::crashed_run(prefix, &status);
                    for v in r.violations.iter_mut() {
                        v.0 = v.0.replace("C01|any", &format!("C02|{}|{}", c2.pair, cause_class(&c2.cause)));
                    }
                    r
                }
            }
        },
        |vector, key, desc| {
            let weight = vector.iter().filter(|c| **c != 0).count() as u64 * 1000 + case.position as u64 * 100;
            violations.push((key.to_owned(), desc.to_owned(), json!({"sim": "c02", "case": case, "choices": vector}), weight));
        },
    );
    let mut counters = BTreeMap::new();
    counters.insert("sim_executions".to_owned(), stats.executions);
    ItemResult { item, label: format!("{case:?}"), stats, violations, counters, sample: json!({"case": case}) }
}

pub fn run(ctx: &Ctx) -> Coverage {
    let mut cov = Coverage::aggregate();
    cov.absorb("a-h1-h1", run_a(ctx));
    cov.absorb("b-http2-pairs", super::c02b::run(ctx));
    cov.absorb("c-pipelined-requests", super::c02c::run(ctx));
    cov
}

fn run_a(ctx: &Ctx) -> Coverage {
    let tier = ctx.tier();
    let n = cases(tier).len();
    let results = explore::run_sharded(ctx, n, "c02", |i| run_item(tier, i));
    super::c01::summarize(ctx, &results, "HTTP/1.1 exchanges through an unmodified worker with one cause each: healthy, no route, deny frontend, cluster without backend, connect refused, backend garbage, backend silent (504), client stalls in its head (408), backend closes between keep-alive requests, and the backend sending the first j bytes of a 147-byte response then closing (every j) or resetting (every 7th j; thorough: every j), as first request and as second request of a kept-alive connection; each with every schedule of at most 1 deviation (short / would-block backend reads and client writes). Oracle: exactly one complete answer with the status matching the cause, or - once the response has started - an explicit abort, never a complete-looking truncated body; answer within the configured timeout; the sibling exchange intact")
}

pub fn replay(ctx: &Ctx, case: &Value) -> Coverage {
    if case["sim"] == "c02b" {
        return super::c02b::replay(ctx, case);
    }
    if case["sim"] == "c02c" {
        return super::c02c::replay(ctx, case);
    }
    let c: Case = serde_json::from_value(case["case"].clone()).unwrap_or_else(|e| crate::common::machinery_error(&format!("bad replay case: {e}")));
    let choices: Vec<u32> = serde_json::from_value(case["choices"].clone()).unwrap_or_default();
    let tier = ctx.tier();
    let r = worker::isolated(move || run_case(&c, choices, profile(tier))).unwrap_or_else(|s| super::c01::crashed_run(&[], &s));
    for (k, d) in r.violations {
        ctx.violation(k, d, case.clone());
    }
    Coverage { states: 1, transitions: r.trace.len().max(1) as u64, evaluations: 1, distinct_nontrivial: 1, distinct_outcomes: 1, rule: "replay".into(), ..Default::default() }
}

pub fn debug(args: &crate::common::Args) {
    let all = cases(args.tier);
    let item: usize = args.extra.get("item").and_then(|s| s.parse().ok()).unwrap_or(0);
    let mut choices: Vec<u32> = args.extra.get("choices").map(|s| s.split(',').filter_map(|x| x.parse().ok()).collect()).unwrap_or_default();
    let mut c = all[item].clone();
    if let Some(f) = args.extra.get("file") {
        let j = crate::common::load_replay(&std::path::PathBuf::from(f));
        c = serde_json::from_value(j["case"]["case"].clone()).unwrap();
        choices = serde_json::from_value(j["case"]["choices"].clone()).unwrap();
    }
    println!("{} cases; {:?}", all.len(), c);
    let tier = args.tier;
    let r = worker::isolated(move || run_case(&c, choices, profile(tier))).unwrap();
    println!("obs={}", r.observation);
    println!("trace={:?}", r.trace.iter().map(|p| format!("{}:{}/{}", p.kind, p.chosen, p.alternatives)).collect::<Vec<_>>());
    println!("violations={:#?}", r.violations);
}
