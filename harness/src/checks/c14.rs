//! C14 — sozu respects every HTTP/2 peer limit and keeps transfers moving.
//! A scripted HTTP/2 client over TLS (window / frame-size / table-size settings,
//! WINDOW_UPDATE schedules) and h2c or HTTP/1.1 backends around an unmodified
//! worker; both scripted endpoints keep a ledger of the obligations sozu has
//! towards them.

use std::collections::BTreeMap;

use serde_json::{Value, json};

use super::h2pair::{Grants, PairCase, Proto, Xfer, run_pair};
use crate::{
    common::{Coverage, Ctx, Tier},
    sim::{
        ChoiceProfile, FdClass,
        explore::{self, ItemResult},
        worker,
    },
};

pub fn cases(tier: Tier) -> Vec<PairCase> {
    let mut v = vec![];
    let x = |up: usize, down: usize| Xfer { up, down };
    let sizes: &[usize] = if tier == Tier::Quick { &[0, 1, 16384, 70000] } else { &[0, 1, 9, 16383, 16384, 16385, 65535, 65536, 70000, 200000] };
    for back in [Proto::H1, Proto::H2] {
        // plain transfers, defaults
        for &n in sizes {
            v.push(PairCase::simple(Proto::H2, back, vec![x(0, n)]));
            v.push(PairCase::simple(Proto::H2, back, vec![x(n, 3)]));
        }
        // concurrent streams
        v.push(PairCase::simple(Proto::H2, back, vec![x(0, 70000), x(0, 70000), x(0, 5)]));
        v.push(PairCase::simple(Proto::H2, back, vec![x(40000, 40000), x(40000, 40000)]));
        // peer settings: initial window, max frame size, table size
        for w in [0u32, 1, 100, 16384, 65535, 1 << 20] {
            let mut c = PairCase::simple(Proto::H2, back, vec![x(0, 70000)]);
            c.initial_window = Some(w);
            // a zero / tiny initial window needs grants to make progress
            c.grants = Grants::Drip { step: 20000 };
            v.push(c);
        }
        for m in [16384u32, 16385, 65536, (1 << 24) - 1] {
            let mut c = PairCase::simple(Proto::H2, back, vec![x(0, 200000)]);
            c.max_frame_size = Some(m);
            v.push(c);
        }
        for t in [0u32, 64, 4096, 65536] {
            let mut c = PairCase::simple(Proto::H2, back, vec![x(0, 10), x(0, 10), x(0, 10)]);
            c.header_table_size = Some(t);
            v.push(c);
        }
        // WINDOW_UPDATE schedules
        for step in [1u32, 100, 16384, 65535] {
            let mut c = PairCase::simple(Proto::H2, back, vec![x(0, if step == 1 { 300 } else { 70000 })]);
            c.grants = Grants::Drip { step };
            c.initial_window = Some(if step == 1 { 10 } else { 1000 });
            v.push(c);
        }
        {
            let mut c = PairCase::simple(Proto::H2, back, vec![x(0, 100000), x(0, 100000)]);
            c.grants = Grants::ConnectionStarved { conn_step: 30000 };
            v.push(c);
        }
        // mid-connection shrink of the initial window
        for w in [0u32, 100, 16384] {
            let mut c = PairCase::simple(Proto::H2, back, vec![x(0, 150000)]);
            c.shrink_window_to = Some(w);
            c.grants = Grants::Drip { step: 40000 };
            v.push(c);
        }
        // ... below data already in flight: sozu fills a 10000-byte window, the window is shrunk
        // (its send window goes negative), then one WINDOW_UPDATE takes it straight back above zero
        for (w, step) in [(4000u32, 36000u32), (0, 12000), (9999, 70000)] {
            let mut c = PairCase::simple(Proto::H2, back, vec![x(0, 40000)]);
            c.initial_window = Some(10000);
            c.shrink_window_to = Some(w);
            c.shrink_after_bytes = Some(10000);
            c.grants = Grants::Drip { step };
            v.push(c);
        }
        // uploads towards sozu: its own windows must be replenished
        for n in [65535usize, 65536, 200000, 1 << 20] {
            let mut c = PairCase::simple(Proto::H2, back, vec![x(n, 3)]);
            c.upload_frame = 16384;
            v.push(c);
        }
        // padded uploads under flow control: the padding is charged to sozu's windows, far more of it
        // than one window holds over the life of the stream
        for (n, frame, pad) in [(30000usize, 100usize, 255u8), (200000, 1000, 200), (70000, 16000, 1)] {
            let mut c = PairCase::simple(Proto::H2, back, vec![x(n, 3)]);
            c.upload_frame = frame;
            c.windowed_padding = Some(pad);
            v.push(c);
        }
        // a slow client with wide windows, download and upload at the same time:
        // sozu's writes stall inside frames while it owes WINDOW_UPDATEs for the upload
        for pace in [700usize, 5000, 20000] {
            let mut c = PairCase::simple(Proto::H2, back, vec![x(0, 150000), x(150000, 3)]);
            c.initial_window = Some(1 << 24);
            c.pace_front = Some(pace);
            c.upload_frame = 4000;
            c.family = Some("slow-client-download+upload".into());
            v.push(c);
        }
        // the same with the connection window wide open too: more in flight than TLS
        // and TCP buffers absorb, so frames are written in pieces while the upload goes on
        for pace in [3000usize, 20000] {
            let mut c = PairCase::simple(Proto::H2, back, vec![x(0, 1_500_000), x(600_000, 3)]);
            c.initial_window = Some(1 << 24);
            c.huge_conn_window = true;
            c.pace_front = Some(pace);
            c.upload_frame = 4000;
            c.spread_upload = true;
            v.push(c);
        }
        // small session buffers
        {
            let mut c = PairCase::simple(Proto::H2, back, vec![x(50000, 50000)]);
            c.buffer_size = 16393;
            v.push(c);
        }
    }
    // h2c backends behind an HTTP/1.1 client (sozu as an HTTP/2 client)
    for &n in sizes {
        v.push(PairCase::simple(Proto::H1, Proto::H2, vec![x(0, n)]));
        v.push(PairCase::simple(Proto::H1, Proto::H2, vec![x(n, 3)]));
    }
    v.push(PairCase::simple(Proto::H1, Proto::H2, vec![x(0, 5), x(7, 70000), x(70000, 7)]));
    v.push(PairCase::simple(Proto::H1, Proto::H2, vec![x(7, 70000)]));
    v.push(PairCase::simple(Proto::H1, Proto::H2, vec![x(0, 5), x(7, 70000)]));
    v.push(PairCase::simple(Proto::H1, Proto::H2, vec![x(0, 5), x(0, 70000)]));
    v.push(PairCase::simple(Proto::H1, Proto::H2, vec![x(0, 5), x(7, 5)]));
    v.push(PairCase::simple(Proto::H1, Proto::H1, vec![x(0, 5), x(7, 70000), x(70000, 7)]));
    v
}

fn profile(tier: Tier) -> ChoiceProfile {
    ChoiceProfile { read_faults: vec![FdClass::Front, FdClass::Back], write_faults: vec![FdClass::Front, FdClass::Back], max_points_per_class: if tier == Tier::Quick { 3 } else { 6 }, event_order: false, ..Default::default() }
}

pub fn run_item(tier: Tier, item: usize) -> ItemResult {
    let all = cases(tier);
    let case = all[item].clone();
    let mut violations = vec![];
    let c2 = case.clone();
    let stats = explore::search(
        1,
        if tier == Tier::Quick { 14 } else { 400 },
        |prefix| {
            let c = c2.clone();
            let p = prefix.to_vec();
            match worker::isolated(move || run_pair("C14", &c, p.clone(), profile(tier))) {
                Ok(r) => r,
                Err(status) => {
                    let mut r = super::c01::crashed_run(prefix, &status);
                    for v in r.violations.iter_mut() {
                        v.0 = v.0.replace("C01|any", "C14|any");
                    }
                    r
                }
            }
        },
        |vector, key, desc| {
            let weight = vector.iter().filter(|c| **c != 0).count() as u64 * 1000 + case.xfers.iter().map(|x| x.up + x.down).sum::<usize>() as u64 / 1000;
            violations.push((key.to_owned(), desc.to_owned(), json!({"case": case, "choices": vector}), weight));
        },
    );
    let mut counters = BTreeMap::new();
    counters.insert("sim_executions".to_owned(), stats.executions);
    ItemResult { item, label: format!("{case:?}"), stats, violations, counters, sample: json!({"case": case}) }
}

pub fn run(ctx: &Ctx) -> Coverage {
    let tier = ctx.tier();
    let n = cases(tier).len();
    let results = explore::run_sharded(ctx, n, "c14", |i| run_item(tier, i));
    super::c01::summarize(ctx, &results, "a scripted HTTP/2 client over TLS (ALPN h2) or an HTTP/1.1 client in front of an unmodified worker, an HTTP/1.1 or h2c backend behind it: download / upload sizes around the frame and window boundaries, concurrent streams, client SETTINGS (initial window 0..2^20, max frame size 16384..2^24-1, header table size 0..65536), WINDOW_UPDATE schedules (1-byte drips, bursts, connection-starved), mid-connection shrinking of the initial window below in-flight data, uploads that need sozu's own windows replenished; every schedule with at most 1 deviation (short / would-block reads and writes on both sockets). Both scripted endpoints keep a ledger: DATA never beyond the stream or connection window they granted, no frame above their SETTINGS_MAX_FRAME_SIZE, no stream beyond their MAX_CONCURRENT_STREAMS, legal stream ids, decodable header blocks; every transfer completes with the exact bytes and END_STREAM, without GOAWAY or RST_STREAM")
}

pub fn replay(ctx: &Ctx, case: &Value) -> Coverage {
    let c: PairCase = serde_json::from_value(case["case"].clone()).unwrap_or_else(|e| crate::common::machinery_error(&format!("bad replay case: {e}")));
    let choices: Vec<u32> = serde_json::from_value(case["choices"].clone()).unwrap_or_default();
    let r = worker::isolated(move || run_pair("C14", &c, choices, profile(Tier::Thorough))).unwrap_or_else(|s| super::c01::crashed_run(&[], &s));
    for (k, d) in r.violations {
        ctx.violation(k, d, case.clone());
    }
    Coverage { states: 1, transitions: 1, evaluations: 1, distinct_nontrivial: 1, distinct_outcomes: 1, rule: "replay".into(), ..Default::default() }
}

pub fn debug(args: &crate::common::Args) {
    let all = cases(args.tier);
    let item: usize = args.extra.get("item").and_then(|s| s.parse().ok()).unwrap_or(0);
    let mut choices: Vec<u32> = args.extra.get("choices").map(|s| s.split(',').filter_map(|x| x.parse().ok()).collect()).unwrap_or_default();
    let mut c = all[item].clone();
    if let Some(f) = args.extra.get("file") {
        let j = crate::common::load_replay(&std::path::PathBuf::from(f));
        c = serde_json::from_value(j["case"]["case"].clone()).unwrap();
        choices = serde_json::from_value(j["case"]["choices"].clone()).unwrap();
    }
    println!("{} cases; {:?}", all.len(), c);
    let tier = args.tier;
    let r = worker::isolated(move || run_pair("C14", &c, choices, profile(tier))).unwrap();
    println!("obs={}", r.observation);
    println!("trace_len={}", r.trace.len());
    for (i, p) in r.trace.iter().enumerate().take(60) {
        println!("  point {i}: {} alternatives={} chosen={}", p.kind, p.alternatives, p.chosen);
    }
    println!("violations={:#?}", r.violations);
}
