//! C16(b) — resources return to baseline, admission limits hold.
//! Mixes of session outcomes (complete, fail, time out, reset, limits) over
//! HTTP/1.1, TLS + HTTP/2 and TCP sessions on an unmodified worker; the
//! worker's own gauges, read over the command channel before and after, must
//! be back to their idle values; a connection storm above max_connections is
//! never served beyond the limit and accepting resumes afterwards.

use std::collections::BTreeMap;

use serde_json::{Value, json};
use sozu_command_lib::{
    config::ListenerBuilder,
    proto::command::{
        ActivateListener, AddBackend, AddCertificate, ListenerType, PathRule, QueryMetricsOptions, RequestHttpFrontend, RequestTcpFrontend, ResponseStatus, RulePosition, SocketAddress, filtered_metrics, request::RequestType,
        response_content::ContentType,
    },
};

use crate::{
    common::{Coverage, Ctx, Tier},
    sim::{
        ChoiceProfile, End, FdClass,
        explore::{self, ItemResult, Run},
        h2::{self, WindowPolicy},
        peer::{H2Cond, Peer, Step},
        scen,
        worker::{self, MainStep, WorkerSetup},
    },
};

pub const OUTCOMES: [&str; 14] = [
    "ok",
    "keepalive-idle-until-timeout",
    "client-reset-mid-request",
    "client-close-mid-response",
    "client-stalls-in-head",
    "no-route-404",
    "backend-refuses-503",
    "backend-dies-mid-response",
    "tls-garbage",
    "tls-then-silence",
    "h2-reset-mid-body",
    "h2-ok",
    "tcp-session",
    "tcp-no-backend",
];

#[derive(Clone, Debug, serde::Serialize, serde::Deserialize)]
pub struct Case {
    /// sessions run side by side
    pub outcomes: Vec<String>,
    /// 0 = no storm; otherwise max_connections is set to this and twice as many clients connect
    pub storm: usize,
    /// every cluster allows one connection per client address; after the sessions are over one
    /// connection to each cluster must be admitted again
    #[serde(default)]
    pub per_ip: bool,
    /// start of each session, in ms after the common start (empty: all together). Idle sessions whose
    /// deadlines fall one or two revolutions of the timer wheel apart share a wheel slot.
    #[serde(default)]
    pub stagger_ms: Vec<u64>,
}

fn client_for(outcome: &str, i: usize, http: std::net::SocketAddr, https: std::net::SocketAddr, tcp: std::net::SocketAddr, tcp2: std::net::SocketAddr) -> Peer {
    let name = format!("{outcome}#{i}");
    let get = |path: &str, host: &str| format!("GET {path} HTTP/1.1\r\nHost: {host}\r\n\r\n").into_bytes();
    let h2get = |path: &str| -> Vec<(String, String)> { vec![(":method".into(), "GET".into()), (":scheme".into(), "https".into()), (":path".into(), path.into()), (":authority".into(), "a.io".into())] };
    let tls = |script: &mut Vec<Step>| {
        script.push(Step::Connect { to: https, from: None });
        script.push(Step::StartTls { sni: "a.io".into(), alpn: vec!["h2".into()] });
        script.push(Step::ExpectHandshake);
        script.push(Step::H2Start { settings: vec![(h2::S_ENABLE_PUSH, 0)], policy: WindowPolicy::Eager });
        script.push(Step::H2Await(H2Cond::PeerSettings));
    };
    let script = match outcome {
        "ok" => vec![Step::Connect { to: http, from: None }, Step::Send { bytes: get("/size/100", "a.io"), splits: vec![] }, Step::ExpectH1 { count: 1, responses: true }, Step::Close, Step::Done],
        "keepalive-idle-until-timeout" => vec![Step::Connect { to: http, from: None }, Step::Send { bytes: get("/size/100", "a.io"), splits: vec![] }, Step::ExpectH1 { count: 1, responses: true }, Step::ExpectEof, Step::Done],
        "client-reset-mid-request" => vec![Step::Connect { to: http, from: None }, Step::Send { bytes: b"POST /size/5 HTTP/1.1\r\nHost: a.io\r\nContent-Length: 100\r\n\r\nabc".to_vec(), splits: vec![] }, Step::Wait { ms: 5 }, Step::Reset, Step::Done],
        "client-close-mid-response" => vec![Step::Connect { to: http, from: None }, Step::Send { bytes: get("/size/300000", "a.io"), splits: vec![] }, Step::ExpectBytes(1000), Step::Close, Step::Done],
        "silent" => vec![Step::Connect { to: http, from: None }, Step::ExpectEof, Step::Done],
        "client-stalls-in-head" => vec![Step::Connect { to: http, from: None }, Step::Send { bytes: b"GET /size/5 HTTP/1.1\r\nHo".to_vec(), splits: vec![] }, Step::ExpectEof, Step::Done],
        "no-route-404" => vec![Step::Connect { to: http, from: None }, Step::Send { bytes: get("/", "nowhere.io"), splits: vec![] }, Step::ExpectH1 { count: 1, responses: true }, Step::Close, Step::Done],
        "backend-refuses-503" => vec![Step::Connect { to: http, from: None }, Step::Send { bytes: get("/", "dead.io"), splits: vec![] }, Step::ExpectH1 { count: 1, responses: true }, Step::Close, Step::Done],
        "backend-dies-mid-response" => vec![Step::Connect { to: http, from: None }, Step::Send { bytes: get("/die/300", "a.io"), splits: vec![] }, Step::ExpectEof, Step::Done],
        "tls-garbage" => vec![Step::Connect { to: https, from: None }, Step::Send { bytes: get("/", "a.io"), splits: vec![] }, Step::ExpectEof, Step::Done],
        "tls-then-silence" => vec![Step::Connect { to: https, from: None }, Step::StartTls { sni: "a.io".into(), alpn: vec!["h2".into()] }, Step::ExpectHandshake, Step::ExpectEof, Step::Done],
        "h2-reset-mid-body" => {
            let mut s = vec![];
            tls(&mut s);
            s.push(Step::H2Headers { stream: 1, headers: h2get("/size/400000"), end_stream: true, continuation_at: None });
            s.push(Step::H2Await(H2Cond::BodyAtLeast(1, 20000)));
            s.push(Step::H2Raw(h2::rst_stream(1, 8)));
            s.push(Step::Wait { ms: 50 });
            s.push(Step::Close);
            s.push(Step::Done);
            s
        }
        "h2-ok" => {
            let mut s = vec![];
            tls(&mut s);
            s.push(Step::H2Headers { stream: 1, headers: h2get("/size/70000"), end_stream: true, continuation_at: None });
            s.push(Step::H2Headers { stream: 3, headers: h2get("/size/5"), end_stream: true, continuation_at: None });
            s.push(Step::H2Await(H2Cond::AllDone(vec![1, 3])));
            s.push(Step::H2Raw(h2::goaway(0, 0)));
            s.push(Step::Close);
            s.push(Step::Done);
            s
        }
        "tcp-session" => vec![Step::Connect { to: tcp, from: None }, Step::Send { bytes: get("/size/50", "x"), splits: vec![] }, Step::ExpectH1 { count: 1, responses: true }, Step::Close, Step::Done],
        // a TCP cluster that has no backend yet: the session cannot be connected
        "tcp-no-backend" => vec![Step::Connect { to: tcp2, from: None }, Step::Send { bytes: get("/size/50", "x"), splits: vec![] }, Step::ExpectEof, Step::Done],
        other => crate::common::machinery_error(&format!("unknown outcome {other}")),
    };
    Peer::client(&name, script)
}

const GAUGES: [&str; 12] = [
    "client.connections",
    "slab.entries",
    "buffer.in_use",
    "http.active_requests",
    "backend.connections",
    "protocol.http",
    "protocol.https",
    "protocol.tcp",
    "protocol.tls.handshake",
    "h2.connection.active_streams",
    "accept_queue.connections",
    "websocket.active_requests",
];

fn gauges_of(sc: &worker::Scenario, id: &str) -> Option<BTreeMap<String, u64>> {
    let r = sc.main.responses.iter().find(|(_, r)| r.id == id && r.status == ResponseStatus::Ok as i32)?;
    let Some(ContentType::WorkerMetrics(m)) = r.1.content.as_ref()?.content_type.as_ref() else { return None };
    let mut out = BTreeMap::new();
    for (k, v) in &m.proxy {
        if let Some(filtered_metrics::Inner::Gauge(g)) = v.inner {
            out.insert(k.clone(), g);
        }
    }
    // backend connection gauges live per cluster / backend
    let mut backend_conns = 0u64;
    for c in m.clusters.values() {
        for b in &c.backends {
            for (k, v) in &b.metrics {
                if k == "backend.connections" || k == "connections" {
                    if let Some(filtered_metrics::Inner::Gauge(g)) = v.inner {
                        backend_conns += g;
                    }
                }
            }
        }
    }
    out.insert("(sum of per-backend connection gauges)".into(), backend_conns);
    Some(out)
}

pub fn run_case(case: &Case, prefix: Vec<u32>, profile: ChoiceProfile) -> Run {
    let http = scen::addr(1, 8080);
    let https = scen::addr(1, 8443);
    let tcp = scen::addr(1, 7070);
    let tcp2 = scen::addr(1, 7071);
    let back = scen::addr(2, 9090);
    let dead = scen::addr(3, 9191);
    // ---- configuration: HTTP + HTTPS + TCP listeners, a live cluster and a dead one
    let mut setup = scen::simple_http(http, back);
    setup.clusters.push(scen::ClusterSetup { cluster: crate::cfgspace::cluster("dead"), hostname: "dead.io".into(), path: PathRule::prefix("/"), backends: vec![("dead1".into(), dead)], headers: vec![] });
    let mut state = scen::http_state(&setup);
    let fa: SocketAddress = https.into();
    let ta: SocketAddress = tcp.into();
    let extra: Vec<RequestType> = vec![
        RequestType::AddHttpsListener(ListenerBuilder::new_https(fa).to_tls(None).unwrap()),
        RequestType::ActivateListener(ActivateListener { address: fa, proxy: ListenerType::Https as i32, from_scm: false }),
        RequestType::AddCertificate(AddCertificate { address: fa, certificate: crate::cfgspace::cert(crate::cfgspace::CERT1, crate::cfgspace::KEY1, &[]), expired_at: None }),
        RequestType::AddHttpsFrontend(RequestHttpFrontend { cluster_id: Some("c1".into()), address: fa, hostname: "a.io".into(), path: PathRule::prefix("/"), position: RulePosition::Tree as i32, ..Default::default() }),
        RequestType::AddTcpListener(ListenerBuilder::new_tcp(ta).to_tcp(None).unwrap()),
        RequestType::ActivateListener(ActivateListener { address: ta, proxy: ListenerType::Tcp as i32, from_scm: false }),
        RequestType::AddCluster(crate::cfgspace::cluster("t1")),
        RequestType::AddTcpFrontend(RequestTcpFrontend { cluster_id: "t1".into(), address: ta, ..Default::default() }),
        RequestType::AddBackend(AddBackend { cluster_id: "t1".into(), backend_id: "tb1".into(), address: back.into(), sticky_id: None, load_balancing_parameters: None, backup: None }),
    ];
    let t2a: SocketAddress = tcp2.into();
    let mut extra = extra;
    extra.extend([
        RequestType::AddTcpListener(ListenerBuilder::new_tcp(t2a).to_tcp(None).unwrap()),
        RequestType::ActivateListener(ActivateListener { address: t2a, proxy: ListenerType::Tcp as i32, from_scm: false }),
        RequestType::AddCluster(crate::cfgspace::cluster("t2")),
        RequestType::AddTcpFrontend(RequestTcpFrontend { cluster_id: "t2".into(), address: t2a, ..Default::default() }),
    ]);
    if case.per_ip {
        for id in ["c1", "dead", "t1", "t2"] {
            let mut c = crate::cfgspace::cluster(id);
            c.max_connections_per_ip = Some(1);
            extra.push(RequestType::AddCluster(c));
        }
    }
    for r in extra {
        if let Err(e) = state.dispatch(&r.into()) {
            crate::common::machinery_error(&format!("C16 scenario state: {e}"));
        }
    }
    let backend = Peer::server("backend", back, vec![Step::ServeH1 { response_head: "HTTP/1.1 200 OK".into(), body: b"ok".to_vec() }]);
    // a warm-up exchange first: several gauges are only published once something happened
    let warmup = Peer::client("warmup", vec![Step::Connect { to: http, from: None }, Step::Send { bytes: b"GET /size/1 HTTP/1.1\r\nHost: a.io\r\nConnection: close\r\n\r\n".to_vec(), splits: vec![] }, Step::ExpectH1 { count: 1, responses: true }, Step::ExpectEof, Step::Close, Step::Done]);
    let mut peers = vec![backend, warmup];
    let mut names: Vec<String> = case.outcomes.clone();
    if case.storm > 0 {
        // twice the limit: every client sends a request and keeps its connection open for a while
        for _ in 0..case.storm * 2 {
            names.push("storm".into());
        }
    }
    for (i, o) in names.iter().enumerate() {
        if o == "storm" {
            peers.push(Peer::client(
                &format!("storm#{i}"),
                vec![Step::Wait { ms: 500 }, Step::Connect { to: http, from: None }, Step::Send { bytes: b"GET /size/10 HTTP/1.1\r\nHost: a.io\r\n\r\n".to_vec(), splits: vec![] }, Step::ExpectH1 { count: 1, responses: true }, Step::Wait { ms: 2000 }, Step::Close, Step::Done],
            ));
        } else {
            let mut p = client_for(o, i, http, https, tcp, tcp2);
            // leave room for the warm-up and the baseline metrics query
            p.script.insert(0, Step::Wait { ms: 500 + case.stagger_ms.get(i).copied().unwrap_or(0) });
            peers.push(p);
        }
    }
    if case.storm > 0 {
        // after the storm: accepting must have resumed
        peers.push(Peer::client(
            "after-storm",
            vec![Step::Wait { ms: 8000 }, Step::Connect { to: http, from: None }, Step::Send { bytes: b"GET /size/10 HTTP/1.1\r\nHost: a.io\r\n\r\n".to_vec(), splits: vec![] }, Step::ExpectH1 { count: 1, responses: true }, Step::Close, Step::Done],
        ));
    }
    if case.per_ip {
        // long after every session ended (and t2 got its backend): one connection per cluster must be admitted
        for (k, (name, to, host)) in [("c1", http, "a.io"), ("t1", tcp, "x"), ("t2", tcp2, "x")].into_iter().enumerate() {
            peers.push(Peer::client(
                &format!("admission-probe:{name}"),
                vec![
                    Step::Wait { ms: 100_000 + 500 * k as u64 },
                    Step::Connect { to, from: None },
                    Step::Send { bytes: format!("GET /size/10 HTTP/1.1\r\nHost: {host}\r\n\r\n").into_bytes(), splits: vec![] },
                    Step::ExpectH1 { count: 1, responses: true },
                    Step::Close,
                    Step::Done,
                ],
            ));
        }
    }
    let q = |id: &str| worker::request(id, RequestType::QueryMetrics(QueryMetricsOptions { list: false, cluster_ids: vec![], backend_ids: vec![], metric_names: vec![], no_clusters: false, workers: false }));
    let script = vec![
        MainStep::AwaitPeerAt { peer: 1, pc: 5 },
        MainStep::Wait { ms: 100 },
        MainStep::Send(q("BASELINE")),
        MainStep::AwaitFinal("BASELINE".into()),
        MainStep::Wait { ms: 90_000 },
        MainStep::Send(worker::request("T2-BACKEND", RequestType::AddBackend(AddBackend { cluster_id: "t2".into(), backend_id: "t2b".into(), address: back.into(), sticky_id: None, load_balancing_parameters: None, backup: None }))),
        MainStep::AwaitFinal("T2-BACKEND".into()),
        MainStep::AwaitPeersFor { ms: 150_000 },
        // every timeout of the configuration has passed by then (front 60 s, back 30 s, request 10 s)
        MainStep::Wait { ms: 70_000 },
        MainStep::Send(q("AFTER")),
        MainStep::AwaitFinal("AFTER".into()),
    ];
    let storm = case.storm;
    let ws = WorkerSetup {
        config: worker::server_config(|c| {
            if storm > 0 {
                c.max_connections = storm as u64;
            }
            c.max_buffers = 500;
        }),
        initial: state,
    };
    let (mut exec, create_err) = worker::run_worker(ws, peers, script, profile, prefix, 400);
    if let Some(e) = create_err {
        crate::common::machinery_error(&format!("worker creation failed: {e}"));
    }
    let mut violations: Vec<(String, String)> = vec![];
    let id = if case.storm > 0 { format!("storm-{}", case.storm) } else { format!("{}{}{}", case.outcomes.join("+"), if case.per_ip { "|per-ip" } else { "" }, if case.stagger_ms.is_empty() { String::new() } else { format!("|starts {:?}", case.stagger_ms) }) };
    let mut flag = |k: String, d: String| violations.push((format!("C16|sessions|{k}"), d));
    if let Some(p) = &exec.subject_panic {
        flag(format!("worker-panic|{id}"), format!("worker panicked: {p}"));
    }
    let end = exec.end.clone();
    let sc = worker::scenario_of(&mut exec);
    let (base, after) = (gauges_of(sc, "BASELINE"), gauges_of(sc, "AFTER"));
    let mut obs = format!("end={end:?}");
    match (&base, &after) {
        (Some(b), Some(a)) => {
            obs.push_str(&format!(" after={a:?}"));
            let mut names: Vec<&String> = b.keys().chain(a.keys()).collect();
            names.sort();
            names.dedup();
            for n in names {
                if !GAUGES.contains(&n.as_str()) && !n.starts_with("(sum") {
                    continue;
                }
                let (bv, av) = (b.get(n).copied().unwrap_or(0), a.get(n).copied().unwrap_or(0));
                if av > (1 << 62) {
                    flag(format!("gauge-underflow:{n}|{id}"), format!("gauge {n} reads {av} (wrapped below zero) once the sessions are over"));
                } else if av != bv {
                    flag(format!("gauge-not-back-to-baseline:{n}|{id}"), format!("gauge {n}: {bv} before the sessions, {av} after they ended and every timeout passed"));
                }
            }
        }
        _ => flag(format!("metrics-query-failed|{id}"), "the worker did not answer QueryMetrics".into()),
    }
    // ---- sessions that must end by themselves did end (reclaimed within their timeouts)
    for p in sc.peers.iter().skip(2) {
        if !p.reached_goal() {
            flag(format!("session-not-reclaimed:{}", p.name.split('#').next().unwrap_or("")), format!("client {} is still waiting at step {} 150 virtual seconds later (eof={} reset={})", p.name, p.pc, p.conn.eof, p.conn.reset));
        }
    }
    // ---- an idle session is reclaimed when its own timeout says so, whatever other timers did meanwhile
    if !case.stagger_ms.is_empty() {
        for (i, o) in case.outcomes.iter().enumerate() {
            let allowed_ms: u64 = match o.as_str() {
                "silent" | "client-stalls-in-head" => 10_000,   // request_timeout
                "keepalive-idle-until-timeout" => 60_000,       // front_timeout
                _ => continue,
            };
            let p = &sc.peers[2 + i];
            let started = 500 + case.stagger_ms.get(i).copied().unwrap_or(0);
            match p.conn.eof_ns.map(|t| (t - crate::interpose::VIRTUAL_EPOCH_NS) / 1_000_000) {
                Some(closed) if closed <= started + allowed_ms + 1_500 => {}
                Some(closed) => flag(format!("idle-session-reclaimed-late:{o}|{id}"), format!("client {} went idle {started} ms into the run with a {allowed_ms} ms timeout and was closed at {closed} ms", p.name)),
                None => flag(format!("idle-session-never-reclaimed:{o}|{id}"), format!("client {} went idle {started} ms into the run with a {allowed_ms} ms timeout and was never closed", p.name)),
            }
        }
    }
    if case.per_ip {
        for p in sc.peers.iter().filter(|p| p.name.starts_with("admission-probe:")) {
            let ok = p.conn.rx.starts_with(b"HTTP/1.1 200");
            if !ok {
                flag(format!("per-ip-slot-not-returned:{}|{id}", p.name.trim_start_matches("admission-probe:")), format!("with one connection per address allowed and every earlier session over, a new connection to cluster {} was not served ({} bytes back, connect_failed={})", p.name.trim_start_matches("admission-probe:"), p.conn.rx.len(), p.connect_failed));
            }
        }
    }
    // ---- the storm: never more than max_connections served at once, and accepting resumes
    if case.storm > 0 {
        // a served client is one that got its response while holding its connection: count how many
        // responses arrived before the first storm client closed (they all hold 2 s)
        let firsts: Vec<u64> = sc.peers.iter().filter(|p| p.name.starts_with("storm#")).filter_map(|p| p.conn.first_rx_ns).collect();
        let earliest = firsts.iter().min().copied().unwrap_or(0);
        let at_once = firsts.iter().filter(|t| **t < earliest + 1_900_000_000).count();
        obs.push_str(&format!(" served_at_once={at_once}"));
        if at_once > case.storm {
            flag(format!("more-than-max-connections-served|{id}"), format!("{at_once} clients were being served at the same time with max_connections = {}", case.storm));
        }
        let served_total = sc.peers.iter().filter(|p| p.name.starts_with("storm#") && !p.conn.rx.is_empty()).count();
        let refused = sc.peers.iter().filter(|p| p.name.starts_with("storm#") && p.conn.rx.is_empty()).count();
        obs.push_str(&format!(" served_total={served_total} unanswered={refused}"));
        match sc.peers.iter().find(|p| p.name == "after-storm") {
            Some(p) if p.conn.rx.starts_with(b"HTTP/1.1 200") => {}
            Some(p) => flag(format!("accepting-did-not-resume|{id}"), format!("a client connecting after the storm was not served ({} bytes, connect_failed={})", p.conn.rx.len(), p.connect_failed)),
            None => {}
        }
    }
    drop(flag);
    if end != End::Finished && violations.is_empty() {
        violations.push((format!("C16|sessions|worker-{}|{id}", format!("{end:?}").to_lowercase()), format!("run ended {end:?}")));
    }
    Run { trace: exec.trace, observation: obs, violations, diverged: exec.diverged }
}

pub fn cases(tier: Tier) -> Vec<Case> {
    let mut v = vec![];
    for o in OUTCOMES {
        v.push(Case { outcomes: vec![o.into()], storm: 0, per_ip: false, stagger_ms: vec![] });
    }
    let pairs: Vec<(usize, usize)> = (0..OUTCOMES.len()).flat_map(|i| (i..OUTCOMES.len()).map(move |j| (i, j))).collect();
    for (i, j) in pairs {
        if tier == Tier::Quick && (i + j) % 3 != 0 {
            continue;
        }
        v.push(Case { outcomes: vec![OUTCOMES[i].into(), OUTCOMES[j].into()], storm: 0, per_ip: false, stagger_ms: vec![] });
    }
    v.push(Case { outcomes: OUTCOMES.iter().map(|s| s.to_string()).collect(), storm: 0, per_ip: false, stagger_ms: vec![] });
    for s in [1usize, 3] {
        v.push(Case { outcomes: vec![], storm: s, per_ip: false, stagger_ms: vec![] });
    }
    // idle sessions whose deadlines share a slot of the timer wheel (one revolution = 25.6 s), and a control pair that does not
    for (outcomes, starts) in [
        (vec!["silent", "silent"], vec![0u64, 25_600]),
        (vec!["silent", "silent", "silent"], vec![0, 25_600, 51_200]),
        (vec!["silent", "silent"], vec![0, 12_800]),
        (vec!["keepalive-idle-until-timeout", "keepalive-idle-until-timeout"], vec![0, 25_600]),
        (vec!["keepalive-idle-until-timeout", "silent", "client-stalls-in-head"], vec![0, 24_400, 50_000]),
        (vec!["client-stalls-in-head", "silent"], vec![25_600, 0]),
    ] {
        v.push(Case { outcomes: outcomes.into_iter().map(String::from).collect(), storm: 0, per_ip: false, stagger_ms: starts });
    }
    // per-address limits: each outcome twice side by side plus an HTTP exchange that shuffles session slots
    for o in OUTCOMES {
        v.push(Case { outcomes: vec![o.into(), o.into(), "ok".into(), o.into()], storm: 0, per_ip: true, stagger_ms: vec![] });
    }
    v
}

fn profile() -> ChoiceProfile {
    ChoiceProfile { read_faults: vec![FdClass::Front, FdClass::Back], write_faults: vec![FdClass::Front, FdClass::Back], max_points_per_class: 3, event_order: false, ..Default::default() }
}

pub fn run_item(tier: Tier, item: usize) -> ItemResult {
    let all = cases(tier);
    let case = all[item].clone();
    let mut violations = vec![];
    let c2 = case.clone();
    let stats = explore::search(
        if tier == Tier::Quick { 0 } else { 1 },
        if tier == Tier::Quick { 3 } else { 40 },
        |prefix| {
            let c = c2.clone();
            let p = prefix.to_vec();
            match worker::isolated(move || run_case(&c, p.clone(), profile())) {
                Ok(r) => r,
                Err(status) => {
                    let mut r = super::c01::crashed_run(prefix, &status);
                    for v in r.violations.iter_mut() {
                        v.0 = v.0.replace("C01|any", "C16|sessions");
                    }
                    r
                }
            }
        },
        |vector, key, desc| {
            let weight = vector.iter().filter(|c| **c != 0).count() as u64 * 1000 + case.outcomes.len() as u64 + case.storm as u64;
            violations.push((key.to_owned(), desc.to_owned(), json!({"part": "b", "case": case, "choices": vector}), weight));
        },
    );
    let mut counters = BTreeMap::new();
    counters.insert("sim_executions".to_owned(), stats.executions);
    ItemResult { item, label: format!("{case:?}"), stats, violations, counters, sample: json!({"part": "b", "case": case}) }
}

pub fn run(ctx: &Ctx) -> Coverage {
    let tier = ctx.tier();
    let n = cases(tier).len();
    let results = explore::run_sharded(ctx, n, "c16b", |i| run_item(tier, i));
    super::c01::summarize(ctx, &results, "13 session outcomes (complete; keep-alive idle until front_timeout; client reset mid-request; client close mid-response; client stalling in its request head; 404; backend refusing; backend dying mid-response; plaintext sent to the TLS listener; TLS handshake then silence; HTTP/2 stream reset mid-body; HTTP/2 streams completing; TCP session) alone, in pairs and all together on an unmodified worker with HTTP, HTTPS and TCP listeners; connection storms of twice max_connections. The worker's gauges (client.connections, slab.entries, buffer.in_use, http.active_requests, backend.connections, protocol.*, h2 active streams, accept queue), read over the command channel before the sessions and 70 virtual seconds after the last one ended, must be equal and never wrapped below zero; every session must be over within the configured timeouts; never more than max_connections clients served at once and a client connecting after the storm is served")
}

pub fn replay_case(ctx: &Ctx, case: &Value) -> Coverage {
    let c: Case = serde_json::from_value(case["case"].clone()).unwrap_or_else(|e| crate::common::machinery_error(&format!("bad replay case: {e}")));
    let choices: Vec<u32> = serde_json::from_value(case["choices"].clone()).unwrap_or_default();
    let r = worker::isolated(move || run_case(&c, choices, profile())).unwrap_or_else(|s| super::c01::crashed_run(&[], &s));
    for (k, d) in r.violations {
        ctx.violation(k, d, case.clone());
    }
    Coverage { states: 1, transitions: 1, evaluations: 1, distinct_nontrivial: 1, distinct_outcomes: 1, rule: "replay".into(), ..Default::default() }
}

pub fn debug(args: &crate::common::Args) {
    let outcomes: Vec<String> = args.extra.get("outcomes").map(|s| s.split(',').map(|x| x.to_owned()).collect()).unwrap_or_default();
    let storm: usize = args.extra.get("storm").and_then(|s| s.parse().ok()).unwrap_or(0);
    let stagger_ms: Vec<u64> = args.extra.get("starts").map(|s| s.split(',').filter_map(|x| x.parse().ok()).collect()).unwrap_or_default();
    let c = Case { outcomes, storm, per_ip: args.extra.contains_key("perip"), stagger_ms };
    println!("{c:?}");
    let r = worker::isolated(move || run_case(&c, vec![], profile())).unwrap();
    println!("obs={}", r.observation);
    println!("violations={:#?}", r.violations);
}
