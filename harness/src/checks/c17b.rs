//! C17(b) — real TLS handshakes and strict SNI routing after certificate
//! histories applied to a live worker over its command channel.

use std::collections::BTreeMap;

use serde_json::{Value, json};
use sozu_command_lib::{
    config::ListenerBuilder,
    proto::command::{
        ActivateListener, AddBackend, AddCertificate, ListenerType, PathRule, RemoveCertificate, ReplaceCertificate, RequestHttpFrontend, ResponseStatus, RulePosition, SocketAddress, request::RequestType,
    },
    state::ConfigState,
};

use super::c17::{CERTS, Op, PROBES, alphabet, names_of, op_name, spec_apply, spec_lookup};
use crate::{
    cfgspace::{self, KEY1},
    common::{Coverage, Ctx, Tier},
    sim::{
        ChoiceProfile, End,
        explore::{self, ItemResult, Run},
        h1, scen,
        peer::{Peer, Step},
        worker::{self, MainStep, WorkerSetup},
    },
};

/// hosts that have a frontend (all on cluster c1)
const FRONTENDS: [&str; 5] = ["a.io", "b.a.io", "c.a.io", "tenant-a.example", "z.org"];

fn covered(names: &[&str], host: &str) -> bool {
    names.iter().any(|n| {
        *n == host
            || n.strip_prefix('*').is_some_and(|suffix| host.strip_suffix(suffix).is_some_and(|p| !p.is_empty() && !p.contains('.')))
    })
}

fn request_of(op: Op, front: SocketAddress) -> RequestType {
    let add = |i: u8| {
        let k = &CERTS[i as usize];
        AddCertificate { address: front, certificate: cfgspace::cert(k.pem, k.key, k.names), expired_at: k.exp }
    };
    match op {
        Op::Add(i) => RequestType::AddCertificate(add(i)),
        Op::Remove(i) => RequestType::RemoveCertificate(RemoveCertificate { address: front, fingerprint: cfgspace::fp(CERTS[i as usize].pem) }),
        Op::Replace(old, new) | Op::ReplaceUp(old, new) => {
            let a = add(new);
            let fp = cfgspace::fp(CERTS[old as usize].pem);
            RequestType::ReplaceCertificate(ReplaceCertificate { address: front, new_certificate: a.certificate, old_fingerprint: if matches!(op, Op::ReplaceUp(..)) { fp.to_ascii_uppercase() } else { fp }, new_expired_at: a.expired_at })
        }
        Op::ReplaceBad(old) => RequestType::ReplaceCertificate(ReplaceCertificate {
            address: front,
            new_certificate: cfgspace::cert("-----BEGIN CERTIFICATE-----\nnot base64\n-----END CERTIFICATE-----\n", KEY1, &[]),
            old_fingerprint: cfgspace::fp(CERTS[old as usize].pem),
            new_expired_at: None,
        }),
    }
}

pub fn run_history(h: &[Op], prefix: Vec<u32>) -> Run {
    let front = scen::addr(1, 8443);
    let back = scen::addr(2, 9090);
    let fa: SocketAddress = front.into();
    // ---- an HTTPS listener without certificates, five frontends on one cluster
    let mut state = ConfigState::new();
    let mut reqs = vec![
        RequestType::AddHttpsListener(ListenerBuilder::new_https(fa).to_tls(None).unwrap()),
        RequestType::ActivateListener(ActivateListener { address: fa, proxy: ListenerType::Https as i32, from_scm: false }),
        RequestType::AddCluster(cfgspace::cluster("c1")),
        RequestType::AddBackend(AddBackend { cluster_id: "c1".into(), backend_id: "b1".into(), address: back.into(), sticky_id: None, load_balancing_parameters: None, backup: None }),
    ];
    for host in FRONTENDS {
        reqs.push(RequestType::AddHttpsFrontend(RequestHttpFrontend { cluster_id: Some("c1".into()), address: fa, hostname: host.into(), path: PathRule::prefix("/"), position: RulePosition::Tree as i32, ..Default::default() }));
    }
    for r in reqs {
        if let Err(e) = state.dispatch(&r.into()) {
            crate::common::machinery_error(&format!("C17 scenario state: {e}"));
        }
    }
    // ---- the history goes over the command channel
    let mut script = vec![];
    for (i, op) in h.iter().enumerate() {
        let id = format!("OP-{i}");
        script.push(MainStep::Send(worker::request(&id, request_of(*op, fa))));
        script.push(MainStep::AwaitFinal(id));
    }
    script.push(MainStep::AwaitPeersFor { ms: 60_000 });
    // ---- one TLS client per probe: handshake, then two requests (own name, a.io)
    let mut peers = vec![Peer::server("backend", back, vec![Step::ServeH1 { response_head: "HTTP/1.1 200 OK".into(), body: b"ok".to_vec() }])];
    let mut probes: Vec<String> = PROBES.iter().map(|p| p.to_string()).collect();
    probes.push("B.A.IO".into());
    for (pi, p) in probes.iter().enumerate() {
        let get = |host: &str, tag: &str| format!("GET /size/5 HTTP/1.1\r\nHost: {host}\r\nX-Probe: {pi}-{tag}\r\n\r\n").into_bytes();
        peers.push(Peer::client(
            &format!("probe:{p}"),
            vec![
                Step::Wait { ms: 300 },
                Step::Connect { to: front, from: None },
                Step::StartTls { sni: p.clone(), alpn: vec!["http/1.1".into()] },
                Step::ExpectHandshake,
                Step::Send { bytes: get(&p.to_ascii_lowercase(), "own"), splits: vec![] },
                Step::ExpectH1 { count: 1, responses: true },
                Step::Send { bytes: get("a.io", "cross"), splits: vec![] },
                Step::ExpectH1 { count: 2, responses: true },
                Step::Close,
                Step::Done,
            ],
        ));
    }
    let ws = WorkerSetup { config: worker::server_config(|c| c.max_buffers = 200), initial: state };
    let (mut exec, create_err) = worker::run_worker(ws, peers, script, ChoiceProfile::default(), prefix, 200);
    if let Some(e) = create_err {
        crate::common::machinery_error(&format!("worker creation failed: {e}"));
    }
    let mut violations: Vec<(String, String)> = vec![];
    let mut flag = |k: String, d: String| violations.push((format!("C17|handshake|{k}"), d));
    if let Some(p) = &exec.subject_panic {
        flag("worker-panic".into(), format!("worker panicked: {p}"));
    }
    let end = exec.end.clone();
    let sc = worker::scenario_of(&mut exec);
    // reference: which certificates are loaded, judged from the answers the worker gave
    let mut live: Vec<u8> = vec![];
    for (i, op) in h.iter().enumerate() {
        let ok = sc.main.responses.iter().any(|(_, r)| r.id == format!("OP-{i}") && r.status == ResponseStatus::Ok as i32);
        let mut next = live.clone();
        spec_apply(&mut next, *op);
        match (ok, *op) {
            (true, Op::ReplaceBad(_)) => flag("bad-replace-accepted".into(), format!("step {i}: a replacement with an unparsable certificate was answered OK")),
            (true, _) => live = next,
            // a refused command must leave the certificates as they were: `live` is unchanged
            (false, _) => {}
        }
    }
    let fps: Vec<String> = (0..CERTS.len()).map(|i| sha256_of_pem(CERTS[i].pem)).collect();
    let backend_seen: String = sc.peers[0].conns().iter().map(|c| String::from_utf8_lossy(&c.rx).into_owned()).collect();
    let mut obs = format!("end={end:?} live={live:?}");
    for (pi, p) in probes.iter().enumerate() {
        let peer = &sc.peers[1 + pi];
        let name = p.to_ascii_lowercase();
        let want = spec_lookup(&live, &name);
        let got: i32 = match &peer.conn.tls_peer_cert {
            None => -3,
            Some(fp) => fps.iter().position(|f| f == fp).map(|i| i as i32).unwrap_or(-1),
        };
        obs.push_str(&format!(" {p}={got}"));
        if got == -3 {
            flag(format!("handshake-failed:{name}"), format!("no certificate was presented for server name {p} (tls error {:?}); loaded: {:?}", peer.conn.tls_error, live.iter().map(|i| CERTS[*i as usize].name).collect::<Vec<_>>()));
            continue;
        }
        // sozu's built-in default certificate is the same file as K1: presenting it is
        // "the default" whenever the reference expects the default
        let is_default = want.is_empty() && (got == -1 || got == 0);
        let ok = if want.is_empty() { is_default } else { want.iter().any(|w| *w as i32 == got) };
        if !ok {
            let class = if got == 0 && !live.contains(&0) {
                "default-although-covered"
            } else if got >= 0 && !live.contains(&(got as u8)) {
                "served-removed"
            } else if got == -1 {
                "default-although-covered"
            } else if want.is_empty() {
                "served-non-covering"
            } else {
                "wrong-precedence"
            };
            flag(
                format!("{class}:{name}"),
                format!(
                    "server name {p}: served {} but the loaded set {:?} requires {:?}",
                    if got >= 0 { CERTS[got as usize].name } else { "the default certificate" },
                    live.iter().map(|i| CERTS[*i as usize].name).collect::<Vec<_>>(),
                    want.iter().map(|i| CERTS[*i as usize].name).collect::<Vec<_>>()
                ),
            );
        }
        // ---- strict SNI binding: a request is routed only if the served certificate covers its authority
        // (the default certificate is authoritative for nothing)
        let served_names: Vec<&str> = if got >= 0 && !is_default { names_of(got as u8) } else { vec![] };
        let (resps, _, _) = h1::parse_all(&peer.conn.rx, true, true);
        for (ri, (host, tag)) in [(name.as_str(), "own"), ("a.io", "cross")].iter().enumerate() {
            let marker = format!("X-Probe: {pi}-{tag}");
            let reached = backend_seen.contains(&marker);
            // documented exception (lib/src/https.rs, SAN snapshot): when no loaded certificate
            // covers the server name the default certificate is served and the legacy rule
            // applies: the request is accepted iff its authority equals the server name
            let may = if is_default { *host == name } else { covered(&served_names, host) };
            let status = resps.get(ri).and_then(|r| r.status());
            if reached && !may {
                flag(format!("routed-outside-certificate:{tag}"), format!("connection with server name {p} was served {}; its request for authority {host} reached the backend although the certificate does not cover it", if got >= 0 { CERTS[got as usize].name } else { "the default certificate" }));
            }
            if may && FRONTENDS.contains(host) && !reached && status.is_some() {
                flag(format!("covered-authority-refused:{tag}"), format!("connection with server name {p} (served {}): the request for {host}, covered by the certificate and configured as a frontend, was answered {status:?} without reaching the backend", if got >= 0 { CERTS[got as usize].name } else { "?" }));
            }
        }
    }
    drop(flag);
    if end != End::Finished && violations.is_empty() {
        violations.push(("C17|handshake|worker-not-finished".into(), format!("run ended {end:?}")));
    }
    Run { trace: exec.trace, observation: obs, violations, diverged: exec.diverged }
}

fn sha256_of_pem(pem: &str) -> String {
    // what the client computes: SHA-256 of the DER of the leaf
    cfgspace::fp(pem)
}

/// one shortest history per distinct resolver state reachable within the depth
fn histories(tier: Tier) -> Vec<Vec<Op>> {
    let alpha = alphabet();
    let depth = if tier == Tier::Quick { 2 } else { 3 };
    let mut out: Vec<Vec<Op>> = vec![vec![]];
    let mut frontier: Vec<Vec<Op>> = vec![vec![]];
    for _ in 0..depth {
        let mut next = vec![];
        for h in &frontier {
            for &op in &alpha {
                if let Op::Replace(a, b) | Op::ReplaceUp(a, b) = op {
                    let mut live = vec![];
                    for &o in h.iter() {
                        spec_apply(&mut live, o);
                    }
                    if a == b && !live.contains(&a) {
                        continue;
                    }
                }
                let mut n = h.clone();
                n.push(op);
                next.push(n);
            }
        }
        out.extend(next.iter().cloned());
        frontier = next;
    }
    out
}

pub fn run_item(tier: Tier, item: usize) -> ItemResult {
    let all = histories(tier);
    let h = all[item].clone();
    let mut violations = vec![];
    let h2 = h.clone();
    let stats = explore::search(
        0,
        2,
        |prefix| {
            let hh = h2.clone();
            let p = prefix.to_vec();
            match worker::isolated(move || run_history(&hh, p.clone())) {
                Ok(r) => r,
                Err(status) => {
                    let mut r = super::c01::crashed_run(prefix, &status);
                    for v in r.violations.iter_mut() {
                        v.0 = v.0.replace("C01|any", "C17|handshake");
                    }
                    r
                }
            }
        },
        |vector, key, desc| {
            violations.push((key.to_owned(), desc.to_owned(), json!({"part": "b", "history": h, "names": h.iter().map(|o| op_name(*o)).collect::<Vec<_>>(), "choices": vector}), h.len() as u64));
        },
    );
    let mut counters = BTreeMap::new();
    counters.insert("sim_executions".to_owned(), stats.executions);
    ItemResult { item, label: format!("{:?}", h.iter().map(|o| op_name(*o)).collect::<Vec<_>>()), stats, violations, counters, sample: json!({"part": "b", "history": h}) }
}

pub fn run(ctx: &Ctx) -> Coverage {
    let tier = ctx.tier();
    let n = histories(tier).len();
    let results = explore::run_sharded(ctx, n, "c17b", |i| run_item(tier, i));
    super::c01::summarize(ctx, &results, "every add / remove / replace history up to depth 2 (quick) / 3 (thorough) over the 5 certificates, sent to an unmodified worker over its command channel; then one real TLS handshake per server name (8 probes + an upper-case spelling), each followed by two HTTP/1.1 requests (authority = the server name; authority = a.io). The certificate presented (SHA-256 of the leaf) must be the one the set-based reference selects from the certificates the worker acknowledged (exact over wildcard, longest-lived among equals, default only when nothing covers the name, never a removed one); a request reaches the backend only if the certificate served on its connection covers its authority, and is not refused when it does")
}

pub fn replay_case(ctx: &Ctx, case: &Value) -> Coverage {
    let h: Vec<Op> = serde_json::from_value(case["history"].clone()).unwrap_or_else(|e| crate::common::machinery_error(&format!("bad replay history: {e}")));
    let r = worker::isolated(move || run_history(&h, vec![])).unwrap_or_else(|s| super::c01::crashed_run(&[], &s));
    for (k, d) in r.violations {
        ctx.violation(k, d, case.clone());
    }
    Coverage { states: 1, transitions: 1, evaluations: 1, distinct_nontrivial: 1, distinct_outcomes: 1, rule: "replay".into(), ..Default::default() }
}

pub fn debug(args: &crate::common::Args) {
    let all = histories(args.tier);
    let item: usize = args.extra.get("item").and_then(|s| s.parse().ok()).unwrap_or(0);
    let h = all[item].clone();
    println!("{} histories; {:?}", all.len(), h.iter().map(|o| op_name(*o)).collect::<Vec<_>>());
    let r = worker::isolated(move || run_history(&h, vec![])).unwrap();
    println!("obs={}", r.observation);
    println!("violations={:#?}", r.violations);
}
