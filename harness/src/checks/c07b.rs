//! C07(b) — a command the worker answers with a failure leaves no trace in
//! what the worker *does*.
//!
//! Differential oracle, no hand-written expectation: for a bootstrap state B,
//! a command X the worker refuses and an accepted follow-up A,
//!
//!     behaviour(B ; X)      must equal  behaviour(B)
//!     behaviour(B ; X ; A)  must equal  behaviour(B ; A)
//!     behaviour(B ; A ; X)  must equal  behaviour(B ; A)
//!
//! where behaviour is what clients, backends and queries observe afterwards:
//! the answers to routed / unrouted / denied requests over HTTP and HTTPS
//! (status line, header fields, body), the certificate served, what reaches
//! the backends, when a silent or half-spoken client is timed out (virtual
//! time), and the worker's answers to the view queries. X ranges over the
//! whole command alphabet (every command is tried, the ones the worker
//! answers with a failure are kept) plus cluster definitions whose custom
//! answers are partly valid.

use std::collections::{BTreeMap, BTreeSet};

use serde_json::{Value, json};
use sozu_command_lib::{
    proto::command::{QueryClustersHashes, ResponseStatus, SoftStop, Status, UpdateHttpListenerConfig, request::RequestType},
    state::ConfigState,
};

use super::c08;
use crate::{
    cfgspace::{self, Sym},
    common::{Coverage, Ctx, Tier},
    sim::{
        ChoiceProfile, End,
        explore::{self, ItemResult},
        h1,
        peer::{Peer, Step},
        worker::{self, MainStep, WorkerSetup},
    },
};

fn tags(kv: &[(&str, &str)]) -> BTreeMap<String, String> {
    kv.iter().map(|(k, v)| (k.to_string(), v.to_string())).collect()
}

const GOOD_503: &str = "HTTP/1.1 503 Service Unavailable\r\nCache-Control: no-cache\r\nConnection: close\r\nX-Custom: refused-one\r\n\r\ncustom 503 of a refused command";
const GOOD_404: &str = "HTTP/1.1 404 Not Found\r\nCache-Control: no-cache\r\nConnection: close\r\nX-Custom: refused-one\r\n\r\ncustom 404 of a refused command";
/// a template for 504 whose status line says 200: refused by the template compiler
const BAD_504: &str = "HTTP/1.1 200 OK\r\nConnection: close\r\n\r\n";
const BAD_502: &str = "not http at all";
const OTHER_503: &str = "HTTP/1.1 503 Service Unavailable\r\nCache-Control: no-cache\r\nConnection: close\r\nX-Custom: accepted-one\r\n\r\ncustom 503 of an accepted command";

/// the alphabet of C08 plus cluster definitions whose answers are partly valid
pub fn alphabet() -> Vec<Sym> {
    let mut v = c08::alphabet();
    let mut add = |name: &str, f: &dyn Fn(&mut sozu_command_lib::proto::command::Cluster)| {
        let mut c = cfgspace::cluster("c1");
        f(&mut c);
        v.push(Sym { name: name.to_owned(), req: RequestType::AddCluster(c).into(), invalid_twin: false });
    };
    add("AddCluster(c1,answers 503 good + 504 bad)", &|c| c.answers = tags(&[("503", GOOD_503), ("504", BAD_504)]));
    add("AddCluster(c1,answers 502 bad + 503 good)", &|c| c.answers = tags(&[("502", BAD_502), ("503", GOOD_503)]));
    add("AddCluster(c1,answers 404 good + 503 good + 504 bad)", &|c| c.answers = tags(&[("404", GOOD_404), ("503", GOOD_503), ("504", BAD_504)]));
    add("AddCluster(c1,answer_503 good + answers 504 bad)", &|c| {
        c.answer_503 = Some(GOOD_503.to_owned());
        c.answers = tags(&[("504", BAD_504)]);
    });
    add("AddCluster(c1,sticky+redirect+answers 504 bad)", &|c| {
        c.sticky_session = true;
        c.https_redirect = true;
        c.answers = tags(&[("504", BAD_504)]);
    });
    add("AddCluster(c1,hrw+max_conn+answers 502 bad)", &|c| {
        c.load_balancing = sozu_command_lib::proto::command::LoadBalancingAlgorithms::Hrw as i32;
        c.max_connections_per_ip = Some(1);
        c.answers = tags(&[("502", BAD_502)]);
    });
    add("AddCluster(c1,http2+answers 504 bad)", &|c| {
        c.http2 = Some(true);
        c.answers = tags(&[("504", BAD_504)]);
    });
    add("AddCluster(c1,health check+answers 504 bad)", &|c| {
        c.health_check = Some(cfgspace::health("/refused-health", 1));
        c.answers = tags(&[("504", BAD_504)]);
    });
    add("AddCluster(c1,least loaded+answers 504 bad)", &|c| {
        c.load_balancing = sozu_command_lib::proto::command::LoadBalancingAlgorithms::LeastLoaded as i32;
        c.answers = tags(&[("504", BAD_504)]);
    });
    add("AddCluster(c1,answers 503 other)", &|c| c.answers = tags(&[("503", OTHER_503)]));
    // listener patches: good fields next to a template that does not compile
    let mut patch = UpdateHttpListenerConfig { address: cfgspace::a4(), ..Default::default() };
    patch.front_timeout = Some(11);
    patch.request_timeout = Some(3);
    patch.sticky_name = Some("REFUSED".to_owned());
    patch.answers = tags(&[("404", GOOD_404), ("504", BAD_504)]);
    v.push(Sym { name: "UpdateHttpListener(timeouts,sticky_name,answers 404 good + 504 bad)".into(), req: RequestType::UpdateHttpListener(patch).into(), invalid_twin: false });
    let mut patch = sozu_command_lib::proto::command::UpdateHttpsListenerConfig { address: cfgspace::a6(), ..Default::default() };
    patch.request_timeout = Some(3);
    patch.sticky_name = Some("REFUSED".to_owned());
    patch.sozu_id_header = Some("X-Refused".to_owned());
    patch.answers = tags(&[("503", GOOD_503), ("504", BAD_504)]);
    v.push(Sym { name: "UpdateHttpsListener(request_timeout,sticky_name,sozu_id_header,answers 503 good + 504 bad)".into(), req: RequestType::UpdateHttpsListener(patch).into(), invalid_twin: false });
    let mut patch = sozu_command_lib::proto::command::UpdateHttpsListenerConfig { address: cfgspace::a6(), ..Default::default() };
    patch.request_timeout = Some(3);
    patch.sozu_id_header = Some("X-Refused".to_owned());
    patch.answers = tags(&[("503", GOOD_503)]);
    patch.hsts = Some(sozu_command_lib::proto::command::HstsConfig { enabled: None, max_age: Some(5), ..Default::default() });
    v.push(Sym { name: "UpdateHttpsListener(request_timeout,sozu_id_header,answers 503 good,hsts without enabled)".into(), req: RequestType::UpdateHttpsListener(patch).into(), invalid_twin: false });
    v
}

/// bootstrap states (names from the alphabet)
fn bases() -> Vec<Vec<&'static str>> {
    let common = vec![
        "AddHttpListener(a4,default)",
        "ActivateListener(http)",
        "AddHttpsListener(a6,default)",
        "ActivateListener(https)",
        "AddCertificate(a6,cert1)",
        "AddCluster(c1)",
        "AddHttpFrontend(f1)",
        "AddHttpFrontend(f3 deny)",
        "AddHttpsFrontend(g1)",
    ];
    let mut with_backend = common.clone();
    with_backend.push("AddBackend(c1,b1@1)");
    let mut two_backends = with_backend.clone();
    two_backends.push("AddBackend(c1,b1@2)");
    vec![common, with_backend, two_backends]
}

/// accepted follow-ups / lead-ins
fn companions() -> Vec<Vec<&'static str>> {
    vec![
        vec![],
        vec!["AddCluster(c1)"],
        vec!["AddCluster(c1,answers 503 other)"],
        vec!["RemoveCluster(c1)", "AddCluster(c1)"],
        vec!["UpdateHttpListener(front_timeout=7)"],
        vec!["AddBackend(c1,b1@2)"],
    ]
}

#[derive(Clone, Debug, serde::Serialize, serde::Deserialize)]
pub struct Observed {
    /// per command of the sequence: did the worker answer OK
    pub accepted: Vec<bool>,
    pub behaviour: Vec<(String, String)>,
    pub problems: Vec<String>,
}

fn sym<'a>(alpha: &'a [Sym], name: &str) -> &'a Sym {
    alpha.iter().find(|s| s.name == name).unwrap_or_else(|| crate::common::machinery_error(&format!("unknown symbol {name}")))
}

/// identifiers sozu draws per request and per connection, and the client's ephemeral port
fn mask(s: &str, ports: &[u16]) -> String {
    let mut out = String::with_capacity(s.len());
    let bytes = s.as_bytes();
    let mut i = 0;
    let is_ulid = |b: u8| b.is_ascii_digit() || (b.is_ascii_uppercase() && !b"ILOU".contains(&b));
    while i < bytes.len() {
        if is_ulid(bytes[i]) && (i == 0 || !bytes[i - 1].is_ascii_alphanumeric()) {
            let mut j = i;
            while j < bytes.len() && is_ulid(bytes[j]) {
                j += 1;
            }
            if j - i == 26 && (j == bytes.len() || !bytes[j].is_ascii_alphanumeric()) {
                out.push_str("<ulid>");
                i = j;
                continue;
            }
        }
        out.push(bytes[i] as char);
        i += 1;
    }
    for p in ports {
        out = out.replace(&format!(":{p}"), ":<port>").replace(&format!("={p}"), "=<port>");
    }
    out
}

fn show_message(m: &h1::Message) -> String {
    let mut s = format!("{:?} |", m.start_line);
    for (n, v) in &m.headers {
        s.push_str(&format!(" {n}: {v} |"));
    }
    s.push_str(&format!(" body[{}]={:?}", m.body.len(), String::from_utf8_lossy(&m.body[..m.body.len().min(2000)])));
    s
}

pub fn observe(base: usize, seq: &[String]) -> Observed {
    let alpha = alphabet();
    let mut initial = ConfigState::new();
    for n in &bases()[base] {
        if let Err(e) = initial.dispatch(&sym(&alpha, n).req) {
            crate::common::machinery_error(&format!("base state: {n}: {e}"));
        }
    }
    let mut script = vec![];
    for (i, n) in seq.iter().enumerate() {
        let id = format!("SEQ-{i}");
        script.push(MainStep::Send(sozu_command_lib::proto::command::WorkerRequest { id: id.clone(), content: sym(&alpha, n).req.clone() }));
        script.push(MainStep::AwaitFinal(id));
    }
    let a4: std::net::SocketAddr = cfgspace::a4().into();
    let a6: std::net::SocketAddr = cfgspace::a6().into();
    let b1: std::net::SocketAddr = cfgspace::b1().into();
    let b2: std::net::SocketAddr = cfgspace::b2().into();
    let get = |host: &str, path: &str| format!("GET {path} HTTP/1.1\r\nHost: {host}\r\nConnection: close\r\nCookie: SOZUBALANCEID=nobody\r\n\r\n").into_bytes();
    let http_probe = |name: &str, host: &str, path: &str, at: u64| {
        Peer::client(name, vec![Step::Wait { ms: at }, Step::Connect { to: a4, from: None }, Step::Send { bytes: get(host, path), splits: vec![] }, Step::ExpectH1 { count: 1, responses: true }, Step::Close, Step::Done])
    };
    let peers = vec![
        Peer::server("backend-b1", b1, vec![Step::ServeH1 { response_head: "HTTP/1.1 200 OK".into(), body: b"from b1".to_vec() }]),
        Peer::server("backend-b2", b2, vec![Step::ServeH1 { response_head: "HTTP/1.1 200 OK".into(), body: b"from b2".to_vec() }]),
        http_probe("routed", "a.io", "/", 50),
        http_probe("routed-again", "a.io", "/x", 60),
        http_probe("routed-3", "a.io", "/y", 62),
        http_probe("routed-4", "a.io", "/z", 64),
        http_probe("unrouted", "nowhere.io", "/", 70),
        http_probe("denied", "sub.a.io", "/rx", 80),
        Peer::client(
            "tls",
            vec![
                Step::Wait { ms: 90 },
                Step::Connect { to: a6, from: None },
                Step::StartTls { sni: "a.io".into(), alpn: vec!["http/1.1".into()] },
                Step::ExpectHandshake,
                Step::Send { bytes: get("a.io", "/"), splits: vec![] },
                Step::ExpectH1 { count: 1, responses: true },
                Step::Close,
                Step::Done,
            ],
        ),
        Peer::client("silent", vec![Step::Wait { ms: 100 }, Step::Connect { to: a4, from: None }, Step::ExpectEof, Step::Done]),
        Peer::client("half-spoken", vec![Step::Wait { ms: 110 }, Step::Connect { to: a4, from: None }, Step::Send { bytes: b"GET / HTTP/1.1\r\nHost: a.io\r\n".to_vec(), splits: vec![] }, Step::ExpectEof, Step::Done]),
    ];
    script.push(MainStep::Wait { ms: 150 });
    script.push(MainStep::AwaitPeersFor { ms: 200_000 });
    let queries: Vec<(&str, RequestType)> = vec![
        ("Q-HASHES", RequestType::QueryClustersHashes(QueryClustersHashes {})),
        ("Q-C1", RequestType::QueryClusterById("c1".into())),
        ("Q-CERTS", RequestType::QueryCertificatesFromWorkers(Default::default())),
        ("Q-STATUS", RequestType::Status(Status {})),
    ];
    for (id, r) in &queries {
        script.push(MainStep::Send(worker::request(id, r.clone())));
        script.push(MainStep::AwaitFinal((*id).to_owned()));
    }
    script.push(MainStep::Send(worker::request("STOP", RequestType::SoftStop(SoftStop {}))));
    script.push(MainStep::AwaitFinal("STOP".into()));
    script.push(MainStep::Wait { ms: 3000 });
    let setup = WorkerSetup { config: worker::server_config(|_| {}), initial };
    let (mut exec, create_err) = worker::run_worker(setup, peers, script, ChoiceProfile::default(), vec![], 400);
    if let Some(e) = create_err {
        crate::common::machinery_error(&format!("worker creation failed: {e}"));
    }
    let mut problems = vec![];
    if let Some(p) = &exec.subject_panic {
        problems.push(format!("worker panicked: {p}"));
    }
    let end = exec.end.clone();
    if end != End::Finished {
        problems.push(format!("run ended {end:?}"));
    }
    let sc = worker::scenario_of(&mut exec);
    let mut accepted = vec![];
    for i in 0..seq.len() {
        let f = sc.main.final_for(&format!("SEQ-{i}"));
        accepted.push(f.first().is_some_and(|r| r.status == ResponseStatus::Ok as i32));
    }
    let ports: Vec<u16> = sc.peers.iter().filter_map(|p| p.conn.local_addr().map(|a| a.port())).collect();
    let mut behaviour: Vec<(String, String)> = vec![];
    for p in &sc.peers[..2] {
        let mut all = vec![];
        for (ci, conn) in p.conns().iter().enumerate() {
            let (msgs, _, _) = h1::parse_all(&conn.rx, false, true);
            for m in msgs {
                all.push(format!("conn {ci}: {}", show_message(&m)));
            }
        }
        behaviour.push((format!("reaches {}", p.name), mask(&all.join(" || "), &ports)));
    }
    for p in &sc.peers[2..9] {
        let (msgs, _, err) = h1::parse_all(&p.conn.rx, true, true);
        let mut s = match msgs.first() {
            Some(m) => show_message(m),
            None => format!("no answer ({} bytes, {err:?}, connect_failed={})", p.conn.rx.len(), p.connect_failed),
        };
        if p.name == "tls" {
            s = format!("certificate {:?} alpn {:?} tls_error {:?} | {s}", p.conn.tls_peer_cert, p.conn.tls_alpn, p.conn.tls_error);
        }
        behaviour.push((format!("answer to {}", p.name), mask(&s, &ports)));
    }
    for p in &sc.peers[9..11] {
        let ms = |t: Option<u64>| t.map(|n| (n / 1_000_000).to_string()).unwrap_or_else(|| "never".into());
        let (msgs, _, _) = h1::parse_all(&p.conn.rx, true, true);
        behaviour.push((
            format!("timing out the {} client", p.name),
            mask(&format!("first byte at {} ms, closed at {} ms, {} | {}", ms(p.conn.first_rx_ns), ms(p.conn.eof_ns), if p.conn.reset { "reset" } else { "fin" }, msgs.first().map(show_message).unwrap_or_default()), &ports),
        ));
    }
    for (id, _) in &queries {
        let f = sc.main.final_for(id);
        let s = match f.first() {
            Some(r) if *id == "Q-STATUS" => format!("status {}", r.status),
            Some(r) => format!("status {} {:?}", r.status, r.content),
            None => "no answer".into(),
        };
        behaviour.push((format!("query {id}"), s));
    }
    if sc.main.final_for("STOP").len() != 1 {
        problems.push("the soft stop was not acknowledged exactly once".into());
    }
    Observed { accepted, behaviour, problems }
}

#[derive(Clone, Debug, serde::Serialize, serde::Deserialize)]
pub struct Case {
    pub base: usize,
    pub lead: Vec<String>,
    pub refused: String,
    pub follow: Vec<String>,
}

fn isolated_observe(base: usize, seq: Vec<String>) -> Observed {
    match worker::isolated(move || observe(base, &seq)) {
        Ok(o) => o,
        Err(status) => Observed { accepted: vec![], behaviour: vec![], problems: vec![format!("the execution crashed: {status}")] },
    }
}

/// compares one sequence containing `refused` with the same sequence without it
pub fn run_case(case: &Case) -> (Vec<(String, String)>, String) {
    let alpha = alphabet();
    let verb = cfgspace::verb(&sym(&alpha, &case.refused).req);
    let mut with: Vec<String> = case.lead.clone();
    with.push(case.refused.clone());
    with.extend(case.follow.iter().cloned());
    let mut without: Vec<String> = case.lead.clone();
    without.extend(case.follow.iter().cloned());
    let got = isolated_observe(case.base, with);
    let mut violations = vec![];
    for p in &got.problems {
        violations.push((format!("C07|worker:{verb}:broken-run"), format!("{p} (sequence with {})", case.refused)));
    }
    let at = case.lead.len();
    if got.accepted.get(at).copied().unwrap_or(true) {
        // the worker took the command: nothing to compare
        return (violations, format!("accepted:{verb}"));
    }
    let reference = isolated_observe(case.base, without);
    for p in &reference.problems {
        violations.push((format!("C07|worker:{verb}:broken-run"), format!("{p} (reference sequence)")));
    }
    // the companions must have been taken the same way in both runs
    let others_with: Vec<bool> = got.accepted.iter().enumerate().filter(|(i, _)| *i != at).map(|(_, b)| *b).collect();
    if others_with != reference.accepted {
        violations.push((format!("C07|worker:{verb}:changes-fate-of-later-command"), format!("with the refused {} in the sequence the other commands were answered {:?}, without it {:?}", case.refused, others_with, reference.accepted)));
    }
    let a: BTreeMap<&String, &String> = got.behaviour.iter().map(|(k, v)| (k, v)).collect();
    let mut changed = BTreeSet::new();
    for (k, v) in &reference.behaviour {
        if a.get(k).copied() != Some(v) {
            changed.insert(k.clone());
            let what = k.split(' ').next().unwrap_or("behaviour").to_owned();
            violations.push((
                format!("C07|worker:{verb}:trace-in-{what}"),
                format!("the worker answered failure to {} yet {k} differs: with it {:?}, without it {:?}", case.refused, a.get(k).map(|s| s.as_str()).unwrap_or("<absent>"), v),
            ));
        }
    }
    (violations, format!("refused:{verb}:changed={}", changed.len()))
}

fn cases(tier: Tier) -> Vec<Case> {
    let alpha = alphabet();
    let mut v = vec![];
    for base in 0..bases().len() {
        for x in &alpha {
            if matches!(x.name.as_str(), "SoftStop" | "HardStop" | "ReturnListenSockets") {
                continue;
            }
            for (ci, comp) in companions().iter().enumerate() {
                // quick: every command alone; the companions only around cluster and listener commands
                let structural = x.name.starts_with("AddCluster") || x.name.starts_with("Update") || x.name.contains("Certificate");
                if ci > 0 && !structural {
                    continue;
                }
                if ci > 0 && tier == Tier::Quick && !(x.name.contains("answers") || x.name.contains("bad")) {
                    continue;
                }
                let comp: Vec<String> = comp.iter().map(|s| s.to_string()).collect();
                v.push(Case { base, lead: vec![], refused: x.name.clone(), follow: comp.clone() });
                if ci > 0 {
                    v.push(Case { base, lead: comp, refused: x.name.clone(), follow: vec![] });
                }
            }
        }
    }
    v
}

const CHUNK: usize = 16;

pub fn run_item(tier: Tier, item: usize) -> ItemResult {
    let all = cases(tier);
    let mut violations = vec![];
    let mut stats = explore::SearchStats::default();
    let mut outcomes = BTreeSet::new();
    let mut refused = 0u64;
    for case in all.iter().skip(item * CHUNK).take(CHUNK) {
        let (viol, outcome) = run_case(case);
        stats.executions += if outcome.starts_with("refused") { 2 } else { 1 };
        if outcome.starts_with("refused") {
            refused += 1;
        }
        outcomes.insert(crate::common::fnv_str(&outcome));
        for (k, d) in viol {
            violations.push((k, d, json!({"sim": "c07b", "case": case}), (case.lead.len() + case.follow.len()) as u64 * 10 + case.base as u64));
        }
    }
    stats.distinct_observations = outcomes.len() as u64;
    let mut counters = BTreeMap::new();
    counters.insert("sim_executions".to_owned(), stats.executions);
    counters.insert("sequences_with_a_refused_command".to_owned(), refused);
    ItemResult { item, label: format!("sequences {}..", item * CHUNK), stats, violations, counters, sample: json!({"case": all.get(item * CHUNK)}) }
}

pub fn run(ctx: &Ctx) -> Coverage {
    let tier = ctx.tier();
    let n = cases(tier).len().div_ceil(CHUNK);
    let results = explore::run_sharded(ctx, n, "c07b", |i| run_item(tier, i));
    let mut cov = super::c01::summarize(
        ctx,
        &results,
        "every command of the worker alphabet (the configuration alphabet with invalid twins, worker verbs, cluster definitions and listener patches whose custom answers are partly valid) sent to an unmodified worker from 2 bootstrap states, alone and before / after 5 accepted companions; whenever the worker answers failure, the same sequence without that command is run and everything observable afterwards must be identical: answers to routed, unrouted and denied requests over HTTP and HTTPS, certificate served, requests reaching the backends, the virtual time at which silent and half-spoken clients are timed out, the worker's answers to the view queries, and the fate of the other commands of the sequence",
    );
    cov.bound = json!({"alphabet": alphabet().len(), "base_states": bases().len(), "companions": companions().len(), "sequences": cases(tier).len()});
    cov.exhaustive = true;
    cov
}

pub fn replay(ctx: &Ctx, case: &Value) -> Coverage {
    let c: Case = serde_json::from_value(case["case"].clone()).unwrap_or_else(|e| crate::common::machinery_error(&format!("bad replay case: {e}")));
    let (viol, _) = run_case(&c);
    for (k, d) in viol {
        ctx.violation(k, d, case.clone());
    }
    Coverage { states: 1, transitions: 1, evaluations: 1, distinct_nontrivial: 1, distinct_outcomes: 1, rule: "replay".into(), ..Default::default() }
}

pub fn debug(args: &crate::common::Args) {
    let seq: Vec<String> = args.extra.get("seq").map(|s| s.split(';').map(|x| x.to_owned()).collect()).unwrap_or_default();
    let base: usize = args.extra.get("base").and_then(|s| s.parse().ok()).unwrap_or(0);
    let o = isolated_observe(base, seq);
    println!("accepted={:?} problems={:?}", o.accepted, o.problems);
    for (k, v) in o.behaviour {
        println!("{k}: {v}");
    }
}
