//! C10(a) — listener hand-over over the fd-passing socket. Bounded-exhaustive
//! enumeration of listener sets on the real `ScmSocket::{send_listeners,
//! receive_listeners}` over a real socket pair with real bound sockets.

use std::{
    collections::BTreeMap,
    net::{SocketAddr, TcpListener},
    os::{
        fd::{AsRawFd, IntoRawFd, RawFd},
        unix::net::UnixStream,
    },
};

use serde_json::{Value, json};
use sozu_command_lib::scm_socket::{Listeners, MAX_FDS_OUT, ScmSocket};

use crate::common::{Coverage, Ctx, guarded, machinery_error};

const SHAPES: [&str; 6] = ["v4-short", "v4-long", "v6-short", "v6-long", "mixed", "bound"];
const DISTS: [&str; 5] = ["all-http", "all-tls", "all-tcp", "all-udp", "round-robin"];

fn shaped_addr(shape: &str, i: usize, real: SocketAddr) -> SocketAddr {
    // the address is carried as text in the manifest: its length is what
    // matters for the shape families; "bound" uses the socket's true address
    match shape {
        "v4-short" => format!("1.1.1.{}:{}", i % 10, 1 + i % 9).parse().unwrap(),
        "v4-long" => format!("255.255.255.{}:6{:04}", 100 + i % 150, i).parse().unwrap(),
        "v6-short" => format!("[::{:x}]:{}", 1 + i % 15, 1 + i % 9).parse().unwrap(),
        "v6-long" => format!("[ffff:ffff:ffff:ffff:ffff:ffff:ffff:{:04x}]:6{:04}", 0x1000 + i, i)
            .parse()
            .unwrap(),
        "mixed" => shaped_addr(["v4-short", "v4-long", "v6-short", "v6-long"][i % 4], i, real),
        _ => real,
    }
}

fn local_port(fd: RawFd) -> Option<u16> {
    let mut storage: libc::sockaddr_storage = unsafe { std::mem::zeroed() };
    let mut len = std::mem::size_of::<libc::sockaddr_storage>() as libc::socklen_t;
    let r = unsafe { libc::getsockname(fd, &mut storage as *mut _ as *mut libc::sockaddr, &mut len) };
    if r != 0 {
        return None;
    }
    match storage.ss_family as i32 {
        libc::AF_INET => {
            let a: &libc::sockaddr_in = unsafe { &*(&storage as *const _ as *const libc::sockaddr_in) };
            Some(u16::from_be(a.sin_port))
        }
        libc::AF_INET6 => {
            let a: &libc::sockaddr_in6 = unsafe { &*(&storage as *const _ as *const libc::sockaddr_in6) };
            Some(u16::from_be(a.sin6_port))
        }
        _ => None,
    }
}

fn one_case(pool: &[(SocketAddr, RawFd)], n: usize, shape: &str, dist: &str) -> Result<(), (String, String)> {
    let (a, b) = UnixStream::pair().map_err(|e| ("machinery".to_owned(), e.to_string()))?;
    let tx = ScmSocket::new(a.as_raw_fd()).map_err(|e| ("machinery".to_owned(), e.to_string()))?;
    let rx = ScmSocket::new(b.as_raw_fd()).map_err(|e| ("machinery".to_owned(), e.to_string()))?;
    // blocking receive would hang forever if nothing arrives: use a timeout
    let tv = libc::timeval { tv_sec: 2, tv_usec: 0 };
    unsafe {
        libc::setsockopt(b.as_raw_fd(), libc::SOL_SOCKET, libc::SO_RCVTIMEO, &tv as *const _ as *const libc::c_void, std::mem::size_of::<libc::timeval>() as u32);
    }
    let mut l = Listeners::default();
    for i in 0..n {
        let (real, fd) = pool[i];
        let addr = shaped_addr(shape, i, real);
        let slot = match dist {
            "all-http" => 0,
            "all-tls" => 1,
            "all-tcp" => 2,
            "all-udp" => 3,
            _ => i % 4,
        };
        match slot {
            0 => l.http.push((addr, fd)),
            1 => l.tls.push((addr, fd)),
            2 => l.tcp.push((addr, fd)),
            _ => l.udp.push((addr, fd)),
        }
    }
    tx.send_listeners(&l).map_err(|e| ("send-failed".to_owned(), e.to_string()))?;
    let got = rx.receive_listeners().map_err(|e| {
        let s = e.to_string();
        let class = if s.contains("decoding") || s.contains("decode") { "manifest-decode" } else if s.contains("inconsistent") { "count-inconsistent" } else { "receive-error" };
        (format!("receive-failed:{class}"), s)
    })?;
    let mut verdict = Ok(());
    let pairs = [(&l.http, &got.http, "http"), (&l.tls, &got.tls, "tls"), (&l.tcp, &got.tcp, "tcp"), (&l.udp, &got.udp, "udp")];
    for (sent, recv, name) in pairs {
        if sent.len() != recv.len() {
            verdict = Err((format!("listener-lost:{name}"), format!("sent {} {name} listeners, received {}", sent.len(), recv.len())));
            break;
        }
        for (s, r) in sent.iter().zip(recv.iter()) {
            if s.0 != r.0 {
                verdict = Err((format!("address-changed:{name}"), format!("sent {} received {}", s.0, r.0)));
            } else if local_port(s.1).is_none() || local_port(s.1) != local_port(r.1) {
                verdict = Err((format!("fd-mismatch:{name}"), format!("fd for {} is bound to port {:?}, received fd to {:?}", s.0, local_port(s.1), local_port(r.1))));
            } else if shape == "bound" && Some(r.0.port()) != local_port(r.1) {
                verdict = Err((format!("fd-not-bound-to-address:{name}"), format!("{} vs port {:?}", r.0, local_port(r.1))));
            }
        }
    }
    // close the duplicated descriptors we received
    for v in [&got.http, &got.tls, &got.tcp, &got.udp] {
        for (_, fd) in v {
            unsafe { libc::close(*fd) };
        }
    }
    verdict
}

pub fn run_a(ctx: &Ctx) -> Coverage {
    // a pool of real listening sockets, reused by every case
    let mut pool: Vec<(SocketAddr, RawFd)> = vec![];
    for i in 0..MAX_FDS_OUT {
        let bind = if i % 2 == 0 { "127.0.0.1:0" } else { "[::1]:0" };
        let s = TcpListener::bind(bind)
            .or_else(|_| TcpListener::bind("127.0.0.1:0"))
            .unwrap_or_else(|e| machinery_error(&format!("cannot bind pool socket: {e}")));
        let addr = s.local_addr().unwrap();
        pool.push((addr, s.into_raw_fd()));
    }
    let base = pool.iter().map(|p| p.1).max().unwrap_or(0) + 1;
    let mut evals = 0u64;
    let mut outcomes: BTreeMap<String, u64> = BTreeMap::new();
    for shape in SHAPES {
        for dist in DISTS {
            for n in 0..=MAX_FDS_OUT {
                evals += 1;
                let case = json!({"part": "a", "n": n, "shape": shape, "dist": dist});
                let r = guarded(|| one_case(&pool, n, shape, dist));
                if !matches!(r, Ok(Ok(()))) {
                    // a failed receive leaves the descriptors the kernel
                    // already installed open: sweep them (harness hygiene)
                    for fd in base..base + 1024 {
                        unsafe { libc::close(fd) };
                    }
                }
                match r {
                    Err(p) => ctx.violation_w(format!("C10|scm-panic:{shape}"), format!("panicked: {p}"), case, n as u64),
                    Ok(Ok(())) => *outcomes.entry("ok".into()).or_insert(0) += 1,
                    Ok(Err((k, d))) => {
                        if k == "machinery" {
                            machinery_error(&d);
                        }
                        *outcomes.entry(k.clone()).or_insert(0) += 1;
                        ctx.violation_w(
                            format!("C10|{k}:{shape}"),
                            format!("{n} listeners ({shape}, {dist}): {d}"),
                            case,
                            n as u64,
                        );
                    }
                }
            }
        }
    }
    for (_, fd) in &pool {
        unsafe { libc::close(*fd) };
    }
    ctx.sample(json!({"part": "a", "n": 200, "shape": "v6-long", "dist": "round-robin"}));
    Coverage {
        states: evals,
        transitions: evals,
        evaluations: evals,
        distinct_nontrivial: evals,
        distinct_outcomes: outcomes.len() as u64,
        rule: "every listener count 0..=200 x 6 address shapes (shortest/longest textual IPv4 and IPv6, mixed, truly bound) x 5 protocol distributions sent with send_listeners and received with receive_listeners over a real socket pair; received (address, fd) lists must equal the sent ones and every received descriptor must be the very socket that was sent".into(),
        exhaustive: true,
        bound: json!({"max_listeners": MAX_FDS_OUT, "shapes": SHAPES.len(), "distributions": DISTS.len()}),
        extra: json!({"scm_outcomes": outcomes}),
        assumptions: vec![
            "for the synthetic shapes the manifest address is not the socket's real address (unroutable addresses cannot be bound in the sandbox); the descriptor identity is checked through getsockname of the sent and received descriptors, and the 'bound' shape checks address = getsockname".into(),
        ],
        ..Default::default()
    }
}

pub fn run(ctx: &Ctx) -> Coverage {
    if std::env::var("VERIF_SHARD").is_ok() {
        super::c10b::run(ctx);
        unreachable!();
    }
    let mut cov = Coverage::aggregate();
    cov.absorb("a-scm-handover", run_a(ctx));
    cov.absorb("b-stop-with-traffic", super::c10b::run(ctx));
    cov
}

pub fn replay(ctx: &Ctx, case: &Value) -> Coverage {
    if case["part"] == "b" {
        return super::c10b::replay_case(ctx, case);
    }
    run(ctx)
}
