//! SIM smoke scenario (not a registered check): one H1 request through a worker.

use sozu_command_lib::{
    config::ListenerBuilder,
    proto::command::{ActivateListener, AddBackend, ListenerType, PathRule, RequestHttpFrontend, RulePosition, SocketAddress, request::RequestType},
    state::ConfigState,
};

use crate::sim::{
    ChoiceProfile, FdClass, h1,
    peer::{Peer, Step},
    worker::{self, MainStep, WorkerSetup},
};

pub fn http_state(front: std::net::SocketAddr, back: std::net::SocketAddr) -> ConfigState {
    let mut s = ConfigState::new();
    let fa: SocketAddress = front.into();
    let l = ListenerBuilder::new_http(fa).to_http(None).unwrap();
    let reqs = vec![
        RequestType::AddHttpListener(l),
        RequestType::ActivateListener(ActivateListener { address: fa, proxy: ListenerType::Http as i32, from_scm: false }),
        RequestType::AddCluster(crate::cfgspace::cluster("c1")),
        RequestType::AddHttpFrontend(RequestHttpFrontend {
            cluster_id: Some("c1".into()),
            address: fa,
            hostname: "a.io".into(),
            path: PathRule::prefix("/"),
            position: RulePosition::Tree as i32,
            ..Default::default()
        }),
        RequestType::AddBackend(AddBackend { cluster_id: "c1".into(), backend_id: "b1".into(), address: back.into(), sticky_id: None, load_balancing_parameters: None, backup: None }),
    ];
    for r in reqs {
        s.dispatch(&r.into()).unwrap();
    }
    s
}

pub fn run() {
    let front: std::net::SocketAddr = "127.0.0.1:18080".parse().unwrap();
    let back: std::net::SocketAddr = "127.0.0.1:18081".parse().unwrap();
    let t0 = std::time::Instant::now();
    for i in 0..5 {
        let r = worker::on_fresh_thread(move || {
            let body = h1::coded_body(1, 1000);
            let resp = h1::response(200, "OK", &[], &body);
            let backend = Peer::server("backend", back, vec![Step::Accept, Step::ExpectH1 { count: 1, responses: false }, Step::Send { bytes: resp, splits: vec![] }, Step::Done]);
            let client = Peer::client(
                "client",
                vec![Step::Connect { to: front, from: None }, Step::Send { bytes: h1::request("GET", "/", "a.io", &[], None), splits: vec![] }, Step::ExpectH1 { count: 1, responses: true }, Step::Done],
            );
            let setup = WorkerSetup { config: worker::server_config(|_| {}), initial: http_state(front, back) };
            let profile = ChoiceProfile { write_faults: vec![FdClass::Front], read_faults: vec![], max_points_per_class: 8, event_order: false, ..Default::default() };
            let (mut exec, err) = worker::run_worker(setup, vec![backend, client], vec![MainStep::AwaitPeers], profile, vec![], 120);
            let stats = exec.stats.clone();
            let end = exec.end.clone();
            let trace = exec.trace.len();
            let sc = worker::scenario_of(&mut exec);
            let rx = sc.peers[1].conn.rx.clone();
            let (msgs, _, perr) = h1::parse_all(&rx, true, true);
            format!("end={end:?} err={err:?} panic={:?} turns={} vms={} points={} client_got={} msgs status={:?} body_ok={:?} perr={perr:?} responses={}",
                exec.subject_panic, stats.turns, stats.virtual_ms, trace, msgs.len(), msgs.first().and_then(|m| m.status()), msgs.first().map(|m| m.body == h1::coded_body(1, 1000)), 0)
        });
        println!("run {i}: {r}");
    }
    println!("5 executions in {:?}", t0.elapsed());
}
