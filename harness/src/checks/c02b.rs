//! C02(b) — one answer per request when HTTP/2 is on either side: an h2c
//! backend that refuses, resets, truncates, stalls, shuts down gracefully
//! (GOAWAY) or speaks garbage, behind an HTTP/1.1 or an HTTP/2 (TLS) client,
//! and an HTTP/1.1 backend dying at chosen offsets behind an HTTP/2 client;
//! alone and with sibling requests before, after and concurrently on the same
//! client connection (and, for HTTP/2 backends, on the same backend connection).

use std::collections::BTreeMap;

use serde_json::{Value, json};

use super::h2pair::Proto;
use crate::{
    common::{Coverage, Ctx, Tier},
    sim::{
        ChoiceProfile, End, FdClass,
        explore::{self, ItemResult, Run},
        h1, h2, scen,
        peer::{H2Cond, Peer, Step},
        worker::{self, MainStep, WorkerSetup},
    },
};

#[derive(Clone, Debug, serde::Serialize, serde::Deserialize, PartialEq)]
pub enum Fault {
    Healthy,
    /// GOAWAY(last = this stream, NO_ERROR), then the answer: a graceful shutdown
    GoawayThenAnswer,
    /// GOAWAY(last below this stream) and no answer on the first backend connection; later connections answer
    GoawayRefuseOnce,
    /// RST_STREAM(code) instead of a response
    Rst(u32),
    /// response head (content-length 1000) + n body bytes, then RST_STREAM(INTERNAL_ERROR)
    RstMid(usize),
    /// ... then the backend connection is closed
    CloseMid(usize),
    /// the backend connection is closed when the request arrives
    CloseBefore,
    /// content-length 1000, n body bytes, END_STREAM
    Short(usize),
    Stall,
    Garbage,
    /// a complete n-byte answer, then the backend connection is closed in the same turn
    AnswerThenClose(usize),
    /// HTTP/1.1 backend: the first n bytes of a response (head about 80 bytes, body 1000), then close
    H1DieAt(usize),
}

#[derive(Clone, Copy, Debug, serde::Serialize, serde::Deserialize, PartialEq)]
pub enum Siblings {
    None,
    /// a healthy exchange completes first on the same client connection
    Before,
    /// HTTP/2 client: a large healthy download and a small healthy request are in flight on the same connection
    Concurrent,
    /// HTTP/2 client: a healthy request is opened once the faulty one is over
    After,
}

#[derive(Clone, Debug, serde::Serialize, serde::Deserialize)]
pub struct Case {
    pub front: Proto,
    pub back: Proto,
    pub fault: Fault,
    pub siblings: Siblings,
}

fn path_of(f: &Fault) -> String {
    match f {
        Fault::Healthy => "/size/1000".into(),
        Fault::GoawayThenAnswer => "/goaway-then-answer/1000".into(),
        Fault::GoawayRefuseOnce => "/goaway-refuse-once/1000".into(),
        Fault::Rst(c) => format!("/rst/{c}"),
        Fault::RstMid(n) => format!("/rst-mid/{n}"),
        Fault::CloseMid(n) => format!("/close-mid/{n}"),
        Fault::CloseBefore => "/close-before".into(),
        Fault::Short(n) => format!("/short/{n}"),
        Fault::Stall => "/stall".into(),
        Fault::AnswerThenClose(n) => format!("/close-after/{n}"),
        Fault::Garbage => "/garbage".into(),
        Fault::H1DieAt(n) => format!("/die/{n}"),
    }
}

fn fault_class(f: &Fault) -> String {
    match f {
        Fault::Rst(c) => format!("rst-{c}"),
        Fault::RstMid(n) => format!("rst-mid-{}", if *n == 0 { "head-only" } else { "inside-body" }),
        Fault::CloseMid(n) => format!("close-mid-{}", if *n == 0 { "head-only" } else { "inside-body" }),
        Fault::Short(n) => format!("short-{}", if *n == 0 { "empty" } else { "inside-body" }),
        Fault::AnswerThenClose(n) => format!("answer-then-close-{}", if *n < 16384 { "small" } else { "several-frames" }),
        Fault::H1DieAt(n) => format!("h1-die-{}", if *n == 0 { "before-response" } else if *n < H1_HEAD { "inside-head" } else if *n < H1_HEAD + 1000 { "inside-body" } else { "after-response" }),
        other => format!("{other:?}").to_lowercase(),
    }
}

/// length of the head of the HTTP/1.1 backend's `/die/<n>` response ("HTTP/1.1 200 OK", Content-Length: 1000)
const H1_HEAD: usize = 41;

/// what one request ended as, seen from the client
#[derive(Debug, Clone, PartialEq)]
enum Outcome {
    /// complete response: status, body
    Complete(u16, Vec<u8>),
    /// the response started and was then cut explicitly (connection closed / RST_STREAM)
    Aborted { started: bool },
    Nothing,
}

pub fn run_case(case: &Case, prefix: Vec<u32>, profile: ChoiceProfile) -> Run {
    let front = scen::addr(1, if case.front == Proto::H2 { 8443 } else { 8080 });
    let back = scen::addr(2, 9090);
    let mut setup = if case.front == Proto::H2 { scen::simple_https(front, back) } else { scen::simple_http(front, back) };
    setup.clusters[0].cluster.http2 = Some(case.back == Proto::H2);
    let backend = match case.back {
        Proto::H1 => Peer::server("backend", back, vec![Step::ServeH1 { response_head: "HTTP/1.1 200 OK".into(), body: b"ok".to_vec() }]),
        Proto::H2 => Peer::server("backend", back, vec![Step::H2Serve]),
    };
    // requests in the order they are opened: (label, path, expected healthy size)
    let faulty_path = path_of(&case.fault);
    let mut reqs: Vec<(&str, String)> = vec![];
    match case.siblings {
        Siblings::None => reqs.push(("faulty", faulty_path.clone())),
        Siblings::Before => {
            reqs.push(("sibling", "/size/500".into()));
            reqs.push(("faulty", faulty_path.clone()));
        }
        Siblings::Concurrent => {
            reqs.push(("sibling", "/size/70000".into()));
            reqs.push(("faulty", faulty_path.clone()));
            reqs.push(("sibling", "/size/600".into()));
        }
        Siblings::After => {
            reqs.push(("faulty", faulty_path.clone()));
            reqs.push(("sibling", "/size/600".into()));
        }
    }
    let stream_ids: Vec<u32> = (0..reqs.len()).map(|i| 1 + 2 * i as u32).collect();
    let mut script = vec![Step::Connect { to: front, from: None }];
    match case.front {
        Proto::H2 => {
            script.push(Step::StartTls { sni: "a.io".into(), alpn: vec!["h2".into()] });
            script.push(Step::ExpectHandshake);
            script.push(Step::H2Start { settings: vec![(h2::S_ENABLE_PUSH, 0)], policy: h2::WindowPolicy::Eager });
            script.push(Step::H2Await(H2Cond::PeerSettings));
            let open = |script: &mut Vec<Step>, i: usize| {
                let hs: Vec<(String, String)> = vec![(":method".into(), "GET".into()), (":scheme".into(), "https".into()), (":path".into(), reqs[i].1.clone()), (":authority".into(), "a.io".into()), ("x-req".into(), i.to_string())];
                script.push(Step::H2Headers { stream: stream_ids[i], headers: hs, end_stream: true, continuation_at: None });
            };
            match case.siblings {
                Siblings::None | Siblings::Concurrent => {
                    for i in 0..reqs.len() {
                        open(&mut script, i);
                    }
                }
                Siblings::Before | Siblings::After => {
                    open(&mut script, 0);
                    script.push(Step::H2Await(H2Cond::StreamDone(stream_ids[0])));
                    open(&mut script, 1);
                }
            }
            script.push(Step::H2Await(H2Cond::AllDone(stream_ids.clone())));
        }
        Proto::H1 => {
            for (i, (_, path)) in reqs.iter().enumerate() {
                script.push(Step::Send { bytes: format!("GET {path} HTTP/1.1\r\nHost: a.io\r\nX-Req: {i}\r\n\r\n").into_bytes(), splits: vec![] });
                script.push(Step::ExpectH1 { count: i + 1, responses: true });
            }
        }
    }
    script.push(Step::Done);
    let client = Peer::client("client", script);
    let ws = WorkerSetup { config: worker::server_config(|c| c.buffer_size = 16393), initial: scen::http_state(&setup) };
    let (mut exec, create_err) = worker::run_worker(ws, vec![backend, client], vec![MainStep::AwaitPeersFor { ms: 100_000 }], profile, prefix, 400);
    if let Some(e) = create_err {
        crate::common::machinery_error(&format!("worker creation failed: {e}"));
    }
    let pair = format!("{:?}-{:?}", case.front, case.back).to_lowercase();
    let class = fault_class(&case.fault);
    let sib = format!("{:?}", case.siblings).to_lowercase();
    let mut violations: Vec<(String, String)> = vec![];
    let mut flag = |k: String, d: String| violations.push((format!("C02|{pair}|{class}|{sib}|{k}"), d));
    if let Some(p) = &exec.subject_panic {
        flag("worker-panic".into(), format!("worker panicked: {p}"));
    }
    let end = exec.end.clone();
    let vms = exec.stats.virtual_ms;
    let sc = worker::scenario_of(&mut exec);
    let c = &sc.peers[1];
    // ---- outcomes per request
    let mut outcomes: Vec<Outcome> = vec![];
    let mut front_goaway = None;
    match case.front {
        Proto::H2 => match c.h2.as_ref() {
            None => flag("tls-or-h2-not-established".into(), format!("the client never got to HTTP/2 (tls error {:?})", c.conn.tls_error)),
            Some(ep) => {
                front_goaway = ep.goaway;
                for e in &ep.protocol_errors {
                    flag("frames-to-client-illegal".into(), format!("towards the HTTP/2 client: {e}"));
                }
                let closed = c.conn.eof || c.conn.reset;
                for sid in &stream_ids {
                    outcomes.push(match ep.streams.get(sid) {
                        None => {
                            if closed {
                                Outcome::Aborted { started: false }
                            } else {
                                Outcome::Nothing
                            }
                        }
                        Some(st) if st.rst.is_some() => Outcome::Aborted { started: !st.headers.is_empty() },
                        Some(st) if st.end_stream => Outcome::Complete(st.status().unwrap_or(0), st.body.clone()),
                        Some(st) if closed => Outcome::Aborted { started: !st.headers.is_empty() },
                        Some(_) => Outcome::Nothing,
                    });
                }
            }
        },
        Proto::H1 => {
            let eof = c.conn.eof || c.conn.reset;
            let (resps, consumed, _) = h1::parse_all(&c.conn.rx, true, eof);
            for i in 0..reqs.len() {
                outcomes.push(match resps.get(i) {
                    Some(m) => Outcome::Complete(m.status().unwrap_or(0), m.body.clone()),
                    None if eof && i == resps.len() => Outcome::Aborted { started: c.conn.rx.len() > consumed },
                    None if eof => Outcome::Aborted { started: false },
                    None => Outcome::Nothing,
                });
            }
            if resps.len() > reqs.len() {
                flag("answered-more-than-once".into(), format!("{} responses for {} requests", resps.len(), reqs.len()));
            }
        }
    }
    // ---- judge
    // (HTTP/1.1 backend connections carry one exchange each: a dying one takes no sibling with it)
    let tears_backend_connection = case.back == Proto::H2 && matches!(case.fault, Fault::CloseMid(_) | Fault::CloseBefore | Fault::Garbage | Fault::AnswerThenClose(_));
    for (i, (label, path)) in reqs.iter().enumerate() {
        let Some(out) = outcomes.get(i) else { continue };
        if *label == "sibling" {
            let n: usize = path.trim_start_matches("/size/").parse().unwrap_or(0);
            let want = h1::coded_body((n % 251) as u8, n);
            match out {
                Outcome::Complete(200, body) if *body == want => {}
                Outcome::Complete(200, body) => flag("sibling-corrupted".into(), format!("the healthy request {path} next to the faulty one was answered 200 with {} body bytes instead of {n}", body.len())),
                // collateral damage is acceptable only when the fault took the shared backend connection (or, over HTTP/1.1, the client connection) down
                Outcome::Complete(st, _) if matches!(st, 502 | 503) && tears_backend_connection && case.siblings == Siblings::Concurrent => {}
                Outcome::Aborted { .. } if tears_backend_connection && case.siblings == Siblings::Concurrent => {}
                // sozu closes a client connection gracefully after a proxy-generated answer: a stream opened after
                // that GOAWAY(NO_ERROR) is refused unprocessed, which the client may retry elsewhere
                Outcome::Aborted { started: false } if front_goaway.is_some_and(|(last, code)| code == 0 && stream_ids[i] > last) => {}
                // a backend shutting down gracefully takes nothing above the stream it named: refused, may be retried
                Outcome::Aborted { started: false } if case.front == Proto::H2 && matches!(case.fault, Fault::GoawayThenAnswer | Fault::GoawayRefuseOnce) && i > reqs.iter().position(|(l, _)| *l == "faulty").unwrap_or(0) => {}
                Outcome::Aborted { .. } if case.front == Proto::H1 && i > reqs.iter().position(|(l, _)| *l == "faulty").unwrap_or(0) => {}
                Outcome::Nothing => flag("sibling-stalled".into(), format!("the healthy request {path} next to the faulty one was never answered (run {end:?} after {vms} virtual ms)")),
                other => flag("sibling-failed".into(), format!("the healthy request {path} next to the faulty one ended as {}", show(other))),
            }
            continue;
        }
        let healthy_body = match case.fault {
            Fault::H1DieAt(_) => vec![b'x'; 1000],
            Fault::AnswerThenClose(n) => h1::coded_body((n % 251) as u8, n),
            _ => h1::coded_body((1000 % 251) as u8, 1000),
        };
        let started_allowed: bool = match &case.fault {
            Fault::RstMid(_) | Fault::CloseMid(_) | Fault::Short(_) => true,
            Fault::H1DieAt(n) => *n >= H1_HEAD && *n < H1_HEAD + 1000,
            _ => false,
        };
        let statuses: &[u16] = match &case.fault {
            Fault::Healthy | Fault::GoawayThenAnswer | Fault::AnswerThenClose(_) => &[200],
            Fault::GoawayRefuseOnce => &[200, 502, 503],
            Fault::Rst(_) | Fault::CloseBefore => &[502, 503],
            Fault::Garbage => &[502, 503],
            Fault::Stall => &[504],
            // nothing relayed yet: a proxy answer is fine
            Fault::H1DieAt(n) if *n >= H1_HEAD + 1000 => &[200],
            Fault::RstMid(_) | Fault::CloseMid(_) | Fault::Short(_) | Fault::H1DieAt(_) => &[502, 503],
        };
        // the whole 1000-byte body was sent before the cut: a client that got all of it holds a complete response
        let all_sent = matches!(&case.fault, Fault::RstMid(n) | Fault::CloseMid(n) | Fault::Short(n) if *n >= 1000);
        match out {
            Outcome::Complete(200, body) if all_sent && *body == h1::coded_body(9, 1000) => {}
            Outcome::Complete(200, body) if statuses.contains(&200) => {
                if *body != healthy_body {
                    flag("relayed-response-damaged".into(), format!("200 relayed with {} body bytes instead of {}", body.len(), healthy_body.len()));
                }
            }
            Outcome::Complete(200, body) => {
                // the backend never completed a response
                flag("truncated-response-presented-as-complete".into(), format!("the backend's response was cut ({:?}) yet the client holds a complete 200 with {} body bytes", case.fault, body.len()));
            }
            Outcome::Complete(st, _) if statuses.contains(st) => {}
            Outcome::Complete(st, _) => flag(format!("wrong-status-{st}"), format!("answered {st}, the cause ({:?}) calls for one of {statuses:?}", case.fault)),
            Outcome::Aborted { started: true } if started_allowed => {}
            // an HTTP/2 stream may be refused / reset instead of answered when nothing was relayed
            Outcome::Aborted { started: false } if case.front == Proto::H2 && !matches!(case.fault, Fault::Healthy | Fault::GoawayThenAnswer | Fault::Stall | Fault::AnswerThenClose(_)) => {}
            Outcome::Aborted { started: false } if started_allowed => {}
            Outcome::Aborted { started } => flag(if *started { "aborted-after-start" } else { "closed-without-answer" }.into(), format!("the request was cut off (response started: {started}) although the cause ({:?}) calls for a complete answer {statuses:?}", case.fault)),
            Outcome::Nothing => flag("unanswered".into(), format!("the request was never answered (run {end:?} after {vms} virtual ms)")),
        }
    }
    if let Some((last, code)) = front_goaway {
        if code != 0 {
            flag(format!("client-connection-goaway-{code}"), format!("a backend fault made sozu send GOAWAY(last={last}, code={code}) to the client"));
        }
    }
    let limit_ms: u64 = if matches!(case.fault, Fault::Stall) { 31_500 } else { 5_000 };
    if vms > limit_ms && !outcomes.iter().any(|o| *o == Outcome::Nothing) {
        flag("answer-too-late".into(), format!("everything was answered only after {vms} virtual ms (allowed: {limit_ms})"));
    }
    drop(flag);
    if std::env::var("H2_DUMP").is_ok() {
        for p in &sc.peers {
            if let Some(ep) = p.h2.as_ref() {
                eprintln!("---- frames received by {}:", p.name);
                for f in &ep.frames {
                    eprintln!("  type={} flags={:#x} stream={} len={} {}", f.ty, f.flags, f.stream, f.payload.len(), if f.ty == h2::RST_STREAM || f.ty == h2::GOAWAY { format!("{:?}", f.payload) } else { String::new() });
                }
                if p.name == "client" {
                    let log = &p.conn.sent_log;
                    let body = if log.starts_with(h2::PREFACE) { &log[h2::PREFACE.len()..] } else { &log[..] };
                    let (frames, _) = h2::split_frames(body);
                    eprintln!("---- frames sent by the client:");
                    for f in &frames {
                        eprintln!("  type={} flags={:#x} stream={} len={}", f.ty, f.flags, f.stream, f.payload.len());
                    }
                }
            } else {
                eprintln!("---- {} rx:\n{}", p.name, String::from_utf8_lossy(&p.conn.rx[..p.conn.rx.len().min(1200)]));
            }
        }
    }
    let obs = format!("end={end:?} vms={vms} outcomes={:?} backend_conns={}", outcomes.iter().map(show).collect::<Vec<_>>(), 1 + sc.peers[0].h2_more.len() + sc.peers[0].more.len());
    if end != End::Finished && violations.is_empty() {
        violations.push((format!("C02|{pair}|{class}|{sib}|worker-{}", format!("{end:?}").to_lowercase()), format!("run ended {end:?}")));
    }
    Run { trace: exec.trace, observation: obs, violations, diverged: exec.diverged }
}

fn show(o: &Outcome) -> String {
    match o {
        Outcome::Complete(st, b) => format!("{st}/{}", b.len()),
        Outcome::Aborted { started } => format!("aborted(started={started})"),
        Outcome::Nothing => "nothing".into(),
    }
}

pub fn cases(tier: Tier) -> Vec<Case> {
    let mut v = vec![];
    let h2_faults = |tier: Tier| {
        let mut f = vec![Fault::Healthy, Fault::AnswerThenClose(100), Fault::AnswerThenClose(38400), Fault::GoawayThenAnswer, Fault::GoawayRefuseOnce, Fault::Rst(2), Fault::Rst(7), Fault::Rst(8), Fault::Rst(11), Fault::CloseBefore, Fault::Stall, Fault::Garbage];
        let offsets: &[usize] = if tier == Tier::Quick { &[0, 1, 999] } else { &[0, 1, 9, 500, 999, 1000] };
        for &n in offsets {
            f.push(Fault::RstMid(n));
            f.push(Fault::CloseMid(n));
            f.push(Fault::Short(n));
        }
        f
    };
    for front in [Proto::H1, Proto::H2] {
        for fault in h2_faults(tier) {
            let sibs: &[Siblings] = if front == Proto::H2 { &[Siblings::None, Siblings::Before, Siblings::Concurrent, Siblings::After] } else { &[Siblings::None, Siblings::Before] };
            for &siblings in sibs {
                v.push(Case { front, back: Proto::H2, fault: fault.clone(), siblings });
            }
        }
    }
    // HTTP/1.1 backend dying behind an HTTP/2 client
    let offsets: &[usize] = if tier == Tier::Quick { &[0, 10, 41, 100, 1041] } else { &[0, 1, 10, 17, 40, 41, 42, 100, 500, 1040, 1041] };
    for &n in offsets {
        for siblings in [Siblings::None, Siblings::Before, Siblings::Concurrent, Siblings::After] {
            v.push(Case { front: Proto::H2, back: Proto::H1, fault: Fault::H1DieAt(n), siblings });
        }
    }
    v
}

fn profile(tier: Tier) -> ChoiceProfile {
    ChoiceProfile { read_faults: vec![FdClass::Back], write_faults: vec![FdClass::Front], max_points_per_class: if tier == Tier::Quick { 2 } else { 5 }, event_order: false, ..Default::default() }
}

pub fn run_item(tier: Tier, item: usize) -> ItemResult {
    let all = cases(tier);
    let case = all[item].clone();
    let mut violations = vec![];
    let c2 = case.clone();
    let stats = explore::search(
        1,
        if tier == Tier::Quick { 8 } else { 200 },
        |prefix| {
            let c = c2.clone();
            let p = prefix.to_vec();
            match worker::isolated(move || run_case(&c, p.clone(), profile(tier))) {
                Ok(r) => r,
                Err(status) => {
                    let mut r = super::c01::crashed_run(prefix, &status);
                    for v in r.violations.iter_mut() {
                        v.0 = v.0.replace("C01|any", &format!("C02|{:?}-{:?}|{}", c2.front, c2.back, fault_class(&c2.fault)).to_lowercase());
                    }
                    r
                }
            }
        },
        |vector, key, desc| {
            let weight = vector.iter().filter(|c| **c != 0).count() as u64 * 1000 + if case.siblings == Siblings::None { 0 } else { 100 };
            violations.push((key.to_owned(), desc.to_owned(), json!({"sim": "c02b", "case": case, "choices": vector}), weight));
        },
    );
    let mut counters = BTreeMap::new();
    counters.insert("sim_executions".to_owned(), stats.executions);
    ItemResult { item, label: format!("{case:?}"), stats, violations, counters, sample: json!({"case": case}) }
}

pub fn run(ctx: &Ctx) -> Coverage {
    let tier = ctx.tier();
    let n = cases(tier).len();
    let results = explore::run_sharded(ctx, n, "c02b", |i| run_item(tier, i));
    super::c01::summarize(ctx, &results, "requests through an unmodified worker with HTTP/2 on either side: an h2c backend that answers, shuts down gracefully (GOAWAY covering the stream, then the answer), refuses once (GOAWAY below the stream; a second connection answers), resets the stream before any response (INTERNAL_ERROR, REFUSED_STREAM, CANCEL, ENHANCE_YOUR_CALM), closes or garbles the connection, stalls, or cuts a 1000-byte response (RST_STREAM, connection close, END_STREAM short of content-length) at chosen offsets, behind an HTTP/1.1 and an HTTP/2 (TLS) client; an HTTP/1.1 backend dying at chosen offsets behind an HTTP/2 client; the faulty request alone, after a healthy one, next to two concurrent healthy streams, and followed by a healthy one; every schedule with at most 1 deviation. Oracle: one complete answer with a status matching the cause, or an explicit abort once the response had started (never a complete-looking truncated body); siblings intact unless the fault took the shared backend connection down, and then still answered or aborted; nothing unanswered beyond the timeouts; no GOAWAY with an error code to the client")
}

pub fn replay(ctx: &Ctx, case: &Value) -> Coverage {
    let c: Case = serde_json::from_value(case["case"].clone()).unwrap_or_else(|e| crate::common::machinery_error(&format!("bad replay case: {e}")));
    let choices: Vec<u32> = serde_json::from_value(case["choices"].clone()).unwrap_or_default();
    let tier = ctx.tier();
    let r = worker::isolated(move || run_case(&c, choices, profile(tier))).unwrap_or_else(|s| super::c01::crashed_run(&[], &s));
    for (k, d) in r.violations {
        ctx.violation(k, d, case.clone());
    }
    Coverage { states: 1, transitions: r.trace.len().max(1) as u64, evaluations: 1, distinct_nontrivial: 1, distinct_outcomes: 1, rule: "replay".into(), ..Default::default() }
}

pub fn debug(args: &crate::common::Args) {
    let all = cases(args.tier);
    let item: usize = args.extra.get("item").and_then(|s| s.parse().ok()).unwrap_or(0);
    let mut choices: Vec<u32> = args.extra.get("choices").map(|s| s.split(',').filter_map(|x| x.parse().ok()).collect()).unwrap_or_default();
    let mut c = all[item].clone();
    if let Some(f) = args.extra.get("file") {
        let j = crate::common::load_replay(&std::path::PathBuf::from(f));
        c = serde_json::from_value(j["case"]["case"].clone()).unwrap();
        choices = serde_json::from_value(j["case"]["choices"].clone()).unwrap();
    }
    println!("{} cases; {:?}", all.len(), c);
    let tier = args.tier;
    let r = worker::isolated(move || run_case(&c, choices, profile(tier))).unwrap();
    println!("obs={}", r.observation);
    println!("trace={:?}", r.trace.iter().map(|p| format!("{}:{}/{}", p.kind, p.chosen, p.alternatives)).collect::<Vec<_>>());
    println!("violations={:#?}", r.violations);
}
