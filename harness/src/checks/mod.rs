pub mod cfgstate;
pub mod c04;
pub mod c12;
pub mod c17;
pub mod c19;
pub mod c16;
pub mod c11;
pub mod c10;
