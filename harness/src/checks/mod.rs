pub mod cfgstate;
pub mod c04;
