pub mod cfgstate;
