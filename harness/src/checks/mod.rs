pub mod cfgstate;
pub mod c04;
pub mod c12;
