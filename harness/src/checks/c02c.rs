//! C02(c) — pipelined requests on a kept-alive HTTP/1.1 connection. The client
//! sends its first request and, in the same segment, the first `cut` bytes of
//! the two requests that follow (every `cut`); the rest arrives 300 ms later,
//! well inside every timeout. Each of the three requests must get exactly one
//! answer, the backend's, in order.

use std::collections::BTreeMap;

use serde_json::{Value, json};

use crate::{
    common::{Coverage, Ctx, Tier},
    interpose::VIRTUAL_EPOCH_NS,
    sim::{
        ChoiceProfile, End, FdClass,
        explore::{self, ItemResult, Run},
        h1, scen,
        peer::{Peer, Step},
        worker::{self, MainStep, WorkerSetup},
    },
};

#[derive(Clone, Debug, serde::Serialize, serde::Deserialize)]
pub struct Case {
    /// "get-get-get", "get-post-get", "post-post-get"
    pub shape: String,
    /// how much of requests two and three rides with request one
    pub cut: usize,
}

const SHAPES: [&str; 3] = ["get-get-get", "get-post-get", "post-post-get"];

fn requests(shape: &str) -> Vec<Vec<u8>> {
    shape
        .split('-')
        .enumerate()
        .map(|(i, m)| {
            let path = format!("/r{i}");
            if m == "post" { h1::request("POST", &path, "a.io", &[], Some(&h1::coded_body(i as u8 + 3, 10))) } else { h1::request("GET", &path, "a.io", &[], None) }
        })
        .collect()
}

pub fn tail_len(shape: &str) -> usize {
    requests(shape)[1..].iter().map(|r| r.len()).sum()
}

pub fn run_case(case: &Case, prefix: Vec<u32>, profile: ChoiceProfile) -> Run {
    let front = scen::addr(1, 8080);
    let back = scen::addr(2, 9090);
    let setup = scen::simple_http(front, back);
    let reqs = requests(&case.shape);
    let tail: Vec<u8> = reqs[1..].concat();
    let cut = case.cut.min(tail.len());
    let mut first = reqs[0].clone();
    first.extend_from_slice(&tail[..cut]);
    let mut script = vec![Step::Connect { to: front, from: None }, Step::Send { bytes: first, splits: vec![] }, Step::ExpectH1 { count: 1, responses: true }];
    if cut < tail.len() {
        script.push(Step::Wait { ms: 300 });
        script.push(Step::Send { bytes: tail[cut..].to_vec(), splits: vec![] });
    }
    script.push(Step::ExpectH1 { count: 3, responses: true });
    script.push(Step::Done);
    let client = Peer::client("client", script);
    let backend = Peer::server("backend", back, vec![Step::ServeH1 { response_head: "HTTP/1.1 200 OK".into(), body: b"backend".to_vec() }]);
    let ws = WorkerSetup { config: worker::server_config(|_| {}), initial: scen::http_state(&setup) };
    let (mut exec, create_err) = worker::run_worker(ws, vec![backend, client], vec![MainStep::AwaitPeerAt { peer: 1, pc: usize::MAX }], profile, prefix, 200);
    if let Some(e) = create_err {
        crate::common::machinery_error(&format!("worker creation failed: {e}"));
    }
    let where_cut = {
        let second = reqs[1].len();
        let head_of = |r: &Vec<u8>| r.windows(4).position(|w| w == b"\r\n\r\n").map(|p| p + 4).unwrap_or(r.len());
        if cut == 0 {
            "nothing-of-the-next-request"
        } else if cut < head_of(&reqs[1]) {
            "inside-the-next-head"
        } else if cut < second {
            "inside-the-next-body"
        } else if cut == second {
            "after-the-next-request"
        } else if cut < tail.len() {
            "inside-the-third-request"
        } else {
            "all-three-at-once"
        }
    };
    let mut violations: Vec<(String, String)> = vec![];
    let mut flag = |k: String, d: String| violations.push((format!("C02|h1-h1|pipelined:{}|{where_cut}|{k}", case.shape), d));
    if let Some(p) = &exec.subject_panic {
        flag("worker-panic".into(), format!("worker panicked: {p}"));
    }
    let end = exec.end.clone();
    let sc = worker::scenario_of(&mut exec);
    let c = &sc.peers[1];
    let eof = c.conn.eof || c.conn.reset;
    let (resps, consumed, perr) = h1::parse_all(&c.conn.rx, true, eof);
    let statuses: Vec<Option<u16>> = resps.iter().map(|m| m.status()).collect();
    let last_ms = c.conn.last_rx_ns.map(|t| (t - VIRTUAL_EPOCH_NS) / 1_000_000);
    if resps.len() < 3 {
        flag(
            if eof { "connection-closed-with-requests-unanswered" } else { "request-unanswered" }.into(),
            format!("three requests were sent ({cut} bytes of the last two with the first, the rest 300 ms later): {} answers {statuses:?}, eof={eof}, run ended {end:?}, parse error {perr:?}", resps.len()),
        );
    } else if resps.len() > 3 || c.conn.rx.len() > consumed {
        flag("answered-more-than-once".into(), format!("{} answers {statuses:?} and {} stray bytes for three requests", resps.len(), c.conn.rx.len() - consumed));
    }
    for (i, m) in resps.iter().take(3).enumerate() {
        if m.status() != Some(200) || m.body != b"backend" {
            flag(format!("wrong-status-{}", m.status().unwrap_or(0)), format!("request {i} of three healthy pipelined requests was answered {:?} ({} body bytes); all answers: {statuses:?}", m.start_line, m.body.len()));
            break;
        }
    }
    // the backend saw the three requests once each, in order, bodies intact
    let b = &sc.peers[0];
    let mut seen: Vec<(String, usize)> = vec![];
    for conn in std::iter::once(&b.conn).chain(b.more.iter()) {
        for m in h1::parse_all(&conn.rx, false, true).0 {
            seen.push((m.start_line.clone(), m.body.len()));
        }
    }
    let want: Vec<(String, usize)> = reqs.iter().map(|r| { let m = &h1::parse_all(r, false, true).0[0]; (m.start_line.clone(), m.body.len()) }).collect();
    if resps.len() >= 3 && seen != want {
        flag("backend-saw-other-requests".into(), format!("the backend received {seen:?}, the client sent {want:?}"));
    }
    if let Some(ms) = last_ms {
        if ms > 3_000 {
            flag("answer-too-late".into(), format!("the last answer byte arrived after {ms} virtual ms; the client had sent everything after 300 ms and the backend answers at once"));
        }
    }
    let observation = format!("end={end:?} statuses={statuses:?} eof={eof} perr={perr:?} at={last_ms:?} backend={seen:?}");
    Run { trace: exec.trace, observation, violations, diverged: exec.diverged }
}

pub fn cases(_tier: Tier) -> Vec<Case> {
    let mut v = vec![];
    for shape in SHAPES {
        for cut in 0..=tail_len(shape) {
            v.push(Case { shape: shape.into(), cut });
        }
    }
    v
}

fn profile() -> ChoiceProfile {
    ChoiceProfile { read_faults: vec![FdClass::Front, FdClass::Back], write_faults: vec![FdClass::Front, FdClass::Back], max_points_per_class: 4, event_order: false, ..Default::default() }
}

pub fn run_item(tier: Tier, item: usize) -> ItemResult {
    let all = cases(tier);
    let case = all[item].clone();
    let mut violations = vec![];
    let c2 = case.clone();
    let stats = explore::search(
        tier.pick(0, 1),
        tier.pick(1, 60),
        |prefix| {
            let c = c2.clone();
            let p = prefix.to_vec();
            match worker::isolated(move || run_case(&c, p.clone(), profile())) {
                Ok(r) => r,
                Err(status) => {
                    let mut r = super::c01::crashed_run(prefix, &status);
                    for v in r.violations.iter_mut() {
                        v.0 = v.0.replace("C01|any", &format!("C02|h1-h1|pipelined:{}", c2.shape));
                    }
                    r
                }
            }
        },
        |vector, key, desc| {
            let weight = vector.iter().filter(|c| **c != 0).count() as u64 * 1000 + case.cut as u64;
            violations.push((key.to_owned(), desc.to_owned(), json!({"sim": "c02c", "case": case, "choices": vector}), weight));
        },
    );
    let mut counters = BTreeMap::new();
    counters.insert("sim_executions".to_owned(), stats.executions);
    ItemResult { item, label: format!("{case:?}"), stats, violations, counters, sample: json!({"sim": "c02c", "case": case}) }
}

pub fn run(ctx: &Ctx) -> Coverage {
    let tier = ctx.tier();
    let n = cases(tier).len();
    let results = explore::run_sharded(ctx, n, "c02c", |i| run_item(tier, i));
    let mut cov = super::c01::summarize(ctx, &results, "three pipelined HTTP/1.1 requests (GET GET GET; GET POST GET; POST POST GET, 10-byte bodies) on one kept-alive connection through an unmodified worker: the first request and the first `cut` bytes of the other two in one segment, for every `cut`, the rest 300 ms later (quick: default schedule; thorough: every schedule with at most 1 short / would-block read or write on either side). Oracle: exactly three answers, each the backend's 200 with its body, nothing stray, the backend received the three requests once each in order with their bodies, the last answer within 3 s");
    cov.bound = json!({"shapes": SHAPES.len(), "cut_offsets": cases(tier).len(), "deviations": tier.pick(0, 1)});
    cov
}

pub fn replay(ctx: &Ctx, case: &Value) -> Coverage {
    let c: Case = serde_json::from_value(case["case"].clone()).unwrap_or_else(|e| crate::common::machinery_error(&format!("bad replay case: {e}")));
    let choices: Vec<u32> = serde_json::from_value(case["choices"].clone()).unwrap_or_default();
    let r = worker::isolated(move || run_case(&c, choices, profile())).unwrap_or_else(|s| super::c01::crashed_run(&[], &s));
    for (k, d) in r.violations {
        ctx.violation(k, d, case.clone());
    }
    Coverage { states: 1, transitions: r.trace.len().max(1) as u64, evaluations: 1, distinct_nontrivial: 1, distinct_outcomes: 1, rule: "replay".into(), ..Default::default() }
}

pub fn debug(args: &crate::common::Args) {
    let shape = args.extra.get("shape").cloned().unwrap_or_else(|| "get-get-get".into());
    let cut: usize = args.extra.get("cut").and_then(|s| s.parse().ok()).unwrap_or(0);
    let choices: Vec<u32> = args.extra.get("choices").map(|s| s.split(',').filter_map(|x| x.parse().ok()).collect()).unwrap_or_default();
    let c = Case { shape, cut };
    println!("{c:?}");
    let r = worker::isolated(move || run_case(&c, choices, profile())).unwrap();
    println!("obs={}", r.observation);
    println!("violations={:#?}", r.violations);
}
