//! C17 — TLS always serves a loaded certificate that covers the requested
//! name. XS over the real `CertificateResolver` (the lookup `resolve()` does).

use std::collections::BTreeMap;

use serde_json::{Value, json};
use sozu_command_lib::{
    certificate::Fingerprint,
    proto::command::{AddCertificate, ReplaceCertificate},
};
use sozu_lib::tls::CertificateResolver;

use crate::{
    cfgspace::{self, CERT1, CERT2, CERT3, CERT4, CERT5, KEY1, KEY2, KEY3, KEY4, KEY5},
    common::{Coverage, Ctx, guarded, machinery_error},
    xs,
};

pub(super) struct K {
    pub(super) name: &'static str,
    pub(super) pem: &'static str,
    pub(super) key: &'static str,
    pub(super) names: &'static [&'static str],
    pub(super) exp: Option<i64>,
}

pub(super) const CERTS: [K; 5] = [
    K { name: "K1{a.io,exp2000}", pem: CERT1, key: KEY1, names: &["a.io"], exp: Some(2000) },
    // (three certificates share "*.a.io" with distinct expirations: K2, K3, K4)
    K { name: "K2{a.io,*.a.io,exp3000}", pem: CERT2, key: KEY2, names: &["a.io", "*.a.io"], exp: Some(3000) },
    K { name: "K3{*.a.io,exp2500}", pem: CERT3, key: KEY3, names: &["*.a.io"], exp: Some(2500) },
    K { name: "K4{b.a.io,*.a.io,exp1000}", pem: CERT4, key: KEY4, names: &["b.a.io", "*.a.io"], exp: Some(1000) },
    K { name: "K5{own names}", pem: CERT5, key: KEY5, names: &[], exp: None },
];
/// names K5 resolves to on its own (SAN present => SAN only)
const K5_NAMES: [&str; 1] = ["tenant-a.example"];

pub(super) const PROBES: [&str; 8] = [
    "a.io",
    "b.a.io",
    "c.a.io",
    "x.b.a.io",
    "io",
    "z.org",
    "tenant-a.example",
    "tenant-b.example",
];

#[derive(Clone, Copy, Debug, PartialEq, Eq, serde::Serialize, serde::Deserialize)]
pub(super) enum Op {
    Add(u8),
    Remove(u8),
    /// replace(old = cert index, new = cert index)
    Replace(u8, u8),
    /// replace(old, unparsable PEM)
    ReplaceBad(u8),
    /// replace(old, new) with the old fingerprint spelled in upper-case hex
    ReplaceUp(u8, u8),
}

pub(super) fn alphabet() -> Vec<Op> {
    let mut v = vec![];
    for i in 0..5 {
        v.push(Op::Add(i));
    }
    for i in 0..5 {
        v.push(Op::Remove(i));
    }
    for (a, b) in [(0, 1), (1, 0), (0, 2), (2, 3), (3, 2), (1, 1), (4, 0)] {
        v.push(Op::Replace(a, b));
    }
    for (a, b) in [(1, 1), (0, 1), (2, 2)] {
        v.push(Op::ReplaceUp(a, b));
    }
    v.push(Op::ReplaceBad(0));
    v.push(Op::ReplaceBad(3));
    v
}

fn add_req(i: u8) -> AddCertificate {
    let k = &CERTS[i as usize];
    AddCertificate {
        address: cfgspace::a6(),
        certificate: cfgspace::cert(k.pem, k.key, k.names),
        expired_at: k.exp,
    }
}

fn fingerprint(i: u8) -> Fingerprint {
    Fingerprint(hex::decode(cfgspace::fp(CERTS[i as usize].pem)).unwrap())
}

fn real_expiry(i: u8) -> i64 {
    // K5 carries no override: notAfter of cn-ne-san-cert.pem (Apr 25 2126)
    CERTS[i as usize].exp.unwrap_or(i64::MAX / 2)
}

pub(super) fn names_of(i: u8) -> Vec<&'static str> {
    if CERTS[i as usize].names.is_empty() {
        K5_NAMES.to_vec()
    } else {
        CERTS[i as usize].names.to_vec()
    }
}

/// reference: the set of loaded certificate indices after a history
pub(super) fn spec_apply(live: &mut Vec<u8>, op: Op) {
    match op {
        Op::Add(i) => {
            if !live.contains(&i) {
                live.push(i);
            }
        }
        Op::Remove(i) => live.retain(|&x| x != i),
        Op::Replace(old, new) | Op::ReplaceUp(old, new) => {
            // the new certificate is loaded, then the old one is dropped
            if !live.contains(&new) {
                live.push(new);
            }
            if old != new {
                live.retain(|&x| x != old);
            }
        }
        Op::ReplaceBad(_) => {}
    }
}

/// acceptable certificate indices for a probe (empty = default certificate)
pub(super) fn spec_lookup(live: &[u8], probe: &str) -> Vec<u8> {
    let exact: Vec<u8> = live.iter().copied().filter(|&i| names_of(i).contains(&probe)).collect();
    let cands = if !exact.is_empty() {
        exact
    } else {
        live.iter()
            .copied()
            .filter(|&i| {
                names_of(i).iter().any(|n| {
                    n.strip_prefix('*').is_some_and(|suffix| {
                        probe
                            .strip_suffix(suffix)
                            .is_some_and(|p| !p.is_empty() && !p.contains('.'))
                    })
                })
            })
            .collect()
    };
    let best = cands.iter().map(|&i| real_expiry(i)).max();
    cands.into_iter().filter(|&i| Some(real_expiry(i)) == best).collect()
}

struct Run {
    resolver: CertificateResolver,
    results: Vec<Result<(), String>>,
}

fn run_history(h: &[Op]) -> Run {
    let mut r = CertificateResolver::default();
    let mut results = vec![];
    for &op in h {
        let res = match op {
            Op::Add(i) => r.add_certificate(&add_req(i)).map(|_| ()).map_err(|e| e.to_string()),
            Op::Remove(i) => r.remove_certificate(&fingerprint(i)).map_err(|e| e.to_string()),
            Op::Replace(old, new) | Op::ReplaceUp(old, new) => {
                let a = add_req(new);
                let fp = cfgspace::fp(CERTS[old as usize].pem);
                r.replace_certificate(&ReplaceCertificate {
                    address: a.address,
                    new_certificate: a.certificate,
                    old_fingerprint: if matches!(op, Op::ReplaceUp(..)) { fp.to_ascii_uppercase() } else { fp },
                    new_expired_at: a.expired_at,
                })
                .map(|_| ())
                .map_err(|e| e.to_string())
            }
            Op::ReplaceBad(old) => r
                .replace_certificate(&ReplaceCertificate {
                    address: cfgspace::a6(),
                    new_certificate: cfgspace::cert("-----BEGIN CERTIFICATE-----\nnot base64\n-----END CERTIFICATE-----\n", KEY1, &[]),
                    old_fingerprint: cfgspace::fp(CERTS[old as usize].pem),
                    new_expired_at: None,
                })
                .map(|_| ())
                .map_err(|e| e.to_string()),
        };
        results.push(res);
    }
    Run { resolver: r, results }
}

fn which(fp: &Fingerprint) -> i32 {
    (0..5u8).find(|&i| fingerprint(i) == *fp).map(|i| i as i32).unwrap_or(-2)
}

/// the hidden name index, canonicalised from the Debug rendering
fn hidden_index(r: &CertificateResolver) -> String {
    let dbg = format!("{r:?}");
    let Some(start) = dbg.find("name_fingerprint_idx: {") else {
        machinery_error("CertificateResolver Debug output has no name_fingerprint_idx field");
    };
    let body = &dbg[start + "name_fingerprint_idx: {".len()..];
    // entries look like `"name": [(CertificateFingerprint(..), exp), ...]`
    let mut depth = 1i32;
    let mut end = body.len();
    for (i, c) in body.char_indices() {
        match c {
            '{' | '[' | '(' => depth += 1,
            '}' | ']' | ')' => {
                depth -= 1;
                if depth == 0 {
                    end = i;
                    break;
                }
            }
            _ => {}
        }
    }
    let inner = &body[..end];
    let mut entries: Vec<String> = vec![];
    let mut cur = String::new();
    let mut d = 0i32;
    for c in inner.chars() {
        match c {
            '[' | '(' => d += 1,
            ']' | ')' => d -= 1,
            _ => {}
        }
        if c == ',' && d == 0 {
            entries.push(cur.trim().to_owned());
            cur.clear();
        } else {
            cur.push(c);
        }
    }
    if !cur.trim().is_empty() {
        entries.push(cur.trim().to_owned());
    }
    entries.sort();
    entries.join(";")
}

fn observe(r: &CertificateResolver) -> (Vec<i32>, Vec<bool>) {
    let table = PROBES
        .iter()
        .map(|p| match r.domain_lookup(p.as_bytes(), true) {
            Some((_, fp)) => which(fp),
            None => -1,
        })
        .collect();
    let stored = (0..5u8).map(|i| r.get_certificate(&fingerprint(i)).is_some()).collect();
    (table, stored)
}

fn check(ctx: &Ctx, h: &[Op]) -> xs::Key {
    let mut live = vec![];
    for &op in h {
        spec_apply(&mut live, op);
    }
    let built = guarded(|| {
        let run = run_history(h);
        let (table, stored) = observe(&run.resolver);
        // names_for_sni must agree with the looked-up certificate's names
        let mut sni_names = vec![];
        for p in PROBES {
            sni_names.push(run.resolver.names_for_sni(p.as_bytes()));
        }
        let mut tm: Vec<(Vec<u8>, i32)> = run
            .resolver
            .domains
            .to_hashmap()
            .into_iter()
            .map(|(k, v)| (k, which(&v)))
            .collect();
        tm.sort();
        (table, stored, sni_names, tm, hidden_index(&run.resolver), run.results)
    });
    let names = |h: &[Op]| -> Vec<String> { h.iter().map(|o| op_name(*o)).collect() };
    let (table, stored, sni_names, trie, hidden, results) = match built {
        Ok(x) => x,
        Err(p) => {
            ctx.violation_w("C17|panic", format!("resolver panicked: {p}"), json!({"history": h, "names": names(h)}), h.len() as u64);
            return xs::key_of(format!("panic{h:?}").as_bytes());
        }
    };
    let w = h.len() as u64;
    let case = || json!({"history": h, "names": names(h)});
    // a failing replacement must be reported as an error
    if let (Some(Op::ReplaceBad(_)), Some(Ok(()))) = (h.last(), results.last()) {
        ctx.violation_w("C17|bad-replace-accepted", "replacement with an unparsable certificate returned Ok", case(), w);
    }
    for (i, &s) in stored.iter().enumerate() {
        if s != live.contains(&(i as u8)) {
            ctx.violation_w(
                format!("C17|store-mismatch:{}", if s { "ghost" } else { "lost" }),
                format!("certificate {} is {} although the history leaves it {}", CERTS[i].name, if s { "stored" } else { "absent" }, if s { "removed" } else { "loaded" }),
                case(),
                w,
            );
        }
    }
    for (pi, p) in PROBES.iter().enumerate() {
        let got = table[pi];
        let want = spec_lookup(&live, p);
        let ok = if want.is_empty() { got == -1 } else { want.iter().any(|&x| x as i32 == got) };
        if !ok {
            let class = if got >= 0 && !live.contains(&(got as u8)) {
                "served-removed".to_owned()
            } else if got == -1 {
                "covered-name-gets-default".to_owned()
            } else if want.is_empty() {
                "non-covering-served".to_owned()
            } else if got >= 0 && !names_of(got as u8).iter().any(|n| *n == *p || n.starts_with('*')) {
                "non-covering-served".to_owned()
            } else {
                "wrong-precedence".to_owned()
            };
            ctx.violation_w(
                format!("C17|{class}"),
                format!(
                    "SNI {p}: resolver answers {} but loaded set {:?} requires {:?}",
                    if got >= 0 { CERTS[got as usize].name } else { "<default>" },
                    live.iter().map(|&i| CERTS[i as usize].name).collect::<Vec<_>>(),
                    want.iter().map(|&i| CERTS[i as usize].name).collect::<Vec<_>>()
                ),
                json!({"history": h, "names": names(h), "probe": p}),
                w,
            );
        }
        // names_for_sni consistent with the certificate served
        if got >= 0 {
            let expect: Vec<String> = names_of(got as u8).iter().map(|s| s.to_string()).collect();
            if sni_names[pi].as_ref() != Some(&expect) {
                ctx.violation_w(
                    "C17|names-for-sni-mismatch",
                    format!("SNI {p}: names_for_sni = {:?}, served certificate names = {expect:?}", sni_names[pi]),
                    json!({"history": h, "names": names(h), "probe": p}),
                    w,
                );
            }
        }
    }
    let mut buf = format!("{live:?}|{table:?}|{stored:?}|{trie:?}|{hidden}").into_bytes();
    buf.push(0);
    xs::key_of(&buf)
}

pub(super) fn op_name(o: Op) -> String {
    match o {
        Op::Add(i) => format!("add({})", CERTS[i as usize].name),
        Op::Remove(i) => format!("remove({})", CERTS[i as usize].name),
        Op::Replace(a, b) => format!("replace({} -> {})", CERTS[a as usize].name, CERTS[b as usize].name),
        Op::ReplaceUp(a, b) => format!("replace({} [UPPER-CASE fingerprint] -> {})", CERTS[a as usize].name, CERTS[b as usize].name),
        Op::ReplaceBad(a) => format!("replace({} -> unparsable)", CERTS[a as usize].name),
    }
}

pub fn run(ctx: &Ctx) -> Coverage {
    if std::env::var("VERIF_SHARD").is_ok() {
        super::c17b::run(ctx);
        unreachable!();
    }
    let mut cov = Coverage::aggregate();
    cov.absorb("a-resolver", run_a(ctx));
    cov.absorb("b-handshakes", super::c17b::run(ctx));
    cov
}

fn run_a(ctx: &Ctx) -> Coverage {
    let alpha = alphabet();
    let depth = ctx.tier().pick(5, 7);
    let ex = xs::bfs(
        vec![Vec::<Op>::new()],
        alpha.len(),
        depth,
        2_000_000,
        |h, sym, _| {
            // replacing a certificate by itself while it is not loaded is
            // read differently by the main state (loads it) and by the
            // resolver (no-op); that disagreement belongs to C08, here the
            // operation is simply not enabled
            if let Op::Replace(a, b) | Op::ReplaceUp(a, b) = alpha[sym] {
                if a == b {
                    let mut live = vec![];
                    for &op in h.iter() {
                        spec_apply(&mut live, op);
                    }
                    if !live.contains(&a) {
                        return None;
                    }
                }
            }
            let mut n = h.clone();
            n.push(alpha[sym]);
            Some(n)
        },
        |h| check(ctx, h),
    );
    let n = ex.states.len();
    ctx.sample(json!({"history": ex.states[n - 1].iter().map(|o| op_name(*o)).collect::<Vec<_>>()}));
    ctx.sample(json!({"history": ex.states[n / 2].iter().map(|o| op_name(*o)).collect::<Vec<_>>()}));
    let per_sym: BTreeMap<String, u64> = alpha.iter().zip(ex.per_symbol_new_state.iter()).map(|(o, n)| (op_name(*o), *n)).collect();
    Coverage {
        states: n as u64,
        transitions: ex.transitions,
        evaluations: ex.transitions * PROBES.len() as u64,
        distinct_nontrivial: n as u64,
        distinct_outcomes: n as u64,
        rule: "all add/remove/replace histories up to the depth over 5 real certificates with overlapping exact/wildcard overriding names and expirations; states deduplicated on insertion-ordered loaded list + lookup table + trie contents + the resolver's private name index (canonicalised from Debug); every state probed with 8 server names against a set-based reference".into(),
        exhaustive: !ex.capped,
        bound: json!({"depth": depth, "alphabet": alpha.len(), "probes": PROBES.len()}),
        caps_hit: if ex.capped { vec!["max_states".into()] } else { vec![] },
        assumptions: vec![
            "the lookup exercised is CertificateResolver::domain_lookup(name, true) + names_for_sni, exactly what ResolvesServerCert::resolve() performs after rustls has lower-cased the server name; real handshakes and strict-SNI routing are exercised by the SIM part".into(),
            "replacement whose new certificate has the fingerprint of a loaded one but other names, and replacement with an unparsable old fingerprint, are left to C08 (main/worker agreement)".into(),
        ],
        extra: json!({"per_symbol_new_states": per_sym, "max_depth_reached": ex.max_depth}),
    }
}

pub fn replay(ctx: &Ctx, case: &Value) -> Coverage {
    if case["part"] == "b" {
        return super::c17b::replay_case(ctx, case);
    }
    let h: Vec<Op> = serde_json::from_value(case["history"].clone())
        .unwrap_or_else(|e| machinery_error(&format!("bad replay history: {e}")));
    check(ctx, &h);
    Coverage {
        states: 1,
        transitions: h.len().max(1) as u64,
        evaluations: PROBES.len() as u64,
        distinct_nontrivial: 1,
        distinct_outcomes: 1,
        rule: "single replayed history".into(),
        ..Default::default()
    }
}
