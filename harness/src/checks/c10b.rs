//! C10(b) — a soft stop cuts no request, takes no new connection, is
//! acknowledged once and ends the worker; a hand-over returns every listener.
//! The SoftStop (or ReturnListenSockets + SoftStop) arrives at every phase of an
//! HTTP/1.1 exchange and of an HTTP/2 connection with open streams.

use std::collections::BTreeMap;

use serde_json::{Value, json};
use sozu_command_lib::proto::command::{ResponseStatus, ReturnListenSockets, SoftStop, request::RequestType};

use crate::{
    common::{Coverage, Ctx, Tier},
    sim::{
        ChoiceProfile, End, FdClass,
        explore::{self, ItemResult, Run},
        h1,
        h2::{self, WindowPolicy},
        peer::{H2Cond, Peer, Step},
        scen,
        worker::{self, MainStep, WorkerSetup},
    },
};

pub const PHASES: [&str; 10] = [
    "before-connect",
    "connecting",
    "connected-idle",
    "mid-head",
    "mid-upload",
    "awaiting-backend",
    "mid-download",
    "keep-alive-idle",
    "h2-streams-open",
    "h2-idle",
];

#[derive(Clone, Debug, serde::Serialize, serde::Deserialize)]
pub struct Case {
    pub phase: String,
    /// ReturnListenSockets first (hand-over), then the SoftStop
    pub hand_over: bool,
    /// the worker is at max_connections when the stop arrives: an idle connection holds the second of
    /// two places, a third connection was turned away and a fourth waits in the listen queue
    #[serde(default)]
    pub crowd: bool,
}

const UP: usize = 30_000;
const DOWN: usize = 60_000;

pub fn run_case(case: &Case, prefix: Vec<u32>, profile: ChoiceProfile) -> Run {
    let h2_case = case.phase.starts_with("h2");
    let front = scen::addr(1, if h2_case { 8443 } else { 8080 });
    let back = scen::addr(2, 9090);
    let setup = if h2_case { scen::simple_https(front, back) } else { scen::simple_http(front, back) };
    let upload = h1::coded_body(5, UP);
    let download = h1::coded_body(9, DOWN);
    // ---- the backend: reads the request, waits, answers in two parts with a pause
    let resp_head = format!("HTTP/1.1 200 OK\r\nContent-Length: {DOWN}\r\n\r\n").into_bytes();
    let mut first = resp_head.clone();
    first.extend_from_slice(&download[..DOWN / 2]);
    let backend = Peer::server(
        "backend",
        back,
        vec![
            Step::Accept,
            Step::ExpectH1 { count: 1, responses: false },
            Step::Wait { ms: 200 }, // phase "awaiting-backend"
            Step::Send { bytes: first, splits: vec![] },
            Step::Wait { ms: 200 }, // phase "mid-download"
            Step::Send { bytes: download[DOWN / 2..].to_vec(), splits: vec![] },
            // a second exchange on the kept-alive connection (used by the keep-alive phase only)
            Step::ExpectH1 { count: 2, responses: false },
            Step::Send { bytes: b"HTTP/1.1 200 OK\r\nContent-Length: 2\r\n\r\nok".to_vec(), splits: vec![] },
            Step::Done,
        ],
    );
    // ---- the client; `sync` is the script position at which the stop is sent
    let head = format!("POST /up HTTP/1.1\r\nHost: a.io\r\nContent-Length: {UP}\r\n\r\n").into_bytes();
    let mut script: Vec<Step> = vec![];
    let sync: usize;
    let pause = Step::Wait { ms: 100 };
    match case.phase.as_str() {
        "before-connect" => {
            sync = 0;
            script.extend([pause.clone(), Step::Connect { to: front, from: None }, Step::Send { bytes: [head.clone(), upload.clone()].concat(), splits: vec![] }, Step::ExpectH1 { count: 1, responses: true }, Step::Done]);
        }
        // the connection attempt and the stop reach the worker in the same batch of events
        "connecting" => {
            sync = 0;
            script.extend([Step::Connect { to: front, from: None }, pause.clone(), Step::Send { bytes: [head.clone(), upload.clone()].concat(), splits: vec![] }, Step::ExpectH1 { count: 1, responses: true }, Step::Done]);
        }
        "connected-idle" => {
            script.push(Step::Connect { to: front, from: None });
            sync = script.len();
            script.extend([pause.clone(), Step::Send { bytes: [head.clone(), upload.clone()].concat(), splits: vec![] }, Step::ExpectH1 { count: 1, responses: true }, Step::Done]);
        }
        "mid-head" => {
            script.extend([Step::Connect { to: front, from: None }, Step::Send { bytes: head[..20].to_vec(), splits: vec![] }]);
            sync = script.len();
            script.extend([pause.clone(), Step::Send { bytes: [head[20..].to_vec(), upload.clone()].concat(), splits: vec![] }, Step::ExpectH1 { count: 1, responses: true }, Step::Done]);
        }
        "mid-upload" => {
            script.extend([Step::Connect { to: front, from: None }, Step::Send { bytes: [head.clone(), upload[..UP / 2].to_vec()].concat(), splits: vec![] }]);
            sync = script.len();
            script.extend([pause.clone(), Step::Send { bytes: upload[UP / 2..].to_vec(), splits: vec![] }, Step::ExpectH1 { count: 1, responses: true }, Step::Done]);
        }
        "awaiting-backend" => {
            script.extend([Step::Connect { to: front, from: None }, Step::Send { bytes: [head.clone(), upload.clone()].concat(), splits: vec![] }, Step::Wait { ms: 100 }]);
            sync = script.len();
            script.extend([Step::ExpectH1 { count: 1, responses: true }, Step::Done]);
        }
        "mid-download" => {
            script.extend([Step::Connect { to: front, from: None }, Step::Send { bytes: [head.clone(), upload.clone()].concat(), splits: vec![] }, Step::ExpectBytes(DOWN / 4)]);
            sync = script.len();
            script.extend([Step::ExpectH1 { count: 1, responses: true }, Step::Done]);
        }
        "keep-alive-idle" => {
            script.extend([Step::Connect { to: front, from: None }, Step::Send { bytes: [head.clone(), upload.clone()].concat(), splits: vec![] }, Step::ExpectH1 { count: 1, responses: true }]);
            sync = script.len();
            // an idle kept-alive connection may be closed by the stop; a request sent on it later may go unanswered
            script.extend([pause.clone(), Step::Send { bytes: b"GET /again HTTP/1.1\r\nHost: a.io\r\n\r\n".to_vec(), splits: vec![] }, Step::ExpectH1 { count: 2, responses: true }, Step::Done]);
        }
        "h2-streams-open" | "h2-idle" => {
            script.extend([
                Step::Connect { to: front, from: None },
                Step::StartTls { sni: "a.io".into(), alpn: vec!["h2".into()] },
                Step::ExpectHandshake,
                Step::H2Start { settings: vec![(h2::S_ENABLE_PUSH, 0)], policy: WindowPolicy::Eager },
                Step::H2Await(H2Cond::PeerSettings),
            ]);
            if case.phase == "h2-streams-open" {
                let hs: Vec<(String, String)> = vec![(":method".into(), "POST".into()), (":scheme".into(), "https".into()), (":path".into(), "/up".into()), (":authority".into(), "a.io".into()), ("content-length".into(), UP.to_string())];
                script.push(Step::H2Headers { stream: 1, headers: hs, end_stream: false, continuation_at: None });
                script.push(Step::H2Data { stream: 1, bytes: upload[..UP / 2].to_vec(), end_stream: false, frame_size: 8000, ignore_window: false });
                sync = script.len();
                script.extend([pause.clone(), Step::H2Data { stream: 1, bytes: upload[UP / 2..].to_vec(), end_stream: true, frame_size: 8000, ignore_window: false }, Step::H2Await(H2Cond::StreamDone(1)), Step::Done]);
            } else {
                sync = script.len();
                script.extend([pause.clone(), Step::H2Await(H2Cond::Goaway), Step::Done]);
            }
        }
        other => crate::common::machinery_error(&format!("unknown phase {other}")),
    }
    let client = Peer::client("client", script);
    // ---- a latecomer: connects well after the stop was acknowledged
    let late = Peer::client(
        "latecomer",
        vec![Step::Wait { ms: 1500 }, Step::Connect { to: front, from: None }, Step::Send { bytes: b"GET /late HTTP/1.1\r\nHost: a.io\r\n\r\n".to_vec(), splits: vec![] }, Step::Wait { ms: 300 }, Step::Done],
    );
    // ---- main: wait for the phase, (hand-over,) stop
    // the worker must have seen what the client did before the stop arrives: a request whose
    // bytes still sit unread in the kernel when the worker decides to stop is indistinguishable
    // from an idle connection, that race belongs to HTTP/1.1 itself
    let mut main = vec![MainStep::AwaitPeerAt { peer: 1, pc: sync }, MainStep::Wait { ms: if case.crowd { 60 } else { 20 } }];
    if sync == 0 {
        main.clear();
    }
    let mut peers = vec![backend, client, late];
    if case.crowd {
        for (i, name) in ["holder", "turned-away", "queued"].into_iter().enumerate() {
            peers.push(Peer::client(name, vec![Step::Wait { ms: 10 + 10 * i as u64 }, Step::Connect { to: front, from: None }, Step::ExpectEof, Step::Done]));
        }
    }
    if case.hand_over {
        main.push(MainStep::Send(worker::request("RETURN", RequestType::ReturnListenSockets(ReturnListenSockets {}))));
        main.push(MainStep::AwaitFinal("RETURN".into()));
    }
    main.push(MainStep::Send(worker::request("STOP", RequestType::SoftStop(SoftStop {}))));
    main.push(MainStep::AwaitFinal("STOP".into()));
    main.push(MainStep::AwaitPeersFor { ms: 60_000 });
    main.push(MainStep::Wait { ms: 2000 });
    let crowd = case.crowd;
    let ws = WorkerSetup {
        config: worker::server_config(|c| {
            if crowd {
                c.max_connections = 2;
            }
        }),
        initial: scen::http_state(&setup),
    };
    let (mut exec, create_err) = worker::run_worker(ws, peers, main, profile, prefix, 200);
    if let Some(e) = create_err {
        crate::common::machinery_error(&format!("worker creation failed: {e}"));
    }
    let mut violations: Vec<(String, String)> = vec![];
    let mode = match (case.hand_over, case.crowd) {
        (false, false) => "soft-stop",
        (true, false) => "hand-over",
        (false, true) => "soft-stop-at-max-connections",
        (true, true) => "hand-over-at-max-connections",
    };
    let phase = case.phase.clone();
    let mut flag = |k: String, d: String| violations.push((format!("C10|{mode}|{phase}|{k}"), d));
    if let Some(p) = &exec.subject_panic {
        flag("worker-panic".into(), format!("worker panicked: {p}"));
    }
    let end = exec.end.clone();
    let sc = worker::scenario_of(&mut exec);
    let stop_reason = sc.stop_reason.clone().unwrap_or_default();
    let (b, c, l) = (&sc.peers[0], &sc.peers[1], &sc.peers[2]);
    // ---- the stop is acknowledged exactly once, the worker exits by itself
    let finals: Vec<i32> = sc.main.responses.iter().filter(|(_, r)| r.id == "STOP" && r.status != ResponseStatus::Processing as i32).map(|(_, r)| r.status).collect();
    match finals.len() {
        0 => flag("stop-never-acknowledged".into(), format!("no final answer to the SoftStop (run ended {end:?}, {stop_reason})")),
        1 if finals[0] != ResponseStatus::Ok as i32 => flag("stop-refused".into(), "the SoftStop was answered with a failure".into()),
        1 => {}
        n => flag(format!("stop-acknowledged-{n}-times"), format!("{n} final answers to one SoftStop")),
    }
    if !(stop_reason.is_empty() || stop_reason == "scenario complete") || end != End::Finished {
        flag("worker-did-not-exit".into(), format!("the worker was still running when the scenario ended ({stop_reason}; {end:?})"));
    }
    if case.hand_over {
        let returned = sc.main.responses.iter().any(|(_, r)| r.id == "RETURN" && r.status == ResponseStatus::Ok as i32);
        if !returned {
            flag("return-listen-sockets-refused".into(), "ReturnListenSockets was not answered OK".into());
        }
    }
    // ---- the exchange in flight when the stop arrived is completed, byte for byte
    // (a request head that is not complete yet is not a request the worker knows of: it may be
    // completed or the connection closed, like an idle one)
    let must_complete = matches!(case.phase.as_str(), "mid-upload" | "awaiting-backend" | "mid-download" | "h2-streams-open");
    let mut obs = format!("end={end:?} stop={finals:?}");
    if h2_case {
        if let Some(ep) = c.h2.as_ref() {
            let st = ep.streams.get(&1);
            obs.push_str(&format!(" h2 stream1={:?} goaway={:?}", st.map(|s| (s.status(), s.body.len(), s.end_stream, s.rst)), ep.goaway));
            if must_complete {
                match st {
                    Some(s) if s.status() == Some(200) && s.body == download && s.end_stream => {}
                    other => flag("in-flight-request-cut".into(), format!("the HTTP/2 stream open when the stop arrived did not complete: {:?}", other.map(|s| (s.status(), s.body.len(), s.end_stream, s.rst)))),
                }
            }
            if ep.goaway.is_none() && !(c.conn.eof || c.conn.reset) {
                flag("h2-connection-not-drained".into(), "the HTTP/2 connection got no GOAWAY and was not closed after the stop".into());
            }
            for e in &ep.protocol_errors {
                flag("h2-obligation".into(), e.clone());
            }
        } else {
            flag("h2-not-established".into(), format!("tls error {:?}", c.conn.tls_error));
        }
    } else {
        let (resps, _, perr) = h1::parse_all(&c.conn.rx, true, true);
        obs.push_str(&format!(" resps={:?} perr={perr:?}", resps.iter().map(|r| (r.status(), r.body.len())).collect::<Vec<_>>()));
        if must_complete {
            match resps.first() {
                Some(r) if r.status() == Some(200) && r.body == download => {}
                Some(r) => flag("in-flight-request-cut".into(), format!("the exchange in flight when the stop arrived ended with status {:?} and {} of {DOWN} body bytes ({perr:?})", r.status(), r.body.len())),
                None => flag("in-flight-request-cut".into(), format!("the exchange in flight when the stop arrived got no complete response ({} bytes, {perr:?})", c.conn.rx.len())),
            }
            let (reqs, _, _) = h1::parse_all(&b.conn.rx, false, true);
            if reqs.first().map(|r| r.body == upload) != Some(true) {
                flag("in-flight-upload-cut".into(), format!("the backend received {:?} of {UP} upload bytes", reqs.first().map(|r| r.body.len())));
            }
        }
        if let Some(e) = perr.filter(|e| !e.starts_with("connection closed")) {
            flag("response-stream-malformed".into(), e);
        }
    }
    // ---- nothing new is taken after the acknowledgement
    let late_served = !l.conn.rx.is_empty();
    obs.push_str(&format!(" late_connect_failed={} late_rx={}", l.connect_failed, l.conn.rx.len()));
    if late_served && !case.hand_over {
        flag("new-connection-served-after-stop".into(), format!("a client that connected 1.5 s after the stop was acknowledged got {} bytes back", l.conn.rx.len()));
    }
    if case.hand_over && l.connect_failed {
        // the listening socket lives on in the main process (here: the harness): connecting must still work
        flag("listener-lost-in-hand-over".into(), "after ReturnListenSockets a new connection to the listener address was refused".into());
    }
    for p in sc.peers.iter().skip(3) {
        obs.push_str(&format!(" {}:{}", p.name, if p.connect_failed { "refused" } else if p.conn.reset { "reset" } else if p.conn.eof { "closed" } else { "open" }));
    }
    drop(flag);
    Run { trace: exec.trace, observation: obs, violations, diverged: exec.diverged }
}

pub fn cases(_tier: Tier) -> Vec<Case> {
    let mut v = vec![];
    for hand_over in [false, true] {
        for p in PHASES {
            v.push(Case { phase: p.into(), hand_over, crowd: false });
        }
        // the client was connected before the crowd arrived
        for p in ["connected-idle", "mid-upload", "awaiting-backend", "mid-download", "keep-alive-idle", "h2-streams-open"] {
            v.push(Case { phase: p.into(), hand_over, crowd: true });
        }
    }
    v
}

fn profile() -> ChoiceProfile {
    ChoiceProfile { read_faults: vec![FdClass::Front, FdClass::Back, FdClass::Channel], write_faults: vec![FdClass::Front, FdClass::Back], max_points_per_class: 4, event_order: true, ..Default::default() }
}

pub fn run_item(tier: Tier, item: usize) -> ItemResult {
    let all = cases(tier);
    let case = all[item].clone();
    let mut violations = vec![];
    let c2 = case.clone();
    let stats = explore::search(
        1,
        if tier == Tier::Quick { 40 } else { 600 },
        |prefix| {
            let c = c2.clone();
            let p = prefix.to_vec();
            match worker::isolated(move || run_case(&c, p.clone(), profile())) {
                Ok(r) => r,
                Err(status) => {
                    let mut r = super::c01::crashed_run(prefix, &status);
                    for v in r.violations.iter_mut() {
                        v.0 = v.0.replace("C01|any", &format!("C10|{}{}|{}", if c2.hand_over { "hand-over" } else { "soft-stop" }, if c2.crowd { "-at-max-connections" } else { "" }, c2.phase));
                    }
                    r
                }
            }
        },
        |vector, key, desc| {
            let weight = vector.iter().filter(|c| **c != 0).count() as u64 * 1000 + case.hand_over as u64;
            violations.push((key.to_owned(), desc.to_owned(), json!({"part": "b", "case": case, "choices": vector}), weight));
        },
    );
    let mut counters = BTreeMap::new();
    counters.insert("sim_executions".to_owned(), stats.executions);
    ItemResult { item, label: format!("{case:?}"), stats, violations, counters, sample: json!({"part": "b", "case": case}) }
}

pub fn run(ctx: &Ctx) -> Coverage {
    let tier = ctx.tier();
    let n = cases(tier).len();
    let results = explore::run_sharded(ctx, n, "c10b", |i| run_item(tier, i));
    super::c01::summarize(ctx, &results, "a SoftStop, or ReturnListenSockets followed by a SoftStop, sent to an unmodified worker at each of 9 phases of a client's life (before it connects; connected and silent; in the middle of its request head; in the middle of a 30 kB upload; request complete and the backend still silent; in the middle of a 60 kB download; idle on a kept-alive connection; HTTP/2 over TLS with a stream open mid-upload; HTTP/2 idle), each under every schedule with at most 1 deviation (short / would-block reads and writes on client, backend and command-channel sockets, readiness order). Oracle: exactly one final OK for the stop, the worker's run() returns by itself, the exchange in flight completes byte for byte in both directions, an HTTP/2 connection is told GOAWAY or closed, a client connecting 1.5 s after the acknowledgement is not served (plain stop) or still reaches the handed-over listener (hand-over)")
}

pub fn replay_case(ctx: &Ctx, case: &Value) -> Coverage {
    let c: Case = serde_json::from_value(case["case"].clone()).unwrap_or_else(|e| crate::common::machinery_error(&format!("bad replay case: {e}")));
    let choices: Vec<u32> = serde_json::from_value(case["choices"].clone()).unwrap_or_default();
    let r = worker::isolated(move || run_case(&c, choices, profile())).unwrap_or_else(|s| super::c01::crashed_run(&[], &s));
    for (k, d) in r.violations {
        ctx.violation(k, d, case.clone());
    }
    Coverage { states: 1, transitions: 1, evaluations: 1, distinct_nontrivial: 1, distinct_outcomes: 1, rule: "replay".into(), ..Default::default() }
}

pub fn debug(args: &crate::common::Args) {
    let phase = args.extra.get("phase").cloned().unwrap_or_else(|| "mid-upload".into());
    let hand_over = args.extra.get("handover").is_some();
    let c = Case { phase, hand_over, crowd: args.extra.contains_key("crowd") };
    let choices: Vec<u32> = args.extra.get("choices").map(|s| s.split(',').filter_map(|x| x.parse().ok()).collect()).unwrap_or_default();
    println!("{c:?}");
    let r = worker::isolated(move || run_case(&c, choices, profile())).unwrap();
    println!("obs={}", r.observation);
    println!("violations={:#?}", r.violations);
}
