//! C12 — traffic only goes to eligible backends. XS over the real
//! `BackendMap` / `BackendList` / `Backend` / retry policy with an
//! offset-controlled clock.

use std::{
    collections::{BTreeMap, HashMap},
    net::SocketAddr,
    sync::Mutex,
};

use serde_json::{Value, json};
use sozu_command_lib::proto::command::{LoadBalancingAlgorithms, LoadBalancingParams};
use sozu_lib::{
    backends::{Backend, BackendMap, BackendStatus},
    retry::{RetryAction, RetryPolicy},
};

use crate::{
    common::{Coverage, Ctx, guarded},
    interpose, xs,
};

const CLUSTER: &str = "c";

#[derive(Clone, Copy, Debug, PartialEq, Eq, PartialOrd, Ord, serde::Serialize, serde::Deserialize)]
enum Op {
    Add(u8),
    /// re-add with changed weight / sticky (upsert path)
    Readd(u8),
    Remove(u8),
    HealthFail(u8),
    HealthOk(u8),
    ConnFail(u8),
    ConnOk(u8),
    /// the backend fails a connection after each of its back-off windows closed, until its
    /// retry budget is spent (= [ConnFail(i), Clock] x 8 as one symbol: a state the depth bound
    /// would not reach)
    Exhaust(u8),
    Clock,
    Open(u8),
    Close(u8),
    Policy(u8),
    Select(u8),
    SelectConnect,
    SelectSticky(u8),
}

struct B {
    id: &'static str,
    addr: &'static str,
    sticky: &'static str,
    weight: i32,
    backup: bool,
}
const BACKENDS: [B; 3] = [
    B { id: "a", addr: "127.0.0.2:1001", sticky: "sa", weight: 1, backup: false },
    B { id: "b", addr: "127.0.0.2:1002", sticky: "sb", weight: 3, backup: false },
    B { id: "k", addr: "127.0.0.2:1003", sticky: "sk", weight: 1, backup: true },
];
const KEYS: [Option<u64>; 3] = [None, Some(0x1111_2222_3333_4444), Some(0xdead_beef_0bad_cafe)];
const POLICIES: [LoadBalancingAlgorithms; 6] = [
    LoadBalancingAlgorithms::RoundRobin,
    LoadBalancingAlgorithms::Random,
    LoadBalancingAlgorithms::LeastLoaded,
    LoadBalancingAlgorithms::PowerOfTwo,
    LoadBalancingAlgorithms::Hrw,
    LoadBalancingAlgorithms::Maglev,
];

fn alphabet() -> Vec<Op> {
    let mut v = vec![];
    for i in 0..3 {
        v.push(Op::Add(i));
    }
    v.push(Op::Readd(0));
    for i in 0..3 {
        v.push(Op::Remove(i));
    }
    for i in 0..2 {
        v.push(Op::HealthFail(i));
        v.push(Op::HealthOk(i));
        v.push(Op::ConnFail(i));
        v.push(Op::ConnOk(i));
        if i == 0 {
            v.push(Op::Exhaust(i));
        }
        v.push(Op::Open(i));
        v.push(Op::Close(i));
    }
    v.push(Op::HealthFail(2));
    v.push(Op::Clock);
    for p in 0..6 {
        v.push(Op::Policy(p));
    }
    for k in 0..3 {
        v.push(Op::Select(k));
    }
    v.push(Op::SelectConnect);
    for s in 0..3 {
        v.push(Op::SelectSticky(s));
    }
    v
}

fn addr(i: u8) -> SocketAddr {
    BACKENDS[i as usize].addr.parse().unwrap()
}

/// reference record for one backend
#[derive(Clone, Debug, Default)]
struct RefB {
    present: bool,
    healthy: bool,
    /// a connection failure opened a back-off window that no clock advance or success closed yet
    in_backoff: bool,
    conns: usize,
    weight: i32,
}

struct World {
    map: BackendMap,
    refs: [RefB; 3],
    policy: u8,
}

fn find(map: &mut BackendMap, i: u8) -> Option<std::rc::Rc<std::cell::RefCell<Backend>>> {
    map.backends
        .get_mut(CLUSTER)
        .and_then(|l| l.find_backend(&addr(i)).cloned())
}

struct StepOut {
    /// violation (key, description)
    bad: Option<(String, String)>,
    /// observation for affinity bookkeeping: (policy, eligible signature, key index) -> picked
    affinity: Option<(String, u8)>,
    picked: Option<u8>,
}

fn eligibility(w: &mut World) -> (Vec<u8>, Vec<u8>, Vec<u8>) {
    // computed from the implementation's own per-backend observable fields
    let mut prim = vec![];
    let mut back = vec![];
    let mut failopen = vec![];
    for i in 0..3u8 {
        if let Some(b) = find(&mut w.map, i) {
            let b = b.borrow();
            // the reference's own notion of "inside its failure back-off" (compared with the
            // implementation's at every selection, see `backoff_disagreement`)
            let okay = !w.refs[i as usize].in_backoff;
            let normal = b.status == BackendStatus::Normal;
            if normal && okay {
                failopen.push(i);
            }
            if normal && okay && b.health.is_healthy() {
                if b.backup { back.push(i) } else { prim.push(i) }
            }
        }
    }
    (prim, back, failopen)
}

/// a backend whose retry policy and the reference disagree on being inside a back-off window
fn backoff_disagreement(w: &mut World) -> Option<(u8, bool)> {
    for i in 0..3u8 {
        if let Some(b) = find(&mut w.map, i) {
            let waiting = b.borrow().retry_policy.can_try() != Some(RetryAction::OKAY);
            if waiting != w.refs[i as usize].in_backoff {
                return Some((i, waiting));
            }
        }
    }
    None
}

fn index_of(a: &SocketAddr) -> Option<u8> {
    (0..3u8).find(|&i| addr(i) == *a)
}

fn apply(w: &mut World, op: Op) -> StepOut {
    let mut out = StepOut { bad: None, affinity: None, picked: None };
    match op {
        Op::Add(i) | Op::Readd(i) => {
            let d = &BACKENDS[i as usize];
            let weight = if matches!(op, Op::Readd(_)) { d.weight + 4 } else { d.weight };
            let b = Backend::new(
                d.id,
                addr(i),
                Some(d.sticky.to_owned()),
                Some(LoadBalancingParams { weight }),
                Some(d.backup),
            );
            w.map.add_backend(CLUSTER, b);
            let r = &mut w.refs[i as usize];
            if !r.present {
                *r = RefB { present: true, healthy: true, in_backoff: false, conns: 0, weight };
            } else {
                r.weight = weight;
            }
        }
        Op::Remove(i) => {
            w.map.remove_backend(CLUSTER, BACKENDS[i as usize].id, &addr(i));
            w.refs[i as usize] = RefB::default();
        }
        Op::HealthFail(i) => {
            if let Some(b) = find(&mut w.map, i) {
                b.borrow_mut().health.record_failure(1);
                w.refs[i as usize].healthy = false;
            }
        }
        Op::HealthOk(i) => {
            if let Some(b) = find(&mut w.map, i) {
                b.borrow_mut().health.record_success(1);
                w.refs[i as usize].healthy = true;
            }
        }
        Op::ConnFail(i) => {
            if let Some(b) = find(&mut w.map, i) {
                let mut b = b.borrow_mut();
                b.retry_policy.fail();
                b.failures += 1;
                // every window lasts at least a second and only `Clock` moves time
                w.refs[i as usize].in_backoff = true;
            }
        }
        Op::ConnOk(i) => {
            if let Some(b) = find(&mut w.map, i) {
                b.borrow_mut().retry_policy.succeed();
                w.refs[i as usize].in_backoff = false;
            }
        }
        Op::Exhaust(i) => {
            for _ in 0..8 {
                if let Some(b) = find(&mut w.map, i) {
                    let mut b = b.borrow_mut();
                    b.retry_policy.fail();
                    b.failures += 1;
                }
                // (100 s: longer than the longest window, 2^6 - 1 s)
                interpose::advance_clock(100 * 1_000_000_000);
            }
            for r in w.refs.iter_mut() {
                r.in_backoff = false;
            }
        }
        Op::Clock => {
            interpose::advance_clock(100 * 1_000_000_000);
            for r in w.refs.iter_mut() {
                r.in_backoff = false;
            }
        }
        Op::Open(i) => {
            if let Some(b) = find(&mut w.map, i) {
                if b.borrow_mut().inc_connections().is_some() {
                    w.refs[i as usize].conns += 1;
                }
            }
        }
        Op::Close(i) => {
            if w.refs[i as usize].present {
                w.map.close_backend_connection(CLUSTER, &addr(i));
                let r = &mut w.refs[i as usize];
                r.conns = r.conns.saturating_sub(1);
            }
        }
        Op::Policy(p) => {
            w.map
                .set_load_balancing_policy_for_cluster(CLUSTER, POLICIES[p as usize], None);
            w.policy = p;
        }
        Op::Select(_) | Op::SelectConnect | Op::SelectSticky(_) => {
            if let Some((i, waiting)) = backoff_disagreement(w) {
                out.bad = Some((
                    format!("backoff-window-{}", if waiting { "armed-without-failure" } else { "not-armed-after-failure" }),
                    format!("backend {}: its retry policy says {} although a connection to it {} since the clock last moved", BACKENDS[i as usize].id, if waiting { "wait" } else { "go ahead" }, if waiting { "did not fail" } else { "failed" }),
                ));
            }
            let (prim, back, failopen) = eligibility(w);
            let allowed: Vec<u8> = if !prim.is_empty() {
                prim.clone()
            } else if !back.is_empty() {
                back.clone()
            } else {
                failopen.clone()
            };
            let mut must: Option<u8> = None;
            let picked: Option<u8> = match op {
                Op::Select(k) => {
                    let r = w.map.backend_from_cluster_id_with_key(CLUSTER, KEYS[k as usize]);
                    let picked = r.ok().and_then(|(_, a)| index_of(&a));
                    // affinity: the same call repeated must give the same backend
                    if KEYS[k as usize].is_some() && (w.policy == 4 || w.policy == 5) {
                        let again = w
                            .map
                            .backend_from_cluster_id_with_key(CLUSTER, KEYS[k as usize])
                            .ok()
                            .and_then(|(_, a)| index_of(&a));
                        if again != picked {
                            out.bad = Some((
                                format!("affinity-unstable:{:?}", POLICIES[w.policy as usize]),
                                format!("same key selected {picked:?} then {again:?} with an unchanged eligible set"),
                            ));
                        }
                        let weights: Vec<(u8, i32)> =
                            allowed.iter().map(|&i| (i, w.refs[i as usize].weight)).collect();
                        // the cluster's membership is part of the signature: a table-based policy
                        // (Maglev) is built from every member, eligible or not, so two clusters with
                        // different members are different clusters even when the same subset qualifies
                        let members: Vec<(u8, i32)> = (0..3u8).filter(|&i| w.refs[i as usize].present).map(|i| (i, w.refs[i as usize].weight)).collect();
                        if let Some(p) = picked {
                            out.affinity = Some((format!("{}|{:?}|{:?}|{}", w.policy, members, weights, k), p));
                        }
                    }
                    picked
                }
                Op::SelectConnect => match w.map.backend_from_cluster_id(CLUSTER) {
                    Ok((b, stream)) => {
                        drop(stream);
                        let a = b.borrow().address;
                        let i = index_of(&a);
                        if let Some(i) = i {
                            w.refs[i as usize].conns += 1;
                        }
                        i
                    }
                    Err(_) => None,
                },
                Op::SelectSticky(s) => {
                    let sticky = BACKENDS[s as usize].sticky;
                    // the sticky backend wins iff it is fully eligible
                    if prim.contains(&s) || back.contains(&s) {
                        must = Some(s);
                    }
                    match w.map.backend_from_sticky_session(CLUSTER, sticky) {
                        Ok((b, stream)) => {
                            drop(stream);
                            let a = b.borrow().address;
                            let i = index_of(&a);
                            if let Some(i) = i {
                                w.refs[i as usize].conns += 1;
                            }
                            i
                        }
                        Err(_) => None,
                    }
                }
                _ => unreachable!(),
            };
            out.picked = picked;
            if out.bad.is_none() {
                match (picked, must) {
                    (Some(p), Some(m)) if p != m => {
                        out.bad = Some((
                            "sticky-ignored".into(),
                            format!("sticky backend {} is eligible but {} was selected", BACKENDS[m as usize].id, BACKENDS[p as usize].id),
                        ));
                    }
                    (Some(p), m) if m != Some(p) && !allowed.contains(&p) => {
                        let why = if !w.refs[p as usize].present {
                            "removed"
                        } else if !failopen.contains(&p) {
                            "backing-off"
                        } else if !prim.contains(&p) && !back.contains(&p) {
                            "unhealthy"
                        } else {
                            "backup-while-primary-available"
                        };
                        out.bad = Some((
                            format!("ineligible-selected:{why}"),
                            format!(
                                "selected {} ({why}); eligible primaries {:?}, backups {:?}, fail-open {:?}",
                                BACKENDS[p as usize].id, prim, back, failopen
                            ),
                        ));
                    }
                    (None, _) if !allowed.is_empty() => {
                        out.bad = Some((
                            "none-selected".into(),
                            format!("no backend selected although {allowed:?} qualify"),
                        ));
                    }
                    _ => {}
                }
            }
        }
    }
    // counters agree with the reference after every step
    if out.bad.is_none() {
        for i in 0..3u8 {
            match find(&mut w.map, i) {
                Some(b) => {
                    let b = b.borrow();
                    if !w.refs[i as usize].present {
                        out.bad = Some(("ghost-backend".into(), format!("backend {} still listed after removal", BACKENDS[i as usize].id)));
                    } else if b.active_connections != w.refs[i as usize].conns {
                        out.bad = Some((
                            "connection-count-drift".into(),
                            format!(
                                "backend {} reports {} active connections, reference {}",
                                BACKENDS[i as usize].id, b.active_connections, w.refs[i as usize].conns
                            ),
                        ));
                    } else if b.health.is_healthy() != w.refs[i as usize].healthy {
                        out.bad = Some(("health-drift".into(), format!("backend {} health differs from reference", BACKENDS[i as usize].id)));
                    }
                }
                None => {
                    if w.refs[i as usize].present {
                        out.bad = Some(("lost-backend".into(), format!("backend {} vanished", BACKENDS[i as usize].id)));
                    }
                }
            }
        }
    }
    out
}

fn new_world() -> World {
    interpose::set_clock(interpose::ClockMode::Offset(0));
    World {
        map: BackendMap::new(),
        refs: Default::default(),
        policy: 1, // BackendList::new() starts with Random
    }
}

fn digest(w: &mut World) -> Vec<u8> {
    // product state: the implementation's observable fields and the reference's own record
    // (two histories the implementation cannot tell apart but the reference can must both be explored)
    let mut s = String::new();
    for r in &w.refs {
        s.push_str(&format!("{}{}{}{}{};", r.present as u8, r.healthy as u8, r.in_backoff as u8, r.conns, r.weight));
    }
    for i in 0..3u8 {
        match find(&mut w.map, i) {
            None => s.push_str("-;"),
            Some(b) => {
                let b = b.borrow();
                s.push_str(&format!(
                    "{}:{:?}:{:?}:{}:{}:{}:{:?}:{}:{}:{}:{:?}:{:?};",
                    b.backend_id,
                    b.status,
                    b.health.status,
                    b.health.consecutive_failures.min(2),
                    b.health.consecutive_successes.min(2),
                    b.retry_policy.current_tries(),
                    b.retry_policy.can_try(),
                    b.active_connections,
                    b.active_requests,
                    b.backup,
                    b.load_balancing_parameters,
                    b.sticky_id
                ));
            }
        }
    }
    if let Some(l) = w.map.backends.get(CLUSTER) {
        let lb = format!("{:?}", l.load_balancing);
        // Maglev's table is large: hash it
        s.push_str(&format!("{:x}", crate::common::fnv_str(&lb)));
        s.push_str(&format!("|order:{:?}", l.backends.iter().map(|b| b.borrow().backend_id.clone()).collect::<Vec<_>>()));
    }
    s.into_bytes()
}

fn run_history(hist: &[Op]) -> (World, Vec<StepOut>) {
    let mut w = new_world();
    let outs = hist.iter().map(|&op| apply(&mut w, op)).collect();
    // Backend::drop and availability transitions push events on the worker's
    // thread-local response queue; nobody drains it here
    sozu_lib::server::QUEUE.with(|q| q.borrow_mut().clear());
    (w, outs)
}

pub fn run(ctx: &Ctx) -> Coverage {
    let alpha = alphabet();
    let depth = ctx.tier().pick(7, 9);
    let affinity: Mutex<HashMap<String, (u8, Vec<Op>)>> = Mutex::new(HashMap::new());
    let outcomes: Mutex<BTreeMap<String, u64>> = Mutex::new(BTreeMap::new());
    let selections = std::sync::atomic::AtomicU64::new(0);
    let ex = xs::bfs(
        vec![Vec::<Op>::new()],
        alpha.len(),
        depth,
        6_000_000,
        |h, sym, _| {
            let mut n = h.clone();
            n.push(alpha[sym]);
            Some(n)
        },
        |h| {
            let r = guarded(|| {
                let (mut w, outs) = run_history(h);
                (digest(&mut w), outs)
            });
            match r {
                Err(p) => {
                    ctx.violation_w(
                        "C12|panic",
                        format!("backend map panicked: {p}"),
                        json!({"history": h}),
                        h.len() as u64,
                    );
                    xs::key_of(format!("panic{h:?}").as_bytes())
                }
                Ok((d, outs)) => {
                    if let Some(last) = outs.last() {
                        if matches!(h.last(), Some(Op::Select(_) | Op::SelectConnect | Op::SelectSticky(_))) {
                            selections.fetch_add(1, std::sync::atomic::Ordering::Relaxed);
                            *outcomes
                                .lock()
                                .unwrap()
                                .entry(format!("{:?}->{:?}", h.last().unwrap(), last.picked))
                                .or_insert(0) += 1;
                        }
                        if let Some((k, desc)) = &last.bad {
                            ctx.violation_w(
                                format!("C12|{k}"),
                                desc.clone(),
                                json!({"history": h}),
                                h.len() as u64,
                            );
                        }
                        if let Some((sig, picked)) = &last.affinity {
                            let mut g = affinity.lock().unwrap();
                            match g.get(sig) {
                                None => {
                                    g.insert(sig.clone(), (*picked, h.clone()));
                                }
                                Some((first, fh)) if first != picked => {
                                    ctx.violation_w(
                                        format!("C12|affinity-history-dependent:{}", sig.split('|').next().unwrap_or("")),
                                        format!("key maps to backend {} after {:?} but to {} after {:?} (same eligible set and weights)", first, fh, picked, h),
                                        json!({"history": h, "other_history": fh}),
                                        h.len() as u64,
                                    );
                                }
                                _ => {}
                            }
                        }
                    }
                    xs::key_of(&d)
                }
            }
        },
    );
    let n = ex.states.len();
    ctx.sample(json!({"history": ex.states[n - 1]}));
    ctx.sample(json!({"history": ex.states[n / 2]}));
    let oc = outcomes.lock().unwrap();
    let per_sym: BTreeMap<String, u64> = alpha
        .iter()
        .zip(ex.per_symbol_new_state.iter())
        .map(|(o, n)| (format!("{o:?}"), *n))
        .collect();
    Coverage {
        states: n as u64,
        transitions: ex.transitions,
        evaluations: selections.load(std::sync::atomic::Ordering::Relaxed),
        distinct_nontrivial: oc.len() as u64,
        distinct_outcomes: oc.len() as u64,
        rule: "all operation histories up to the depth over 3 backends (2 weighted primaries + 1 backup, sticky ids) x {add, re-add, remove, health fail/ok, connect fail/ok, clock +100s, open/close connection, 6 policies, select with 3 keys, select+connect, select sticky}; states deduplicated on every observable backend field + policy internals; each selection compared with the eligibility reference".into(),
        exhaustive: !ex.capped,
        bound: json!({"depth": depth, "alphabet": alpha.len()}),
        caps_hit: if ex.capped { vec!["max_states".into()] } else { vec![] },
        assumptions: vec![
            "health transitions and connect failure/success are injected through the same public fields/methods the health checker and the mux use (HealthState::record_*, RetryPolicy::fail/succeed, inc_connections); the pairing of those calls inside the mux is covered by the SIM checks, not here".into(),
            "back-off windows are exercised as 'inside' (no clock advance) or 'past' (+100 s > the 32 s maximum window); jitter value itself is not enumerated".into(),
            "request counters (active_requests) are maintained by the mux and are checked by the SIM-level gauges, not here".into(),
        ],
        extra: json!({"selection_outcomes": *oc, "per_symbol_new_states": per_sym, "max_depth_reached": ex.max_depth}),
    }
}

pub fn replay(ctx: &Ctx, case: &Value) -> Coverage {
    let hist: Vec<Op> = serde_json::from_value(case["history"].clone())
        .unwrap_or_else(|e| crate::common::machinery_error(&format!("bad replay history: {e}")));
    let (_, outs) = run_history(&hist);
    for (i, o) in outs.iter().enumerate() {
        if let Some((k, d)) = &o.bad {
            ctx.violation(format!("C12|{k}"), format!("step {i}: {d}"), case.clone());
        }
    }
    Coverage {
        states: 1,
        transitions: hist.len().max(1) as u64,
        evaluations: 1,
        distinct_nontrivial: 1,
        distinct_outcomes: 1,
        rule: "single replayed history".into(),
        ..Default::default()
    }
}
