//! C18(c) — an upgraded WebSocket relays both byte streams exactly.
//! HTTP/1.1 client and backend through an unmodified worker: the client asks
//! for an upgrade, the backend answers 101, then both sides send opaque bytes
//! (sizes straddling the buffer boundaries) with the same four endings as the
//! TCP sessions of part (b); the first payload bytes may travel in the same
//! segment as the request head / the 101 head.

use std::collections::BTreeMap;

use serde_json::{Value, json};

use super::c18::Ending;
use crate::{
    common::{Coverage, Ctx, Tier},
    interpose::VIRTUAL_EPOCH_NS,
    sim::{
        ChoiceProfile, End, FdClass,
        explore::{self, ItemResult, Run},
        h1, scen,
        peer::{Peer, Step},
        worker::{self, MainStep, WorkerSetup},
    },
};

#[derive(Clone, Debug, serde::Serialize, serde::Deserialize)]
pub struct WsCase {
    pub up: usize,
    pub down: usize,
    pub end: Ending,
    /// the client sends its first payload bytes the moment the 101 head is complete (else 5 ms later)
    pub client_early: bool,
    /// the backend sends its first payload bytes in the same write as the 101 head
    pub backend_early: bool,
    pub buffer_size: u64,
    /// ending BackendClose: the backend closes in the very turn it sent its last byte (else 20 ms later,
    /// once the client's bytes had time to arrive)
    #[serde(default)]
    pub close_at_once: bool,
}

const REQUEST: &[u8] = b"GET /chat HTTP/1.1\r\nHost: a.io\r\nUpgrade: websocket\r\nConnection: Upgrade\r\nSec-WebSocket-Key: dGhlIHNhbXBsZSBub25jZQ==\r\nSec-WebSocket-Version: 13\r\n\r\n";
const ANSWER: &[u8] = b"HTTP/1.1 101 Switching Protocols\r\nUpgrade: websocket\r\nConnection: Upgrade\r\nSec-WebSocket-Accept: s3pPLMBiTxaQ9kYGzzhZRbK+xOo=\r\n\r\n";

/// what sozu adds to the 101 head it forwards: "Sozu-Id: <26 characters>\r\n"
const HEAD_EXTRA: usize = 37;

fn after_head(rx: &[u8]) -> Option<(&[u8], &[u8])> {
    rx.windows(4).position(|w| w == b"\r\n\r\n").map(|i| rx.split_at(i + 4))
}

pub fn run_case(case: &WsCase, prefix: Vec<u32>, profile: ChoiceProfile) -> Run {
    let front = scen::addr(1, 8080);
    let back = scen::addr(2, 9090);
    let setup = scen::simple_http(front, back);
    let up = h1::coded_body(3, case.up);
    let down = h1::coded_body(9, case.down);
    let end = case.end;
    // ---- client
    let mut client = vec![Step::Connect { to: front, from: None }];
    // (RFC 6455 section 4.1: the client waits for the server's handshake before it sends anything more)
    client.push(Step::Send { splits: vec![1, REQUEST.len() / 2], bytes: REQUEST.to_vec() });
    client.push(Step::ExpectBytes(ANSWER.len() + HEAD_EXTRA));
    if !case.client_early {
        // ... and a little longer
        client.push(Step::Wait { ms: 5 });
    }
    if !up.is_empty() {
        client.push(Step::Send { splits: vec![1, up.len() / 2, up.len().saturating_sub(1)], bytes: up.clone() });
    }
    let down_len = if end == Ending::ClientClose { 0 } else { case.down };
    match end {
        // (the forwarded 101 head is longer than the backend's: sozu adds its correlation field; the
        // virtual wait lets everything in flight arrive)
        Ending::Open => client.extend([Step::ExpectBytes(ANSWER.len() + HEAD_EXTRA + down_len), Step::Wait { ms: 50 }, Step::Done]),
        Ending::BackendClose => client.extend([Step::ExpectBytes(ANSWER.len() + HEAD_EXTRA + down_len), Step::ExpectEof, Step::Done]),
        Ending::ClientClose => client.extend([Step::Close, Step::Done]),
        Ending::ClientHalfClose => client.extend([Step::HalfClose, Step::ExpectBytes(ANSWER.len() + HEAD_EXTRA + down_len), Step::ExpectEof, Step::Done]),
    }
    // ---- backend
    let mut backend = vec![Step::Accept, Step::ExpectH1 { count: 1, responses: false }];
    let send_down_separately = !case.backend_early || matches!(end, Ending::ClientClose | Ending::ClientHalfClose);
    if send_down_separately {
        backend.push(Step::Send { splits: vec![1, ANSWER.len() / 2], bytes: ANSWER.to_vec() });
    } else {
        let mut first = ANSWER.to_vec();
        first.extend_from_slice(&down);
        backend.push(Step::Send { splits: vec![1, ANSWER.len() - 1, ANSWER.len(), ANSWER.len() + 1, first.len() - 1], bytes: first });
    }
    // (the forwarded request head is longer than the client's: sozu adds its fields)
    let send_down = |b: &mut Vec<Step>| {
        if send_down_separately && !down.is_empty() {
            // a separate segment, later
            b.push(Step::Wait { ms: 2 });
            b.push(Step::Send { splits: vec![1, down.len() / 2], bytes: down.clone() });
        }
    };
    match end {
        Ending::Open => {
            send_down(&mut backend);
            backend.extend([Step::Wait { ms: 50 }, Step::Done]);
        }
        Ending::BackendClose => {
            send_down(&mut backend);
            if !case.close_at_once {
                backend.push(Step::Wait { ms: 20 });
            }
            backend.extend([Step::Close, Step::Done]);
        }
        Ending::ClientClose => backend.extend([Step::ExpectEof, Step::Done]),
        Ending::ClientHalfClose => {
            backend.push(Step::ExpectEof);
            send_down(&mut backend);
            backend.extend([Step::Close, Step::Done]);
        }
    }
    let backend = Peer::server("backend", back, backend);
    let client = Peer::client("client", client);
    let bs = case.buffer_size;
    let ws = WorkerSetup { config: worker::server_config(|c| c.buffer_size = bs), initial: scen::http_state(&setup) };
    let (mut exec, create_err) = worker::run_worker(ws, vec![backend, client], vec![MainStep::AwaitPeersFor { ms: 30_000 }], profile, prefix, 200);
    if let Some(e) = create_err {
        crate::common::machinery_error(&format!("worker creation failed: {e}"));
    }
    let mut violations: Vec<(String, String)> = vec![];
    let ending = if case.close_at_once { format!("{end:?}AtOnce") } else { format!("{end:?}") };
    let mut flag = |k: String, d: String| violations.push((format!("C18|websocket|{ending}|{k}"), d));
    if let Some(p) = &exec.subject_panic {
        flag("worker-panic".into(), format!("worker panicked: {p}"));
    }
    let run_end = exec.end.clone();
    let sc = worker::scenario_of(&mut exec);
    let b = &sc.peers[0];
    let c = &sc.peers[1];
    let obs = format!("end={run_end:?} backend_rx={} client_rx={} client_eof={} backend_eof={}", b.conn.rx.len(), c.conn.rx.len(), c.conn.eof || c.conn.reset, b.conn.eof || b.conn.reset);
    // ---- upstream: the forwarded request head, then exactly the client's bytes
    match after_head(&b.conn.rx) {
        None => flag("upstream:request-not-forwarded".into(), format!("the backend received {} bytes and no complete request head", b.conn.rx.len())),
        Some((head, payload)) => {
            let head_s = String::from_utf8_lossy(head).to_ascii_lowercase();
            if !head_s.starts_with("get /chat http/1.1\r\n") || !head_s.contains("upgrade: websocket") {
                flag("upstream:request-changed".into(), format!("the forwarded request head lost its upgrade: {:?}", String::from_utf8_lossy(head)));
            }
            if payload != &up[..] && !case.close_at_once {
                let class = if payload.len() < up.len() && up.starts_with(payload) { "truncated" } else if payload.len() > up.len() && payload.starts_with(&up) { "extra-bytes" } else { "corrupted" };
                flag(format!("upstream:payload-{class}"), format!("after the request head the backend received {} bytes, the client sent {} (client_early={})", payload.len(), up.len(), case.client_early));
            }
        }
    }
    // ---- downstream: the 101 head, then exactly the backend's bytes
    match after_head(&c.conn.rx) {
        None => flag("downstream:answer-not-forwarded".into(), format!("the client received {} bytes and no complete 101 head", c.conn.rx.len())),
        Some((head, payload)) => {
            if head.len() != ANSWER.len() + HEAD_EXTRA {
                crate::common::machinery_error(&format!("the forwarded 101 head is {} bytes long, the script assumes {}", head.len(), ANSWER.len() + HEAD_EXTRA));
            }
            if !head.starts_with(b"HTTP/1.1 101") {
                flag("downstream:answer-changed".into(), format!("the client's answer starts {:?}", String::from_utf8_lossy(&head[..head.len().min(40)])));
            }
            let want = &down[..down_len];
            if payload != want {
                let class = if payload.len() < want.len() && want.starts_with(payload) { "truncated" } else if payload.len() > want.len() && payload.starts_with(want) { "extra-bytes" } else { "corrupted" };
                flag(format!("downstream:payload-{class}"), format!("after the 101 head the client received {} bytes, the backend sent {} (backend_early={})", payload.len(), want.len(), case.backend_early));
            }
        }
    }
    if matches!(end, Ending::ClientClose | Ending::ClientHalfClose) && !b.conn.eof {
        flag("upstream:eof-not-forwarded".into(), "the client ended its stream after its payload but the backend never saw end-of-stream".into());
    }
    if matches!(end, Ending::BackendClose | Ending::ClientHalfClose) && !(c.conn.eof || c.conn.reset) {
        flag("downstream:eof-not-forwarded".into(), "the backend closed after its payload but the client never saw end-of-stream".into());
    }
    if let Some(t) = c.conn.last_rx_ns {
        if (t - VIRTUAL_EPOCH_NS) / 1_000_000 >= 1000 {
            flag("completed-only-after-timer".into(), format!("the last byte reached the client after {} virtual ms", (t - VIRTUAL_EPOCH_NS) / 1_000_000));
        }
    }
    drop(flag);
    if run_end != End::Finished && violations.is_empty() {
        violations.push((format!("C18|websocket|{end:?}|worker-{}", format!("{run_end:?}").to_lowercase()), format!("run ended {run_end:?} although every expected byte was delivered")));
    }
    Run { trace: exec.trace, observation: obs, violations, diverged: exec.diverged }
}

pub fn cases(tier: Tier) -> Vec<WsCase> {
    let mut v = vec![];
    let sizes: &[usize] = if tier == Tier::Quick { &[1, 100, 16393, 40000] } else { &[1, 2, 100, 4096, 16383, 16384, 16385, 16393, 16394, 40000, 131073] };
    let ends = [Ending::Open, Ending::BackendClose, Ending::ClientClose, Ending::ClientHalfClose];
    for &n in sizes {
        for end in ends {
            for (client_early, backend_early) in [(false, false), (true, false), (false, true), (true, true)] {
                v.push(WsCase { up: n, down: 7, end, client_early, backend_early, buffer_size: 16393, close_at_once: false });
                if end != Ending::ClientClose {
                    v.push(WsCase { up: 7, down: n, end, client_early, backend_early, buffer_size: 16393, close_at_once: false });
                }
            }
        }
    }
    for end in ends {
        v.push(WsCase { up: 20000, down: 20000, end, client_early: false, backend_early: false, buffer_size: 4096, close_at_once: false });
        v.push(WsCase { up: 0, down: 5000, end, client_early: false, backend_early: true, buffer_size: 16393, close_at_once: false });
    }
    // the backend's 101 (and first bytes) immediately followed by its FIN
    for (down, backend_early) in [(0usize, false), (7, true), (20000, true), (20000, false)] {
        v.push(WsCase { up: 0, down, end: Ending::BackendClose, client_early: false, backend_early, buffer_size: 16393, close_at_once: true });
    }
    v
}

fn profile() -> ChoiceProfile {
    ChoiceProfile { read_faults: vec![FdClass::Front, FdClass::Back], write_faults: vec![FdClass::Front, FdClass::Back], max_points_per_class: 4, event_order: false, ..Default::default() }
}

pub fn run_item(tier: Tier, item: usize) -> ItemResult {
    let all = cases(tier);
    let case = all[item].clone();
    let mut violations = vec![];
    let c2 = case.clone();
    let stats = explore::search(
        if tier == Tier::Quick { 1 } else { 2 },
        if tier == Tier::Quick { 40 } else { 2000 },
        |prefix| {
            let c = c2.clone();
            let p = prefix.to_vec();
            match worker::isolated(move || run_case(&c, p.clone(), profile())) {
                Ok(r) => r,
                Err(status) => {
                    let mut r = super::c01::crashed_run(prefix, &status);
                    for v in r.violations.iter_mut() {
                        v.0 = v.0.replace("C01|any", "C18|websocket");
                    }
                    r
                }
            }
        },
        |vector, key, desc| {
            let weight = vector.iter().filter(|c| **c != 0).count() as u64 * 1000 + (case.up + case.down) as u64 / 100;
            violations.push((key.to_owned(), desc.to_owned(), json!({"part": "c", "case": case, "choices": vector}), weight));
        },
    );
    let mut counters = BTreeMap::new();
    counters.insert("sim_executions".to_owned(), stats.executions);
    ItemResult { item, label: format!("{case:?}"), stats, violations, counters, sample: json!({"case": case}) }
}

pub fn run(ctx: &Ctx) -> Coverage {
    let tier = ctx.tier();
    let n = cases(tier).len();
    let results = explore::run_sharded(ctx, n, "c18c", |i| run_item(tier, i));
    super::c01::summarize(ctx, &results, "upgraded WebSocket sessions through an unmodified worker: HTTP/1.1 upgrade request, 101 answer, then opaque bytes both ways (sizes straddling the buffer boundaries), four endings (both open, backend closes, client closes, client half-closes), first payload bytes separate from or in the same segment as the request head / the 101 head; every schedule with at most d deviations. Oracle: after the forwarded request head the backend receives exactly the client's bytes, after the 101 head the client receives exactly the backend's bytes, end-of-stream is forwarded after all bytes, nothing completes only after a timer")
}

pub fn replay(ctx: &Ctx, case: &Value) -> Coverage {
    let c: WsCase = serde_json::from_value(case["case"].clone()).unwrap_or_else(|e| crate::common::machinery_error(&format!("bad replay case: {e}")));
    let choices: Vec<u32> = serde_json::from_value(case["choices"].clone()).unwrap_or_default();
    let r = worker::isolated(move || run_case(&c, choices, profile())).unwrap_or_else(|s| super::c01::crashed_run(&[], &s));
    for (k, d) in r.violations {
        ctx.violation(k, d, case.clone());
    }
    Coverage { states: 1, transitions: 1, evaluations: 1, distinct_nontrivial: 1, distinct_outcomes: 1, rule: "replay".into(), ..Default::default() }
}

pub fn debug(args: &crate::common::Args) {
    let all = cases(args.tier);
    let item: usize = args.extra.get("item").and_then(|s| s.parse().ok()).unwrap_or(0);
    let mut choices: Vec<u32> = args.extra.get("choices").map(|s| s.split(',').filter_map(|x| x.parse().ok()).collect()).unwrap_or_default();
    let mut c = all[item].clone();
    if let Some(f) = args.extra.get("file") {
        let j = crate::common::load_replay(&std::path::PathBuf::from(f));
        c = serde_json::from_value(j["case"]["case"].clone()).unwrap();
        choices = serde_json::from_value(j["case"]["choices"].clone()).unwrap();
    }
    println!("{} cases; {:?}", all.len(), c);
    let r = worker::isolated(move || run_case(&c, choices, profile())).unwrap();
    println!("obs={}", r.observation);
    println!("trace={:?}", r.trace.iter().map(|p| format!("{}:{}/{}", p.kind, p.chosen, p.alternatives)).collect::<Vec<_>>());
    println!("violations={:#?}", r.violations);
}
