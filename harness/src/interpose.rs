//! libc symbol interposition. The harness binary exports its own definitions
//! of the libc entry points sozu's event loops use; the static linker binds
//! std/mio/nix/rustls to them and they reach the real libc through
//! `dlsym(RTLD_NEXT)`. Everything is pass-through unless the calling thread
//! has switched a seam on (all state is thread-local).

#![allow(clippy::missing_safety_doc)]

use std::{
    cell::Cell,
    ffi::{CStr, c_char, c_int, c_void},
    sync::atomic::{AtomicUsize, Ordering},
};

use libc::{clockid_t, timespec};

pub(crate) unsafe fn real(sym: &'static CStr, slot: &AtomicUsize) -> *mut c_void {
    let p = slot.load(Ordering::Relaxed);
    if p != 0 {
        return p as *mut c_void;
    }
    let f = unsafe { libc::dlsym(libc::RTLD_NEXT, sym.as_ptr() as *const c_char) };
    if f.is_null() {
        // cannot use machinery_error (may allocate / re-enter); abort loudly
        let msg = b"MACHINERY-ERROR: dlsym(RTLD_NEXT) failed\n";
        unsafe { libc::write(2, msg.as_ptr() as *const c_void, msg.len()) };
        unsafe { libc::_exit(3) };
    }
    slot.store(f as usize, Ordering::Relaxed);
    f
}

// ------------------------------------------------------------------ clock

#[derive(Clone, Copy, Debug, PartialEq)]
pub enum ClockMode {
    Real,
    /// real time plus an offset that only the harness advances
    Offset(u64),
    /// fully virtual: nanoseconds since an arbitrary epoch
    Virtual(u64),
}

thread_local! {
    static CLOCK: Cell<ClockMode> = const { Cell::new(ClockMode::Real) };
}

pub fn set_clock(mode: ClockMode) {
    CLOCK.with(|c| c.set(mode));
}
pub fn clock() -> ClockMode {
    CLOCK.with(|c| c.get())
}
/// Advance the thread's clock (Offset or Virtual mode) by `ns`.
pub fn advance_clock(ns: u64) {
    CLOCK.with(|c| {
        c.set(match c.get() {
            ClockMode::Real => ClockMode::Offset(ns),
            ClockMode::Offset(o) => ClockMode::Offset(o + ns),
            ClockMode::Virtual(v) => ClockMode::Virtual(v + ns),
        })
    });
}

/// Base of the virtual clock: large enough that `Instant - Duration`
/// arithmetic in sozu never underflows.
pub const VIRTUAL_EPOCH_NS: u64 = 1_000_000 * 1_000_000_000;

static REAL_CLOCK_GETTIME: AtomicUsize = AtomicUsize::new(0);

#[unsafe(no_mangle)]
pub unsafe extern "C" fn clock_gettime(clk: clockid_t, tp: *mut timespec) -> c_int {
    let f: unsafe extern "C" fn(clockid_t, *mut timespec) -> c_int =
        unsafe { std::mem::transmute(real(c"clock_gettime", &REAL_CLOCK_GETTIME)) };
    let mode = CLOCK.try_with(|c| c.get()).unwrap_or(ClockMode::Real);
    match mode {
        ClockMode::Real => unsafe { f(clk, tp) },
        ClockMode::Offset(off) => {
            let r = unsafe { f(clk, tp) };
            if r == 0 && !tp.is_null() {
                let t = unsafe { &mut *tp };
                let total = t.tv_nsec as u64 + off % 1_000_000_000;
                t.tv_sec += (off / 1_000_000_000) as i64 + (total / 1_000_000_000) as i64;
                t.tv_nsec = (total % 1_000_000_000) as i64;
            }
            r
        }
        ClockMode::Virtual(v) => {
            if tp.is_null() {
                return -1;
            }
            // CPU-time clocks are not virtualised
            if clk == libc::CLOCK_PROCESS_CPUTIME_ID || clk == libc::CLOCK_THREAD_CPUTIME_ID {
                return unsafe { f(clk, tp) };
            }
            let t = unsafe { &mut *tp };
            // wall clock: fixed date + virtual elapsed; monotonic: epoch + elapsed
            let base: u64 = if clk == libc::CLOCK_REALTIME || clk == libc::CLOCK_REALTIME_COARSE {
                1_790_000_000 * 1_000_000_000 + (v - VIRTUAL_EPOCH_NS.min(v))
            } else {
                v
            };
            t.tv_sec = (base / 1_000_000_000) as i64;
            t.tv_nsec = (base % 1_000_000_000) as i64;
            0
        }
    }
}

// ------------------------------------------------------------------ SIM seam
//
// When a thread installs a `SimHooks` object, every call the *subject* (sozu)
// makes to the functions below is routed to it. Calls made while the harness
// itself is executing (`in_env`) are passed straight to libc.

use std::cell::RefCell;

/// What the simulation decides for one subject syscall.
pub enum IoDecision {
    /// perform the real call with (at most) this many bytes
    Pass(usize),
    /// fail with EAGAIN without touching the kernel
    WouldBlock,
}

pub trait SimHooks {
    /// subject called epoll_wait: run the environment, return the events to
    /// hand back (already written into `events`, at most `max`)
    fn epoll_wait(&mut self, epfd: c_int, events: *mut libc::epoll_event, max: c_int, timeout_ms: c_int) -> c_int;
    fn epoll_ctl(&mut self, epfd: c_int, op: c_int, fd: c_int, event: *mut libc::epoll_event, result: c_int);
    /// subject is about to read up to `len` bytes from `fd`
    fn on_read(&mut self, fd: c_int, len: usize) -> IoDecision;
    fn after_read(&mut self, fd: c_int, requested: usize, allowed: usize, result: isize);
    fn on_write(&mut self, fd: c_int, len: usize) -> IoDecision;
    fn after_write(&mut self, fd: c_int, requested: usize, allowed: usize, result: isize);
    fn on_close(&mut self, fd: c_int);
    fn on_accept(&mut self, listener: c_int, result: c_int);
    fn on_connect(&mut self, fd: c_int, result: c_int);
    /// kill(pid, sig) from the subject: never reaches the kernel
    fn on_kill(&mut self, pid: libc::pid_t, sig: c_int) -> c_int;
    /// bytes for getrandom(): deterministic per execution
    fn random(&mut self, buf: &mut [u8]);
}

thread_local! {
    /// deterministic entropy for a whole thread (set at the very start of an
    /// execution thread, before any HashMap seeds itself): Some(state)
    static THREAD_RNG: Cell<Option<u64>> = const { Cell::new(None) };
    static HOOKS: RefCell<Option<Box<dyn SimHooks>>> = const { RefCell::new(None) };
    static IN_ENV: Cell<bool> = const { Cell::new(false) };
    static SIM_ON: Cell<bool> = const { Cell::new(false) };
}

/// From now on every getrandom() of this thread is answered from a fixed
/// pseudo-random stream (unless a simulation is active, which has its own).
pub fn deterministic_entropy(seed: u64) {
    THREAD_RNG.with(|c| c.set(Some(seed | 1)));
}
fn thread_rng_fill(buf: &mut [u8]) -> bool {
    THREAD_RNG
        .try_with(|c| match c.get() {
            None => false,
            Some(mut x) => {
                for b in buf.iter_mut() {
                    x ^= x >> 12;
                    x ^= x << 25;
                    x ^= x >> 27;
                    *b = (x.wrapping_mul(0x2545_F491_4F6C_DD1D) >> 56) as u8;
                }
                c.set(Some(x));
                true
            }
        })
        .unwrap_or(false)
}

pub fn install_hooks(h: Box<dyn SimHooks>) {
    HOOKS.with(|c| *c.borrow_mut() = Some(h));
    SIM_ON.with(|c| c.set(true));
}
pub fn remove_hooks() -> Option<Box<dyn SimHooks>> {
    SIM_ON.with(|c| c.set(false));
    HOOKS.with(|c| c.borrow_mut().take())
}
/// Run harness code (the environment) with interposition switched off.
pub fn in_env<R>(f: impl FnOnce() -> R) -> R {
    let prev = IN_ENV.with(|c| c.replace(true));
    let r = f();
    IN_ENV.with(|c| c.set(prev));
    r
}
#[inline]
fn subject_call() -> bool {
    SIM_ON.try_with(|c| c.get()).unwrap_or(false) && !IN_ENV.try_with(|c| c.get()).unwrap_or(true)
}
fn with_hooks<R>(f: impl FnOnce(&mut dyn SimHooks) -> R) -> R {
    // harness code reached through the hooks runs "in the environment"
    let prev = IN_ENV.with(|c| c.replace(true));
    let r = HOOKS.with(|c| {
        let mut g = c.borrow_mut();
        let h = g.as_mut().expect("SIM_ON without hooks");
        f(h.as_mut())
    });
    IN_ENV.with(|c| c.set(prev));
    r
}

fn set_errno(e: c_int) {
    unsafe { *libc::__errno_location() = e };
}

macro_rules! real_fn {
    ($slot:ident, $name:literal, $ty:ty) => {{
        static $slot: AtomicUsize = AtomicUsize::new(0);
        let f: $ty = unsafe { std::mem::transmute(real($name, &$slot)) };
        f
    }};
}

pub mod sys {
    //! direct access to the real libc functions (for harness code that must
    //! never be intercepted even when called outside `in_env`)
    use super::*;
    pub unsafe fn epoll_wait(epfd: c_int, ev: *mut libc::epoll_event, max: c_int, to: c_int) -> c_int {
        let f = real_fn!(S, c"epoll_wait", unsafe extern "C" fn(c_int, *mut libc::epoll_event, c_int, c_int) -> c_int);
        unsafe { f(epfd, ev, max, to) }
    }
}

#[unsafe(no_mangle)]
pub unsafe extern "C" fn epoll_wait(epfd: c_int, events: *mut libc::epoll_event, max: c_int, timeout: c_int) -> c_int {
    if !subject_call() {
        return unsafe { sys::epoll_wait(epfd, events, max, timeout) };
    }
    with_hooks(|h| h.epoll_wait(epfd, events, max, timeout))
}

#[unsafe(no_mangle)]
pub unsafe extern "C" fn epoll_pwait(epfd: c_int, events: *mut libc::epoll_event, max: c_int, timeout: c_int, sigmask: *const libc::sigset_t) -> c_int {
    if !subject_call() {
        let f = real_fn!(S, c"epoll_pwait", unsafe extern "C" fn(c_int, *mut libc::epoll_event, c_int, c_int, *const libc::sigset_t) -> c_int);
        return unsafe { f(epfd, events, max, timeout, sigmask) };
    }
    with_hooks(|h| h.epoll_wait(epfd, events, max, timeout))
}

#[unsafe(no_mangle)]
pub unsafe extern "C" fn epoll_ctl(epfd: c_int, op: c_int, fd: c_int, event: *mut libc::epoll_event) -> c_int {
    let f = real_fn!(S, c"epoll_ctl", unsafe extern "C" fn(c_int, c_int, c_int, *mut libc::epoll_event) -> c_int);
    let r = unsafe { f(epfd, op, fd, event) };
    if subject_call() {
        let e = unsafe { *libc::__errno_location() };
        with_hooks(|h| h.epoll_ctl(epfd, op, fd, event, r));
        set_errno(e);
    }
    r
}

unsafe fn do_read(fd: c_int, len: usize, call: &mut dyn FnMut(usize) -> isize) -> isize {
    if !subject_call() {
        return call(len);
    }
    match with_hooks(|h| h.on_read(fd, len)) {
        IoDecision::WouldBlock => {
            with_hooks(|h| h.after_read(fd, len, 0, -1));
            set_errno(libc::EAGAIN);
            -1
        }
        IoDecision::Pass(n) => {
            let r = call(n.min(len));
            let e = unsafe { *libc::__errno_location() };
            with_hooks(|h| h.after_read(fd, len, n.min(len), r));
            set_errno(e);
            r
        }
    }
}

unsafe fn do_write(fd: c_int, len: usize, call: &mut dyn FnMut(usize) -> isize) -> isize {
    if !subject_call() {
        return call(len);
    }
    match with_hooks(|h| h.on_write(fd, len)) {
        IoDecision::WouldBlock => {
            with_hooks(|h| h.after_write(fd, len, 0, -1));
            set_errno(libc::EAGAIN);
            -1
        }
        IoDecision::Pass(n) => {
            let r = call(n.min(len));
            let e = unsafe { *libc::__errno_location() };
            with_hooks(|h| h.after_write(fd, len, n.min(len), r));
            set_errno(e);
            r
        }
    }
}

#[unsafe(no_mangle)]
pub unsafe extern "C" fn read(fd: c_int, buf: *mut c_void, count: usize) -> isize {
    let f = real_fn!(S, c"read", unsafe extern "C" fn(c_int, *mut c_void, usize) -> isize);
    unsafe { do_read(fd, count, &mut |n| f(fd, buf, n)) }
}

#[unsafe(no_mangle)]
pub unsafe extern "C" fn recv(fd: c_int, buf: *mut c_void, len: usize, flags: c_int) -> isize {
    let f = real_fn!(S, c"recv", unsafe extern "C" fn(c_int, *mut c_void, usize, c_int) -> isize);
    if flags & libc::MSG_PEEK != 0 {
        return unsafe { f(fd, buf, len, flags) };
    }
    unsafe { do_read(fd, len, &mut |n| f(fd, buf, n, flags)) }
}

#[unsafe(no_mangle)]
pub unsafe extern "C" fn write(fd: c_int, buf: *const c_void, count: usize) -> isize {
    let f = real_fn!(S, c"write", unsafe extern "C" fn(c_int, *const c_void, usize) -> isize);
    if fd <= 2 {
        return unsafe { f(fd, buf, count) };
    }
    unsafe { do_write(fd, count, &mut |n| f(fd, buf, n)) }
}

#[unsafe(no_mangle)]
pub unsafe extern "C" fn send(fd: c_int, buf: *const c_void, len: usize, flags: c_int) -> isize {
    let f = real_fn!(S, c"send", unsafe extern "C" fn(c_int, *const c_void, usize, c_int) -> isize);
    unsafe { do_write(fd, len, &mut |n| f(fd, buf, n, flags)) }
}

#[unsafe(no_mangle)]
pub unsafe extern "C" fn writev(fd: c_int, iov: *const libc::iovec, iovcnt: c_int) -> isize {
    let f = real_fn!(S, c"writev", unsafe extern "C" fn(c_int, *const libc::iovec, c_int) -> isize);
    if !subject_call() || iovcnt <= 0 {
        return unsafe { f(fd, iov, iovcnt) };
    }
    let vecs = unsafe { std::slice::from_raw_parts(iov, iovcnt as usize) };
    let total: usize = vecs.iter().map(|v| v.iov_len).sum();
    unsafe {
        do_write(fd, total, &mut |n| {
            if n >= total {
                return f(fd, iov, iovcnt);
            }
            // truncated vector write: rebuild an iovec array covering n bytes
            let mut left = n;
            let mut cut: Vec<libc::iovec> = vec![];
            for v in vecs {
                if left == 0 {
                    break;
                }
                let take = v.iov_len.min(left);
                cut.push(libc::iovec { iov_base: v.iov_base, iov_len: take });
                left -= take;
            }
            f(fd, cut.as_ptr(), cut.len() as c_int)
        })
    }
}

#[unsafe(no_mangle)]
pub unsafe extern "C" fn readv(fd: c_int, iov: *const libc::iovec, iovcnt: c_int) -> isize {
    let f = real_fn!(S, c"readv", unsafe extern "C" fn(c_int, *const libc::iovec, c_int) -> isize);
    if !subject_call() || iovcnt <= 0 {
        return unsafe { f(fd, iov, iovcnt) };
    }
    let vecs = unsafe { std::slice::from_raw_parts(iov, iovcnt as usize) };
    let total: usize = vecs.iter().map(|v| v.iov_len).sum();
    unsafe {
        do_read(fd, total, &mut |n| {
            if n >= total {
                return f(fd, iov, iovcnt);
            }
            let mut left = n;
            let mut cut: Vec<libc::iovec> = vec![];
            for v in vecs {
                if left == 0 {
                    break;
                }
                let take = v.iov_len.min(left);
                cut.push(libc::iovec { iov_base: v.iov_base, iov_len: take });
                left -= take;
            }
            f(fd, cut.as_ptr(), cut.len() as c_int)
        })
    }
}

#[unsafe(no_mangle)]
pub unsafe extern "C" fn close(fd: c_int) -> c_int {
    let f = real_fn!(S, c"close", unsafe extern "C" fn(c_int) -> c_int);
    if subject_call() {
        with_hooks(|h| h.on_close(fd));
    }
    unsafe { f(fd) }
}

/// Loopback sockets of a simulated run are a lossless pipe wide enough for every scripted body:
/// with the kernel's default (auto-tuned) buffers a large write is cut short at a point that
/// depends on real timing, which the exploration cannot own. All back-pressure a scenario
/// needs is injected by the simulation instead. (4 MiB, the host's wmem_max / rmem_max.)
pub fn wide_socket_buffers(fd: c_int) {
    let size: c_int = 4 * 1024 * 1024;
    for opt in [libc::SO_SNDBUF, libc::SO_RCVBUF] {
        unsafe { libc::setsockopt(fd, libc::SOL_SOCKET, opt, &size as *const _ as *const c_void, std::mem::size_of::<c_int>() as u32) };
    }
}

fn is_stream_socket(fd: c_int) -> bool {
    let mut ty: c_int = 0;
    let mut len = std::mem::size_of::<c_int>() as libc::socklen_t;
    let r = unsafe { libc::getsockopt(fd, libc::SOL_SOCKET, libc::SO_TYPE, &mut ty as *mut _ as *mut c_void, &mut len) };
    r == 0 && ty == libc::SOCK_STREAM
}

#[unsafe(no_mangle)]
pub unsafe extern "C" fn accept4(fd: c_int, addr: *mut libc::sockaddr, len: *mut libc::socklen_t, flags: c_int) -> c_int {
    let f = real_fn!(S, c"accept4", unsafe extern "C" fn(c_int, *mut libc::sockaddr, *mut libc::socklen_t, c_int) -> c_int);
    let r = unsafe { f(fd, addr, len, flags) };
    if subject_call() {
        let e = unsafe { *libc::__errno_location() };
        if r >= 0 && is_stream_socket(r) {
            wide_socket_buffers(r);
        }
        with_hooks(|h| h.on_accept(fd, r));
        set_errno(e);
    }
    r
}

#[unsafe(no_mangle)]
pub unsafe extern "C" fn connect(fd: c_int, addr: *const libc::sockaddr, len: libc::socklen_t) -> c_int {
    let f = real_fn!(S, c"connect", unsafe extern "C" fn(c_int, *const libc::sockaddr, libc::socklen_t) -> c_int);
    if subject_call() && is_stream_socket(fd) {
        wide_socket_buffers(fd);
    }
    let r = unsafe { f(fd, addr, len) };
    if subject_call() {
        let e = unsafe { *libc::__errno_location() };
        with_hooks(|h| h.on_connect(fd, r));
        set_errno(e);
    }
    r
}

#[unsafe(no_mangle)]
pub unsafe extern "C" fn kill(pid: libc::pid_t, sig: c_int) -> c_int {
    if subject_call() {
        return with_hooks(|h| h.on_kill(pid, sig));
    }
    let f = real_fn!(S, c"kill", unsafe extern "C" fn(libc::pid_t, c_int) -> c_int);
    unsafe { f(pid, sig) }
}

#[unsafe(no_mangle)]
pub unsafe extern "C" fn getrandom(buf: *mut c_void, len: usize, flags: libc::c_uint) -> isize {
    if subject_call() && !buf.is_null() {
        let s = unsafe { std::slice::from_raw_parts_mut(buf as *mut u8, len) };
        with_hooks(|h| h.random(s));
        return len as isize;
    }
    if !buf.is_null() && len > 0 && thread_rng_fill(unsafe { std::slice::from_raw_parts_mut(buf as *mut u8, len) }) {
        return len as isize;
    }
    let f = real_fn!(S, c"getrandom", unsafe extern "C" fn(*mut c_void, usize, libc::c_uint) -> isize);
    unsafe { f(buf, len, flags) }
}

/// `syscall(2)`: getrandom 0.2 (rand 0.8, used for ULIDs) asks for entropy
/// through the raw system call. The C prototype is variadic; on x86-64 SysV a
/// fixed seven-argument definition reads exactly the same registers.
#[cfg(target_arch = "x86_64")]
#[unsafe(no_mangle)]
pub unsafe extern "C" fn syscall(num: libc::c_long, a1: libc::c_long, a2: libc::c_long, a3: libc::c_long, a4: libc::c_long, a5: libc::c_long, a6: libc::c_long) -> libc::c_long {
    if num == libc::SYS_getrandom && subject_call() && a1 != 0 {
        let s = unsafe { std::slice::from_raw_parts_mut(a1 as *mut u8, a2 as usize) };
        with_hooks(|h| h.random(s));
        return a2;
    }
    if num == libc::SYS_getrandom && a1 != 0 && a2 > 0 && thread_rng_fill(unsafe { std::slice::from_raw_parts_mut(a1 as *mut u8, a2 as usize) }) {
        return a2;
    }
    let f = real_fn!(S, c"syscall", unsafe extern "C" fn(libc::c_long, libc::c_long, libc::c_long, libc::c_long, libc::c_long, libc::c_long, libc::c_long) -> libc::c_long);
    unsafe { f(num, a1, a2, a3, a4, a5, a6) }
}
