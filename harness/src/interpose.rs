//! libc symbol interposition. The harness binary exports its own definitions
//! of the libc entry points sozu's event loops use; the static linker binds
//! std/mio/nix/rustls to them and they reach the real libc through
//! `dlsym(RTLD_NEXT)`. Everything is pass-through unless the calling thread
//! has switched a seam on (all state is thread-local).

#![allow(clippy::missing_safety_doc)]

use std::{
    cell::Cell,
    ffi::{CStr, c_char, c_int, c_void},
    sync::atomic::{AtomicUsize, Ordering},
};

use libc::{clockid_t, timespec};

pub(crate) unsafe fn real(sym: &'static CStr, slot: &AtomicUsize) -> *mut c_void {
    let p = slot.load(Ordering::Relaxed);
    if p != 0 {
        return p as *mut c_void;
    }
    let f = unsafe { libc::dlsym(libc::RTLD_NEXT, sym.as_ptr() as *const c_char) };
    if f.is_null() {
        // cannot use machinery_error (may allocate / re-enter); abort loudly
        let msg = b"MACHINERY-ERROR: dlsym(RTLD_NEXT) failed\n";
        unsafe { libc::write(2, msg.as_ptr() as *const c_void, msg.len()) };
        unsafe { libc::_exit(3) };
    }
    slot.store(f as usize, Ordering::Relaxed);
    f
}

// ------------------------------------------------------------------ clock

#[derive(Clone, Copy, Debug, PartialEq)]
pub enum ClockMode {
    Real,
    /// real time plus an offset that only the harness advances
    Offset(u64),
    /// fully virtual: nanoseconds since an arbitrary epoch
    Virtual(u64),
}

thread_local! {
    static CLOCK: Cell<ClockMode> = const { Cell::new(ClockMode::Real) };
}

pub fn set_clock(mode: ClockMode) {
    CLOCK.with(|c| c.set(mode));
}
pub fn clock() -> ClockMode {
    CLOCK.with(|c| c.get())
}
/// Advance the thread's clock (Offset or Virtual mode) by `ns`.
pub fn advance_clock(ns: u64) {
    CLOCK.with(|c| {
        c.set(match c.get() {
            ClockMode::Real => ClockMode::Offset(ns),
            ClockMode::Offset(o) => ClockMode::Offset(o + ns),
            ClockMode::Virtual(v) => ClockMode::Virtual(v + ns),
        })
    });
}

/// Base of the virtual clock: large enough that `Instant - Duration`
/// arithmetic in sozu never underflows.
pub const VIRTUAL_EPOCH_NS: u64 = 1_000_000 * 1_000_000_000;

static REAL_CLOCK_GETTIME: AtomicUsize = AtomicUsize::new(0);

#[unsafe(no_mangle)]
pub unsafe extern "C" fn clock_gettime(clk: clockid_t, tp: *mut timespec) -> c_int {
    let f: unsafe extern "C" fn(clockid_t, *mut timespec) -> c_int =
        unsafe { std::mem::transmute(real(c"clock_gettime", &REAL_CLOCK_GETTIME)) };
    let mode = CLOCK.try_with(|c| c.get()).unwrap_or(ClockMode::Real);
    match mode {
        ClockMode::Real => unsafe { f(clk, tp) },
        ClockMode::Offset(off) => {
            let r = unsafe { f(clk, tp) };
            if r == 0 && !tp.is_null() {
                let t = unsafe { &mut *tp };
                let total = t.tv_nsec as u64 + off % 1_000_000_000;
                t.tv_sec += (off / 1_000_000_000) as i64 + (total / 1_000_000_000) as i64;
                t.tv_nsec = (total % 1_000_000_000) as i64;
            }
            r
        }
        ClockMode::Virtual(v) => {
            if tp.is_null() {
                return -1;
            }
            // CPU-time clocks are not virtualised
            if clk == libc::CLOCK_PROCESS_CPUTIME_ID || clk == libc::CLOCK_THREAD_CPUTIME_ID {
                return unsafe { f(clk, tp) };
            }
            let t = unsafe { &mut *tp };
            // wall clock: fixed date + virtual elapsed; monotonic: epoch + elapsed
            let base: u64 = if clk == libc::CLOCK_REALTIME || clk == libc::CLOCK_REALTIME_COARSE {
                1_790_000_000 * 1_000_000_000 + (v - VIRTUAL_EPOCH_NS.min(v))
            } else {
                v
            };
            t.tv_sec = (base / 1_000_000_000) as i64;
            t.tv_nsec = (base % 1_000_000_000) as i64;
            0
        }
    }
}
