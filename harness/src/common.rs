//! Shared machinery: argument parsing, violation bookkeeping, known findings,
//! evidence files, deterministic hashing, parallel helpers.

use std::{
    collections::BTreeMap,
    fs,
    hash::{Hash, Hasher},
    io::Write,
    path::PathBuf,
    sync::Mutex,
    time::Instant,
};

use serde_json::{Value, json};

/// Root of the verification tree: where evidence, replays and the known
/// findings live. The check script exports its own location so that a
/// background run from a snapshot never writes into /verif.
pub fn verif_root() -> String {
    std::env::var("VERIF_ROOT").unwrap_or_else(|_| "/verif".to_owned())
}

#[derive(Clone, Copy, Debug, PartialEq, Eq)]
pub enum Tier {
    Quick,
    Thorough,
}

impl Tier {
    pub fn name(self) -> &'static str {
        match self {
            Tier::Quick => "quick",
            Tier::Thorough => "thorough",
        }
    }
    pub fn pick<T>(self, quick: T, thorough: T) -> T {
        match self {
            Tier::Quick => quick,
            Tier::Thorough => thorough,
        }
    }
}

#[derive(Clone, Debug)]
pub struct Args {
    pub property: String,
    pub tier: Tier,
    pub seed: u64,
    pub replay: Option<PathBuf>,
    /// free-form extras (`--key value`)
    pub extra: BTreeMap<String, String>,
}

impl Args {
    pub fn parse(argv: &[String]) -> Args {
        let mut property = String::new();
        let mut tier = match std::env::var("VERIF_TIER").ok().as_deref() {
            Some("thorough") => Tier::Thorough,
            _ => Tier::Quick,
        };
        let seed = std::env::var("VERIF_SEED")
            .ok()
            .and_then(|s| s.parse::<u64>().ok())
            .unwrap_or(0);
        let mut replay = None;
        let mut extra = BTreeMap::new();
        let mut i = 0;
        while i < argv.len() {
            let a = &argv[i];
            if a == "--tier" {
                i += 1;
                tier = match argv.get(i).map(|s| s.as_str()) {
                    Some("thorough") => Tier::Thorough,
                    Some("quick") => Tier::Quick,
                    other => machinery_error(&format!("bad --tier {other:?}")),
                };
            } else if a == "--replay" {
                i += 1;
                replay = Some(PathBuf::from(
                    argv.get(i)
                        .unwrap_or_else(|| machinery_error("--replay needs a path")),
                ));
            } else if let Some(k) = a.strip_prefix("--") {
                i += 1;
                extra.insert(k.to_owned(), argv.get(i).cloned().unwrap_or_default());
            } else if property.is_empty() {
                property = a.clone();
            } else {
                machinery_error(&format!("unexpected argument {a}"));
            }
            i += 1;
        }
        Args {
            property,
            tier,
            seed,
            replay,
            extra,
        }
    }
}

/// Exit code for "the machinery itself is broken" — never 0, never 1, and no
/// VIOLATION line.
pub fn machinery_error(msg: &str) -> ! {
    eprintln!("MACHINERY-ERROR: {msg}");
    std::process::exit(3);
}

/// A stable 64-bit FNV-1a hasher: keys must not depend on the per-process
/// SipHash seed.
#[derive(Clone)]
pub struct Fnv(pub u64);
impl Default for Fnv {
    fn default() -> Self {
        Fnv(0xcbf29ce484222325)
    }
}
impl Hasher for Fnv {
    fn finish(&self) -> u64 {
        self.0
    }
    fn write(&mut self, bytes: &[u8]) {
        for b in bytes {
            self.0 ^= *b as u64;
            self.0 = self.0.wrapping_mul(0x100000001b3);
        }
    }
}
pub fn fnv_of<T: Hash + ?Sized>(t: &T) -> u64 {
    let mut h = Fnv::default();
    t.hash(&mut h);
    h.finish()
}
pub fn fnv_str(s: &str) -> u64 {
    let mut h = Fnv::default();
    h.write(s.as_bytes());
    h.finish()
}

#[derive(Clone, Debug)]
pub struct Violation {
    /// canonical fingerprint of the failing case *class*; the unit of
    /// known-finding matching and of de-duplication
    pub key: String,
    pub what: String,
    /// first (= minimal under BFS / ascending enumeration) failing case,
    /// self-contained enough for `--replay`
    pub case: Value,
    pub count: u64,
    pub weight: u64,
}

#[derive(Clone, Debug)]
pub struct KnownFinding {
    pub property: String,
    pub key: String,
    pub what: String,
    pub status: String, // "open" | "fixed"
    pub commit: Option<String>,
}

pub fn load_known_findings() -> Vec<KnownFinding> {
    let path = format!("{}/known_findings.jsonl", verif_root());
    let Ok(text) = fs::read_to_string(&path) else {
        return vec![];
    };
    let mut v = vec![];
    for line in text.lines() {
        let line = line.trim();
        if line.is_empty() || line.starts_with('#') {
            continue;
        }
        // repaired defects: "fixed: property=<id> <commit> <what failed>";
        // informational only, they suppress nothing
        if let Some(rest) = line.strip_prefix("fixed:") {
            let mut it = rest.trim().splitn(3, ' ');
            let prop = it.next().unwrap_or("").trim_start_matches("property=");
            let commit = it.next().unwrap_or("");
            v.push(KnownFinding {
                property: prop.to_owned(),
                key: String::new(),
                what: it.next().unwrap_or("").to_owned(),
                status: "fixed".to_owned(),
                commit: Some(commit.to_owned()),
            });
            continue;
        }
        let j: Value = serde_json::from_str(line)
            .unwrap_or_else(|e| machinery_error(&format!("known_findings.jsonl: {e}")));
        v.push(KnownFinding {
            property: j["property"].as_str().unwrap_or("").to_owned(),
            key: j["key"].as_str().unwrap_or("").to_owned(),
            what: j["what"].as_str().unwrap_or("").to_owned(),
            status: j["status"].as_str().unwrap_or("open").to_owned(),
            commit: j["commit"].as_str().map(|s| s.to_owned()),
        });
    }
    v
}

/// Collector shared by the worker threads of one check.
pub struct Ctx {
    pub args: Args,
    pub start: Instant,
    violations: Mutex<BTreeMap<String, Violation>>,
    counters: Mutex<BTreeMap<String, u64>>,
    samples: Mutex<Vec<Value>>,
    notes: Mutex<Vec<String>>,
}

impl Ctx {
    pub fn new(args: Args) -> Ctx {
        Ctx {
            args,
            start: Instant::now(),
            violations: Mutex::new(BTreeMap::new()),
            counters: Mutex::new(BTreeMap::new()),
            samples: Mutex::new(vec![]),
            notes: Mutex::new(vec![]),
        }
    }
    pub fn tier(&self) -> Tier {
        self.args.tier
    }

    /// Record a violation. The first one recorded per key is kept as the
    /// representative (enumerations go simplest-first).
    pub fn violation(&self, key: impl Into<String>, what: impl Into<String>, case: Value) {
        self.violation_w(key, what, case, u64::MAX)
    }
    /// Like `violation`, but among cases with the same key the one with the
    /// smallest `weight` (then the lexicographically smallest case) is kept
    /// as the representative, independently of thread timing.
    pub fn violation_w(
        &self,
        key: impl Into<String>,
        what: impl Into<String>,
        case: Value,
        weight: u64,
    ) {
        let key = key.into();
        let mut g = self.violations.lock().unwrap();
        match g.get_mut(&key) {
            Some(v) => {
                v.count += 1;
                if weight < v.weight
                    || (weight == v.weight && weight != u64::MAX && case.to_string() < v.case.to_string())
                {
                    v.weight = weight;
                    v.what = what.into();
                    v.case = case;
                }
            }
            None => {
                g.insert(
                    key.clone(),
                    Violation {
                        key,
                        what: what.into(),
                        case,
                        count: 1,
                        weight,
                    },
                );
            }
        }
    }
    pub fn violation_count(&self) -> usize {
        self.violations.lock().unwrap().len()
    }
    pub fn count(&self, name: &str, n: u64) {
        *self
            .counters
            .lock()
            .unwrap()
            .entry(name.to_owned())
            .or_insert(0) += n;
    }
    pub fn counter(&self, name: &str) -> u64 {
        self.counters
            .lock()
            .unwrap()
            .get(name)
            .copied()
            .unwrap_or(0)
    }
    pub fn set_counter_max(&self, name: &str, n: u64) {
        let mut g = self.counters.lock().unwrap();
        let e = g.entry(name.to_owned()).or_insert(0);
        if n > *e {
            *e = n;
        }
    }
    pub fn sample(&self, v: Value) {
        let mut g = self.samples.lock().unwrap();
        if g.len() < 8 {
            g.push(v);
        }
    }
    pub fn note(&self, s: impl Into<String>) {
        self.notes.lock().unwrap().push(s.into());
    }
    pub fn counters_json(&self) -> Value {
        let g = self.counters.lock().unwrap();
        json!(*g)
    }

    /// Writes evidence, prints KNOWN-FINDING / VIOLATION lines and returns the
    /// process exit code.
    pub fn finish(&self, cov: Coverage) -> i32 {
        let prop = self.args.property.clone();
        let known = load_known_findings();
        let vs = self.violations.lock().unwrap();
        let mut unknown = vec![];
        let mut known_hit = vec![];
        for v in vs.values() {
            let k = known
                .iter()
                .find(|k| k.property == prop && k.key == v.key && k.status == "open");
            match k {
                Some(k) => known_hit.push((k.clone(), v.clone())),
                None => unknown.push(v.clone()),
            }
        }
        // the subject may have left an unterminated line on stdout (the configuration loader
        // prints some of its errors without a newline): verdict lines start on a line of their own
        println!();
        for (k, v) in &known_hit {
            println!(
                "KNOWN-FINDING: property={} key={} {} (reproduced {}x this run)",
                prop, k.key, k.what, v.count
            );
        }
        let mut replay_paths = vec![];
        if self.args.replay.is_none() {
            // replay files of earlier runs are stale
            let _ = fs::remove_dir_all(format!("{}/replays/{prop}", verif_root()));
        }
        if !unknown.is_empty() {
            let dir = format!("{}/replays/{prop}", verif_root());
            let _ = fs::create_dir_all(&dir);
            for v in &unknown {
                let path = format!("{dir}/{:016x}.json", fnv_str(&v.key));
                let body = json!({
                    "property": prop,
                    "key": v.key,
                    "what": v.what,
                    "case": v.case,
                    "occurrences": v.count,
                });
                if let Ok(mut f) = fs::File::create(&path) {
                    let _ = f.write_all(serde_json::to_string_pretty(&body).unwrap().as_bytes());
                }
                println!("VIOLATION property={prop} replay={path}");
                println!("  key={} what={}", v.key, v.what);
                replay_paths.push(path);
            }
        }

        // vacuity guards
        if cov.states == 0 || cov.transitions == 0 {
            machinery_error("vacuous run: zero states or transitions");
        }

        let counters = self.counters.lock().unwrap().clone();
        let mut samples = self.samples.lock().unwrap().clone();
        if samples.is_empty() {
            samples.push(json!("(no sample recorded)"));
        }
        let notes = self.notes.lock().unwrap().clone();
        let wall = self.start.elapsed().as_secs_f64();
        let mut coverage = json!({
            "states": cov.states,
            "transitions": cov.transitions,
            "traces_validated_against_impl": cov.transitions,
            "evaluations": cov.evaluations.max(1),
            "distinct_nontrivial": cov.distinct_nontrivial,
            "distinct_outcomes": cov.distinct_outcomes,
            "rule": cov.rule,
            "exhaustive": cov.exhaustive,
            "bound": cov.bound,
            "caps_hit": cov.caps_hit,
            "samples": samples,
            "counters": counters,
            "known_findings_reproduced": known_hit.iter().map(|(k, _)| k.key.clone()).collect::<Vec<_>>(),
            "notes": notes,
        });
        if let Some(extra) = cov.extra.as_object() {
            for (k, v) in extra {
                coverage[k] = v.clone();
            }
        }
        let evidence = json!({
            "property_id": prop,
            "tier": self.args.tier.name(),
            "seed": self.args.seed,
            "level": "model_checking",
            "coverage": coverage,
            "assumptions": cov.assumptions,
            "wall_s": wall,
            "violations": unknown.len(),
        });
        if self.args.replay.is_none() {
            let dir = format!("{}/evidence", verif_root());
            let _ = fs::create_dir_all(&dir);
            let path = format!("{dir}/{prop}.json");
            let tmp = format!("{path}.tmp");
            fs::write(&tmp, serde_json::to_string_pretty(&evidence).unwrap())
                .unwrap_or_else(|e| machinery_error(&format!("cannot write evidence: {e}")));
            fs::rename(&tmp, &path)
                .unwrap_or_else(|e| machinery_error(&format!("cannot write evidence: {e}")));
        }
        println!(
            "SUMMARY property={} tier={} states={} transitions={} evaluations={} distinct_outcomes={} exhaustive={} known={} violations={} wall_s={:.1}",
            prop,
            self.args.tier.name(),
            cov.states,
            cov.transitions,
            cov.evaluations,
            cov.distinct_outcomes,
            cov.exhaustive,
            known_hit.len(),
            unknown.len(),
            wall
        );
        if unknown.is_empty() { 0 } else { 1 }
    }
}

#[derive(Clone, Debug, Default)]
pub struct Coverage {
    pub states: u64,
    pub transitions: u64,
    pub evaluations: u64,
    pub distinct_nontrivial: u64,
    pub distinct_outcomes: u64,
    pub rule: String,
    pub exhaustive: bool,
    pub bound: Value,
    pub caps_hit: Vec<String>,
    pub assumptions: Vec<String>,
    pub extra: Value,
}

impl Coverage {
    /// Merge a sub-check's coverage into an aggregate.
    pub fn absorb(&mut self, name: &str, other: Coverage) {
        self.states += other.states;
        self.transitions += other.transitions;
        self.evaluations += other.evaluations;
        self.distinct_nontrivial += other.distinct_nontrivial;
        self.distinct_outcomes += other.distinct_outcomes;
        if !self.rule.is_empty() {
            self.rule.push_str(" || ");
        }
        self.rule.push_str(&format!("[{name}] {}", other.rule));
        self.exhaustive = self.exhaustive && other.exhaustive;
        self.caps_hit.extend(other.caps_hit);
        for a in other.assumptions {
            if !self.assumptions.contains(&a) {
                self.assumptions.push(a);
            }
        }
        if !self.bound.is_object() {
            self.bound = json!({});
        }
        self.bound[name] = other.bound;
        if !self.extra.is_object() {
            self.extra = json!({});
        }
        let parts = self.extra["parts"].as_object().cloned().unwrap_or_default();
        let mut parts = parts;
        parts.insert(
            name.to_owned(),
            json!({"states": other.states, "transitions": other.transitions,
                   "evaluations": other.evaluations, "distinct_outcomes": other.distinct_outcomes,
                   "exhaustive": other.exhaustive, "extra": other.extra}),
        );
        self.extra["parts"] = Value::Object(parts);
    }
    pub fn aggregate() -> Coverage {
        Coverage {
            exhaustive: true,
            ..Default::default()
        }
    }
}

/// Run `f` over `items` on up to `threads` OS threads; results come back in
/// input order.
pub fn par_map<T: Sync, R: Send>(
    items: &[T],
    threads: usize,
    f: impl Fn(usize, &T) -> R + Sync,
) -> Vec<R> {
    let n = items.len();
    if n == 0 {
        return vec![];
    }
    let threads = threads.max(1).min(n);
    let next = std::sync::atomic::AtomicUsize::new(0);
    let results: Mutex<Vec<Option<R>>> = Mutex::new((0..n).map(|_| None).collect());
    std::thread::scope(|s| {
        for _ in 0..threads {
            s.spawn(|| {
                thread_init();
                loop {
                    let i = next.fetch_add(1, std::sync::atomic::Ordering::Relaxed);
                    if i >= n {
                        break;
                    }
                    let r = f(i, &items[i]);
                    results.lock().unwrap()[i] = Some(r);
                }
            });
        }
    });
    results
        .into_inner()
        .unwrap()
        .into_iter()
        .map(|r| r.unwrap())
        .collect()
}

pub fn ncpu() -> usize {
    std::env::var("VERIF_THREADS")
        .ok()
        .and_then(|s| s.parse().ok())
        .unwrap_or_else(|| {
            std::thread::available_parallelism()
                .map(|n| n.get())
                .unwrap_or(4)
        })
}

/// catch_unwind wrapper that returns the panic message.
pub fn guarded<R>(f: impl FnOnce() -> R) -> Result<R, String> {
    match std::panic::catch_unwind(std::panic::AssertUnwindSafe(f)) {
        Ok(r) => Ok(r),
        Err(e) => {
            let msg = if let Some(s) = e.downcast_ref::<&str>() {
                (*s).to_owned()
            } else if let Some(s) = e.downcast_ref::<String>() {
                s.clone()
            } else {
                "panic (non-string payload)".to_owned()
            };
            Err(msg)
        }
    }
}

/// Silence the default panic hook's stderr spam (panics are outcomes here).
pub fn quiet_panics() {
    std::panic::set_hook(Box::new(|_| {}));
}

pub fn load_replay(path: &PathBuf) -> Value {
    let text = fs::read_to_string(path)
        .unwrap_or_else(|e| machinery_error(&format!("cannot read replay {path:?}: {e}")));
    serde_json::from_str(&text)
        .unwrap_or_else(|e| machinery_error(&format!("bad replay json {path:?}: {e}")))
}

/// Per-thread initialisation: sozu's thread-local logger prints every
/// `error!` on stdout when uninitialised; an empty directive list mutes it.
pub fn thread_init() {
    // VERIF_SOZU_LOG=error|warn|info|debug shows the subject's own log (debugging aid)
    let dirs = match std::env::var("VERIF_SOZU_LOG") {
        Ok(spec) => sozu_command_lib::logging::parse_logging_spec(&spec).0,
        Err(_) => vec![],
    };
    sozu_command_lib::logging::LOGGER.with(|l| l.borrow_mut().set_directives(dirs));
}
